#!/bin/bash
# runs every registered check's quick (or $1=thorough) command on the current tree and prints a summary
cd /verif
tier=${1:-quick}
for id in $(python3 -c "import json;print(' '.join(c['property_id'] for c in json.load(open('MANIFEST.json'))['checks']))"); do
  s=$(date +%s)
  ./check $id --tier $tier > /tmp/runall.$id.log 2>&1; rc=$?
  e=$(date +%s)
  echo "$id exit=$rc $((e-s))s $(grep -a -c '^KNOWN-FINDING' /tmp/runall.$id.log) known; $(tail -1 /tmp/runall.$id.log | cut -c1-150)"
done
