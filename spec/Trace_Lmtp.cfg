INIT TInit
NEXT TNext
CONSTANTS
  Addrs = {"a", "b"}
  MaxRcpts = 1
CHECK_DEADLOCK FALSE
