SPECIFICATION Spec
CONSTANTS
  Transfers = {1, 2, 3}
  Deviation = TRUE
INVARIANTS OwnVerdict NoGoroutineBlocked
PROPERTIES WaitEnds
