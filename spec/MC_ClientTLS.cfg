INIT Init
NEXT Next
INVARIANTS NothingSensitiveInPlaintext NoSuccessWithoutTLS RenegotiatesInsideTLS Dump
CHECK_DEADLOCK FALSE
