--------------------------- MODULE Trace_Limiter ---------------------------
(* Code -> spec for the line reader: each recorded case is an octet stream  *)
(* (as classes), the limit the server ran with, and the results the real    *)
(* server produced (length of each line it executed, 0 = refused as too     *)
(* long).  The case is accepted iff the results are the declarative ones,   *)
(* allowing the one-octet tolerance C19 grants: a line of exactly limit+1   *)
(* octets may be accepted or refused.                                       *)
EXTENDS Limiter, Json

Cases == ndJsonDeserialize("cases.ndjson")

\* replace each maximal run of "x" given as a count: a case's stream is a
\* sequence of line lengths plus an unterminated tail, to keep files small
RECURSIVE Expand(_, _)
Expand(lens, i) == IF i > Len(lens) THEN <<>>
                   ELSE [k \in 1..(lens[i] - 1) |-> "x"] \o <<"n">> \o Expand(lens, i + 1)
StreamOf(c) == Expand(c.lines, 1) \o [k \in 1..c.tail |-> "x"]

Accepts(c) ==
  LET s == StreamOf(c) IN
  \/ c.results = LinesL(s, 1, c.limit)
  \/ c.results = LinesL(s, 1, c.limit + 1)    \* the tolerated off-by-one

BadCases == {i \in DOMAIN Cases : ~Accepts(Cases[i])}

ASSUME PrintT(<<"BADCASES", ToJson(BadCases)>>)
ASSUME PrintT(<<"NCASES", ToString(Len(Cases))>>)

\* a trivial behaviour so that TLC has something to run
VARIABLE dummy
TInit == Init /\ dummy = 0
TNext == UNCHANGED <<vars, dummy>>
=============================================================================
