SPECIFICATION Spec
CONSTANTS
  Addrs = {"a", "b"}
  MaxRcpts = 3
INVARIANTS EmittedRight NeverMoreThanRecipients ChannelsFit AllThere
PROPERTIES Termination
