SPECIFICATION TraceSpecDiag
CONSTANTS
  Configs = {}
  ChunkSizes = {0, 6, 12}
  SmallMsg = 4
  BigMsg = 20
  MaxErr = 3
  RcptBound = 1000
  Alphabet <- TraceAlphabet
VIEW TraceView
CHECK_DEADLOCK FALSE
