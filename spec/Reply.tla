------------------------------- MODULE Reply -------------------------------
(***************************************************************************)
(* Reply formatting and parsing (properties C17 and the syntax part of     *)
(* C04), over an abstract text alphabet:                                   *)
(*   "w"  a word of printable ASCII          "u"  a word with non-ASCII    *)
(*   "e"  a word that looks like an enhanced status code ("4.2.2")         *)
(*   "s"  one space                                                        *)
(* A message is a sequence of lines, a line a sequence of tokens.          *)
(*                                                                         *)
(* Format(code, enh, msg): what the server writes for an SMTPError:        *)
(* RFC 2034 - the enhanced code on EVERY line of a multi-line reply        *)
(* (intended behaviour; the code under test put it on the last line only,  *)
(* DESIGN.md section 7 row 13).  enh is "set" (the error carries one),     *)
(* "unset" (X.0.0 of the reply's class is used) or "none".                 *)
(*                                                                         *)
(* Parse(wire): what the go-smtp client makes of it (textproto's reply     *)
(* reader, then toSMTPErr: a leading enhanced code is taken from the first *)
(* line and the same prefix removed from every further line).              *)
(***************************************************************************)
EXTENDS Naturals, Sequences, FiniteSets, TLC

\* ("E" inside a message: the text quotes the very enhanced code the reply carries)
Tokens == {"w", "u", "e", "s", "E"}

\* the enhanced-code token the server prepends: "E" (distinct from an "e"
\* that occurs in the message text; on the wire both look like codes)
EnhTok == "E"

\* wire line: [more |-> BOOLEAN, text |-> Seq(Tokens \cup {EnhTok})]
FormatLine(enh, line, more) ==
  [more |-> more, text |-> IF enh = "none" THEN line ELSE <<EnhTok, "s">> \o line]

Format(enh, msg) ==
  [i \in 1..Len(msg) |-> FormatLine(enh, msg[i], i < Len(msg))]

LooksLikeCode(t) == t \in {EnhTok, "e"}

\* the client: message lines are the wire texts; if the first line starts
\* with something that looks like an enhanced code followed by a space (or is
\* nothing but... no: a space is required), that is the enhanced code, and
\* the same prefix is removed from the start of every later line
Parse(wire) ==
  LET first == wire[1].text
      hasEnh == Len(first) >= 2 /\ LooksLikeCode(first[1]) /\ first[2] = "s"
      code == IF hasEnh THEN first[1] ELSE "none"
      strip(t) == IF hasEnh /\ Len(t) >= 2 /\ t[1] = code /\ t[2] = "s"
                  THEN SubSeq(t, 3, Len(t)) ELSE t
  IN [enh |-> code,
      msg |-> [i \in 1..Len(wire) |-> IF i = 1 THEN (IF hasEnh THEN SubSeq(first, 3, Len(first)) ELSE first)
                                      ELSE strip(wire[i].text)]]

\* what the client must end up with
Norm(enh, msg) == [enh |-> IF enh = "none" THEN "none" ELSE EnhTok, msg |-> msg]

\* a message is ambiguous on the wire by construction when no enhanced code
\* is sent and its own first token looks like one
Ambiguous(enh, msg) == enh = "none" /\ Len(msg[1]) >= 2 /\ msg[1][1] = "e" /\ msg[1][2] = "s"

RoundTrip(enh, msg) == Ambiguous(enh, msg) \/ Parse(Format(enh, msg)) = Norm(enh, msg)

\* wire validity (C04): all lines but the last are continuation lines
ValidWire(wire) == \A i \in DOMAIN wire : wire[i].more = (i < Len(wire))

-----------------------------------------------------------------------------
(* Exhaustive check over all messages up to a bound *)

CONSTANTS MaxLines, MaxToks

RECURSIVE SeqsOver(_, _)
SeqsOver(S, n) == IF n = 0 THEN {<<>>}
                  ELSE LET P == SeqsOver(S, n - 1) IN P \cup {Append(p, x) : p \in {q \in P : Len(q) = n - 1}, x \in S}

Lines == SeqsOver(Tokens, MaxToks)
Msgs == SeqsOver(Lines, MaxLines) \ {<<>>}

VARIABLES enh, msg
QuotesOwnCode(m) == \E i \in DOMAIN m : \E j \in DOMAIN m[i] : m[i][j] = "E"
Init == enh \in {"set", "unset", "none"} /\ msg \in Msgs /\ (enh = "none" => ~QuotesOwnCode(msg))
Next == UNCHANGED <<enh, msg>>

RoundTripHolds == RoundTrip(enh, msg)
WireValid == ValidWire(Format(enh, msg))
EveryLineCarriesCode == enh # "none" => \A i \in DOMAIN msg : Format(enh, msg)[i].text[1] = EnhTok
=============================================================================
