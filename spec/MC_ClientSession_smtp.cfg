SPECIFICATION Spec
CONSTANTS
  Lmtp = FALSE
  MaxRcpt = 2
  ExtSets <- MCExtSets
  Names = {"a", "b"}
VIEW View
INVARIANTS ParamsNegotiated Utf8NotDropped OneLinePerStep MailAfterHello ListsAgree CallbacksExact
PROPERTIES NothingAfterClose SecondCloseLocal StickyHelloError ResetAllowsHello
CHECK_DEADLOCK FALSE
