---------------------------- MODULE Trace_Reply ----------------------------
(* Code -> spec for C17: each case is an error a scripted backend returned  *)
(* (enhanced-code kind and message as token lines), the reply the real      *)
(* server wrote (tokenised per line) and what the real client made of it.   *)
EXTENDS Reply, Json

Cases == ndJsonDeserialize("cases.ndjson")

Accepts(c) ==
  /\ c.wire = Format(c.enh, c.msg)
  /\ Ambiguous(c.enh, c.msg) \/ c.client = Norm(c.enh, c.msg)

BadCases == {i \in DOMAIN Cases : ~Accepts(Cases[i])}
ASSUME PrintT(<<"BADCASES", ToJson(BadCases)>>)
ASSUME PrintT(<<"NCASES", ToString(Len(Cases))>>)
TInit == enh = "none" /\ msg = <<<<>>>>
TNext == UNCHANGED <<enh, msg>>
=============================================================================
