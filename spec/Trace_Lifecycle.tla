-------------------------- MODULE Trace_Lifecycle --------------------------
(* Code -> spec for the server life cycle: recorded scenarios on a real      *)
(* server (scripted Accept results, connections, Close/Shutdown calls from   *)
(* one or two goroutines, context expiry) are consumed event by event.       *)
(* Steps the harness cannot observe (back-off over, listeners closed) are    *)
(* silent steps composed in between; acceptance is by the high-water mark    *)
(* of consumed events.                                                       *)
EXTENDS Lifecycle, Json

Trace == ndJsonDeserialize("trace.ndjson")
VARIABLE l
tvars == <<vars, l>>

Ev == Trace[l]
Consume == l' = l + 1

TInit == /\ l = 2 /\ Trace[1].ev = "reset"
         /\ done = FALSE /\ lclosed = FALSE /\ serve = "accepting" /\ serveRes = ""
         /\ conns = {} /\ nconn = 0 /\ ntemp = 0
         /\ cpc = [c \in Closers |-> "idle"]
         /\ ckind = [c \in Closers |-> Trace[1].kinds[c]]
         /\ cres = [c \in Closers |-> ""]
         /\ ctxdone = [c \in Closers |-> FALSE]
         /\ appclosed = FALSE /\ lerr = [c \in Closers |-> FALSE]

TReset == /\ l <= Len(Trace) /\ Ev.ev = "reset" /\ Consume
          /\ done' = FALSE /\ lclosed' = FALSE /\ serve' = "accepting" /\ serveRes' = ""
          /\ conns' = {} /\ nconn' = 0 /\ ntemp' = 0
          /\ cpc' = [c \in Closers |-> "idle"]
          /\ ckind' = [c \in Closers |-> Ev.kinds[c]]
          /\ cres' = [c \in Closers |-> ""]
          /\ ctxdone' = [c \in Closers |-> FALSE]
          /\ appclosed' = FALSE /\ lerr' = [c \in Closers |-> FALSE]

Silent == /\ l' = l
          /\ \/ BackoffOver
             \/ \E c \in Closers : CloseListeners(c)

Logged ==
  /\ l <= Len(Trace) /\ Consume
  /\ CASE Ev.ev = "dial" -> AcceptConn
       [] Ev.ev = "temp" -> AcceptTemp
       [] Ev.ev = "perm" -> AcceptPerm
       [] Ev.ev = "appclose" -> AppCloseListener
       [] Ev.ev = "serveret-appclosed" -> AcceptAppClosed
       [] Ev.ev = "serveret" -> (AcceptClosed \/ (serve = "returned" /\ UNCHANGED vars)) /\ serveRes' = Ev.res
       [] Ev.ev = "connfinish" -> ConnFinish(Ev.k)
       [] Ev.ev = "call" -> Begin(Ev.c) /\ ckind[Ev.c] = Ev.kind
       [] Ev.ev = "ctx" -> CtxExpire(Ev.c)
       [] Ev.ev = "ret" ->
            \/ /\ cres[Ev.c] = Ev.res /\ UNCHANGED vars          \* result already determined
            \/ /\ cres[Ev.c] = "" /\ (CloseConns(Ev.c) \/ ShutdownDone(Ev.c)) /\ cres'[Ev.c] = Ev.res
       [] OTHER -> FALSE

TNext == TReset \/ Silent \/ Logged
TSpec == TInit /\ [][TNext]_tvars
TView == <<vars, l>>

ASSUME TLCSet(1, 0)
HWM == IF l > TLCGet(1) THEN TLCSet(1, l) ELSE TRUE
TraceAccepted == /\ PrintT(<<"HWM", ToString(TLCGet(1))>>)
                 /\ TLCGet(1) = Len(Trace) + 1
=============================================================================
