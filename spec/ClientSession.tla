---------------------------- MODULE ClientSession ----------------------------
(***************************************************************************)
(* The go-smtp Client as a state machine over its public API (client.go):  *)
(* lazy greeting, lazy EHLO/LHLO with the HELO fallback, sticky greeting   *)
(* and hello errors, the extension map of the most recent EHLO, the        *)
(* recipient list of the current transaction, the DATA writer and its      *)
(* Close, Reset (which allows a new hello), Quit and Close.                *)
(*                                                                         *)
(* One action per API call.  The peer is a protocol-conforming scripted    *)
(* server: what it may answer depends on its own view of the conversation  *)
(* (greeted, transaction open, recipients accepted); within that it        *)
(* chooses freely, and its choices are parameters of the action so that    *)
(* every (client state, call, peer decisions) triple is one edge.  Every   *)
(* edge states the command lines the call writes, the class of the result, *)
(* the status callbacks and the new client state; the harness replays the  *)
(* edges on the real Client against a fake peer driven by the decisions    *)
(* and compares all four (spec -> code), and records random API walks that *)
(* Trace_ClientSession explains with the same actions (code -> spec).      *)
(*                                                                         *)
(* Serves C15 (one line per step, only negotiated parameters of the MOST   *)
(* RECENT EHLO, unsupported SMTPUTF8 is a local error), C16 (Close returns *)
(* the verdict, second Close is a local error without I/O - also after a   *)
(* reply that timed out) and C18 (LMTP: one callback per listed recipient, *)
(* list = what the peer accepted in THIS transaction).  STARTTLS and AUTH  *)
(* are ClientTLS.tla and ClientAuth.tla.                                   *)
(*                                                                         *)
(* Application discipline assumed (documented API contract): no call other *)
(* than Write/Close of the writer while a DATA writer is open; Rcpt/Data   *)
(* only after a call that consumed the greeting; Mail only when the peer   *)
(* has no transaction open.                                                *)
(***************************************************************************)
EXTENDS Naturals, Sequences, FiniteSets, TLC

CONSTANTS Lmtp,      \* BOOLEAN: NewClientLMTP
          MaxRcpt,   \* recipients the peer accepts per transaction (bound)
          ExtSets,   \* extension sets the peer may advertise (subsets of Universe)
          Names      \* recipient names

Universe == {"8BITMIME", "SIZE", "SMTPUTF8"}
NoDec == "-"
NilExt == {"<nil>"}   \* the nil extension map (before any EHLO reply, after the HELO fallback)

VARIABLES st,    \* client and peer state (record, see Init)
          last   \* label of the last step (hidden by VIEW)

vars == <<st, last>>
View == st

InitState ==
       [conn  |-> "open",      \* "open" | "closed" (by the client) | "stuck" (a final reply timed out)
        g     |-> "new",       \* "new" | "ok" | error class : didGreet / greetError
        h     |-> "no",        \* "no" | "ok" | error class  : didHello / helloError
        ext   |-> NilExt,      \* NilExt (nil map) or the set of keywords of the last EHLO reply
        name  |-> "localhost", \* localName
        rcpts |-> <<>>,        \* Client.rcpts
        dw    |-> "none",      \* most recent DATA writer: "none" | "open" | "closed"
        dwcb  |-> FALSE,       \* it has a status callback
        sHello|-> FALSE,       \* peer: a greeting command was accepted
        sTxn  |-> FALSE,       \* peer: MAIL accepted, transaction open
        sList |-> <<>>,        \* peer: recipients accepted in it
        sExt  |-> {}]          \* peer: keywords of its last positive EHLO reply ({} after HELO)

Init == st = InitState /\ last = [call |-> "init"]

Verb == IF Lmtp THEN "LHLO" ELSE "EHLO"

(***************************************************************************)
(* hello(): greeting if not read yet, then EHLO with HELO fallback.        *)
(* d = [g, e, es, f]: greeting code, EHLO code, advertised set, HELO code. *)
(***************************************************************************)
HelloDecs(s) ==
  IF s.h # "no" \/ s.conn # "open" \/ s.g \notin {"new", "ok"}
  THEN {[g |-> NoDec, e |-> NoDec, es |-> {}, f |-> NoDec]}
  ELSE UNION {
         IF gd = "554" THEN {[g |-> gd, e |-> NoDec, es |-> {}, f |-> NoDec]}
         ELSE {[g |-> gd, e |-> "250", es |-> S, f |-> NoDec] : S \in ExtSets}
              \cup {[g |-> gd, e |-> e, es |-> {}, f |-> f] : e \in {"500", "502"}, f \in {"250", "550"}}
              \cup {[g |-> gd, e |-> "550", es |-> {}, f |-> NoDec]}
         : gd \in (IF s.g = "new" THEN {"220", "554"} ELSE {NoDec}) }

\* result: [s |-> state after the preamble, err |-> "nil" or the error class, lines |-> lines written, reads |-> replies read]
Hello(s, d) ==
  IF s.h # "no" THEN [s |-> s, err |-> IF s.h = "ok" THEN "nil" ELSE s.h, lines |-> <<>>, reads |-> 0]
  ELSE IF s.g \notin {"new", "ok"} THEN [s |-> s, err |-> s.g, lines |-> <<>>, reads |-> 0]
  ELSE IF s.conn # "open" THEN
       \* reading the greeting or writing EHLO fails on the closed connection
       IF s.g = "new" THEN [s |-> [s EXCEPT !.g = "io"], err |-> "io", lines |-> <<>>, reads |-> 0]
                      ELSE [s |-> [s EXCEPT !.h = "io"], err |-> "io", lines |-> <<>>, reads |-> 0]
  ELSE IF s.g = "new" /\ d.g = "554" THEN
       [s |-> [s EXCEPT !.g = "smtp554", !.conn = "closed"], err |-> "smtp554", lines |-> <<>>, reads |-> 1]
  ELSE LET gr == IF s.g = "new" THEN 1 ELSE 0
           s1 == [s EXCEPT !.g = "ok"]
           hl == <<Verb, s.name>>
       IN CASE d.e = "250" ->
                 [s |-> [s1 EXCEPT !.h = "ok", !.ext = d.es, !.sHello = TRUE, !.sTxn = FALSE, !.sList = <<>>, !.sExt = d.es],
                  err |-> "nil", lines |-> <<hl>>, reads |-> gr + 1]
            [] d.e \in {"500", "502"} /\ d.f = "250" ->
                 [s |-> [s1 EXCEPT !.h = "ok", !.ext = NilExt, !.sHello = TRUE, !.sTxn = FALSE, !.sList = <<>>, !.sExt = {}],
                  err |-> "nil", lines |-> <<hl, <<"HELO", s.name>>>>, reads |-> gr + 2]
            [] d.e \in {"500", "502"} /\ d.f = "550" ->
                 [s |-> [s1 EXCEPT !.h = "smtp550", !.ext = NilExt],
                  err |-> "smtp550", lines |-> <<hl, <<"HELO", s.name>>>>, reads |-> gr + 2]
            [] OTHER ->  \* EHLO refused with another code: sticky error, old extension map kept
                 [s |-> [s1 EXCEPT !.h = "smtp550"], err |-> "smtp550", lines |-> <<hl>>, reads |-> gr + 1]

Label(call, args, d, c, lines, res, reads, cbs) ==
  [call |-> call, args |-> args, dec |-> [g |-> d.g, e |-> d.e, es |-> d.es, f |-> d.f, c |-> c],
   lines |-> lines, res |-> res, reads |-> reads, cbs |-> cbs]

Busy == st.dw = "open" \/ st.conn = "stuck"   \* only the writer (or Close) may be used

(***************************************************************************)
(* Calls that run hello() and then one command expecting one code.         *)
(***************************************************************************)
SimpleReplies(call) ==
  CASE call = "Noop"   -> {"250", "502"}
    [] call = "Verify" -> {"250", "550"}
    [] call = "Reset"  -> {"250", "502"}
    [] call = "Quit"   -> {"221", "502"}
SimpleVerb(call) ==
  CASE call = "Noop" -> "NOOP" [] call = "Verify" -> "VRFY" [] call = "Reset" -> "RSET" [] call = "Quit" -> "QUIT"
SimpleOK(call) == IF call = "Quit" THEN "221" ELSE "250"

Simple(call) ==
  /\ ~Busy
  /\ \E d \in HelloDecs(st) :
       LET P == Hello(st, d) IN
       IF P.err # "nil" THEN
            /\ st' = P.s
            /\ last' = Label(call, <<>>, d, NoDec, P.lines, P.err, P.reads, <<>>)
       ELSE IF P.s.conn # "open" THEN
            /\ st' = P.s
            /\ last' = Label(call, <<>>, d, NoDec, P.lines, "io", P.reads, <<>>)
       ELSE \E c \in SimpleReplies(call) \cup {"stall"} :
            IF c = "stall" THEN
                 \* no reply within CommandTimeout: the call gives up with a transport
                 \* error; a late reply would be out of step, so only Close is left
                 /\ st' = [P.s EXCEPT !.conn = "stuck"]
                 /\ last' = Label(call, <<>>, d, c, Append(P.lines, <<SimpleVerb(call)>>), "io", P.reads, <<>>)
            ELSE
            LET ok == c = SimpleOK(call)
                s2 == CASE ok /\ call = "Reset" ->
                             [P.s EXCEPT !.h = "no", !.rcpts = <<>>, !.sTxn = FALSE, !.sList = <<>>]
                        [] ok /\ call = "Quit" -> [P.s EXCEPT !.conn = "closed"]
                        [] OTHER -> P.s
            IN /\ st' = s2
               /\ last' = Label(call, <<>>, d, c, Append(P.lines, <<SimpleVerb(call)>>),
                                IF ok THEN "nil" ELSE "smtp" \o c, P.reads + 1, <<>>)

\* an argument containing CR or LF: local error before anything else happens
BadArg(call) ==
  /\ ~Busy
  /\ call \in {"Hello", "Verify", "Mail", "Rcpt"}
  /\ UNCHANGED st
  /\ last' = Label(call, <<"crlf">>, [g |-> NoDec, e |-> NoDec, es |-> {}, f |-> NoDec], NoDec, <<>>, "local", 0, <<>>)

HelloCall ==
  /\ ~Busy
  /\ IF st.h # "no" THEN
          /\ UNCHANGED st
          /\ last' = Label("Hello", <<"custom">>, [g |-> NoDec, e |-> NoDec, es |-> {}, f |-> NoDec], NoDec, <<>>, "local", 0, <<>>)
     ELSE \E d \in HelloDecs([st EXCEPT !.name = "custom"]) :
          LET P == Hello([st EXCEPT !.name = "custom"], d) IN
          /\ st' = P.s
          /\ last' = Label("Hello", <<"custom">>, d, NoDec, P.lines, P.err, P.reads, <<>>)

\* Extension(k): hello() and a lookup
ExtQuery(k) ==
  /\ ~Busy
  /\ \E d \in HelloDecs(st) :
       LET P == Hello(st, d) IN
       /\ st' = P.s
       /\ last' = Label("Extension", <<k>>, d, NoDec, P.lines,
                        IF P.err = "nil" /\ k \in P.s.ext THEN "true" ELSE "false", P.reads, <<>>)

(***************************************************************************)
(* Mail(utf8, size): clears the recipient list once hello() succeeded.     *)
(***************************************************************************)
Has(s, k) == k \in s.ext

MailParams(s, u, z) ==
  (IF Has(s, "8BITMIME") THEN <<"BODY=8BITMIME">> ELSE <<>>)
  \o (IF Has(s, "SIZE") /\ z # 0 THEN <<"SIZE=5">> ELSE <<>>)
  \o (IF u THEN <<"SMTPUTF8">> ELSE <<>>)

Mail(u, z) ==
  /\ ~Busy /\ ~st.sTxn
  /\ \E d \in HelloDecs(st) :
       LET P == Hello(st, d)
           args == <<IF u THEN "utf8" ELSE "ascii", IF z = 0 THEN "nosize" ELSE "size">> IN
       IF P.err # "nil" THEN
            /\ st' = P.s
            /\ last' = Label("Mail", args, d, NoDec, P.lines, P.err, P.reads, <<>>)
       ELSE LET s1 == [P.s EXCEPT !.rcpts = <<>>] IN
            IF u /\ ~Has(s1, "SMTPUTF8") THEN
                 /\ st' = s1
                 /\ last' = Label("Mail", args, d, NoDec, P.lines, "local", P.reads, <<>>)
            ELSE IF s1.conn # "open" THEN
                 /\ st' = s1
                 /\ last' = Label("Mail", args, d, NoDec, P.lines, "io", P.reads, <<>>)
            ELSE \E c \in {"250", "451", "550"} :
                 /\ st' = IF c = "250" THEN [s1 EXCEPT !.sTxn = TRUE, !.sList = <<>>] ELSE s1
                 /\ last' = Label("Mail", args, d, c, Append(P.lines, <<"MAIL">> \o MailParams(s1, u, z)),
                                  IF c = "250" THEN "nil" ELSE "smtp" \o c, P.reads + 1, <<>>)

NoHello == [g |-> NoDec, e |-> NoDec, es |-> {}, f |-> NoDec]

\* Rcpt does not run hello()
RcptReplies(s) ==
  IF ~s.sTxn THEN {"503"}
  ELSE IF Len(s.sList) >= MaxRcpt THEN {"452"}
  ELSE {"250", "251", "550"}

Rcpt(r) ==
  /\ ~Busy /\ st.g = "ok"
  /\ IF st.conn # "open" THEN
          /\ UNCHANGED st
          /\ last' = Label("Rcpt", <<r>>, NoHello, NoDec, <<>>, "io", 0, <<>>)
     ELSE \E c \in RcptReplies(st) :
          LET ok == c \in {"250", "251"} IN
          /\ st' = IF ok THEN [st EXCEPT !.rcpts = Append(@, r), !.sList = Append(@, r)] ELSE st
          /\ last' = Label("Rcpt", <<r>>, NoHello, c, <<<<"RCPT", r>>>>, IF ok THEN "nil" ELSE "smtp" \o c, 1, <<>>)

\* Data / LMTPData do not run hello() either
Data(kind) ==
  /\ ~Busy /\ st.g = "ok"
  /\ IF kind = "LMTPData" /\ ~Lmtp THEN
          /\ UNCHANGED st
          /\ last' = Label(kind, <<>>, NoHello, NoDec, <<>>, "local", 0, <<>>)
     ELSE IF st.conn # "open" THEN
          /\ UNCHANGED st
          /\ last' = Label(kind, <<>>, NoHello, NoDec, <<>>, "io", 0, <<>>)
     ELSE \E c \in (IF st.sList = <<>> THEN {"503"} ELSE {"354", "554"}) :
          /\ st' = IF c = "354" THEN [st EXCEPT !.dw = "open", !.dwcb = (kind = "LMTPData")] ELSE st
          /\ last' = Label(kind, <<>>, NoHello, c, <<<<"DATA">>>>, IF c = "354" THEN "nil" ELSE "smtp" \o c, 1, <<>>)

(***************************************************************************)
(* Close of the DATA writer.  v: the peer's final replies ("250"/"554",    *)
(* one for SMTP, one per recipient IT accepted for LMTP) or <<"stall">>:   *)
(* no reply within SubmissionTimeout.                                      *)
(***************************************************************************)
Verdicts(s) ==
  IF Lmtp THEN [1..Len(s.sList) -> {"250", "550", "421"}] \cup {<<"stall">>}   \* 421 is one recipient's verdict, not the end of the replies
          ELSE {<<"250">>, <<"554">>, <<"stall">>}

FirstNeg(v) == IF \E i \in 1..Len(v) : v[i] # "250"
               THEN "smtp" \o v[CHOOSE i \in 1..Len(v) : v[i] # "250" /\ \A j \in 1..(i-1) : v[j] = "250"]
               ELSE "nil"

WClose ==
  /\ st.dw # "none"
  /\ IF st.dw = "closed" THEN
          /\ UNCHANGED st
          /\ last' = Label("WClose", <<>>, NoHello, NoDec, <<>>, "local", 0, <<>>)
     ELSE IF st.conn = "closed" THEN
          /\ UNCHANGED st     \* the end marker cannot be written: the writer is not closed
          /\ last' = Label("WClose", <<>>, NoHello, NoDec, <<>>, "io", 0, <<>>)
     ELSE \E v \in Verdicts(st) :
          LET n   == IF Lmtp THEN Len(st.rcpts) ELSE 1        \* replies the client reads
              s2  == [st EXCEPT !.dw = "closed", !.sTxn = FALSE, !.sList = <<>>]
          IN IF v = <<"stall">> THEN
                  /\ st' = [s2 EXCEPT !.conn = "stuck"]
                  /\ last' = [v |-> <<"stall">>] @@ Label("WClose", <<>>, NoHello, "stall", <<<<"BODY">>>>, "io", 0, <<>>)
             ELSE /\ st' = s2
                  /\ last' = [v |-> v] @@ Label("WClose", <<>>, NoHello, NoDec, <<<<"BODY">>>>,
                                    IF Lmtp /\ st.dwcb THEN "nil" ELSE FirstNeg(v), n,
                                    IF Lmtp /\ st.dwcb THEN [i \in 1..n |-> <<st.rcpts[i], v[i]>>] ELSE <<>>)

(***************************************************************************)
(* Client.SendMail(from, to, r): Mail; Rcpt for each address; Data; copy;   *)
(* Close - returning the first error.  The peer's decisions for the         *)
(* commands after the hello are the sequence cs (one per command written).  *)
(***************************************************************************)
SendTos == {<<"a">>, <<"a", "b">>}

LabelS(args, d, cs, v, lines, res) ==
  [call |-> "SendMail", args |-> args, dec |-> [g |-> d.g, e |-> d.e, es |-> d.es, f |-> d.f, c |-> NoDec],
   cs |-> cs, v |-> v, lines |-> lines, res |-> res, reads |-> 0, cbs |-> <<>>]

SendMail(to) ==
  /\ ~Busy /\ ~st.sTxn
  /\ \E d \in HelloDecs(st) :
       LET P == Hello(st, d) IN
       IF P.err # "nil" THEN
            /\ st' = P.s
            /\ last' = LabelS(to, d, <<>>, <<>>, P.lines, P.err)
       ELSE LET s1 == [P.s EXCEPT !.rcpts = <<>>]
                ml == <<"MAIL">> \o MailParams(s1, FALSE, 0) IN
            IF s1.conn # "open" THEN
                 /\ st' = s1
                 /\ last' = LabelS(to, d, <<>>, <<>>, P.lines, "io")
            ELSE \E cm \in {"250", "550"} :
                 IF cm # "250" THEN
                      /\ st' = s1
                      /\ last' = LabelS(to, d, <<cm>>, <<>>, Append(P.lines, ml), "smtp" \o cm)
                 ELSE \E k \in 0..Len(to) :   \* the k-th recipient is refused (0: none)
                      LET n == IF k = 0 THEN Len(to) ELSE k - 1      \* recipients accepted
                          acc == SubSeq(to, 1, n)
                          rl == [i \in 1..(IF k = 0 THEN Len(to) ELSE k) |-> <<"RCPT", to[i]>>]
                          rc == [i \in 1..(IF k = 0 THEN Len(to) ELSE k) |-> IF i = k THEN "550" ELSE "250"]
                          s2 == [s1 EXCEPT !.rcpts = acc, !.sTxn = TRUE, !.sList = acc]
                      IN IF k # 0 THEN
                              /\ st' = s2
                              /\ last' = LabelS(to, d, <<cm>> \o rc, <<>>, Append(P.lines, ml) \o rl, "smtp550")
                         ELSE \E cd \in {"354", "554"} :
                              IF cd = "554" THEN
                                   /\ st' = s2
                                   /\ last' = LabelS(to, d, <<cm>> \o rc \o <<cd>>, <<>>, Append(P.lines, ml) \o rl \o <<<<"DATA">>>>, "smtp554")
                              ELSE \E v \in Verdicts(s2) :
                                   LET s3 == [s2 EXCEPT !.sTxn = FALSE, !.sList = <<>>]
                                       ls == Append(P.lines, ml) \o rl \o <<<<"DATA">>, <<"BODY">>>> IN
                                   IF v = <<"stall">> THEN
                                        /\ st' = [s3 EXCEPT !.conn = "stuck"]
                                        /\ last' = LabelS(to, d, <<cm>> \o rc \o <<cd>>, v, ls, "io")
                                   ELSE /\ st' = s3
                                        /\ last' = LabelS(to, d, <<cm>> \o rc \o <<cd>>, v, ls, FirstNeg(v))

CloseCall ==
  /\ st' = [st EXCEPT !.conn = "closed"]
  /\ last' = Label("Close", <<>>, NoHello, NoDec, <<>>, "any", 0, <<>>)

Next ==
  \/ \E call \in {"Noop", "Verify", "Reset", "Quit"} : Simple(call)
  \/ \E call \in {"Hello", "Verify", "Mail", "Rcpt"} : BadArg(call)
  \/ HelloCall
  \/ \E k \in Universe : ExtQuery(k)
  \/ \E u \in BOOLEAN, z \in {0, 5} : Mail(u, z)
  \/ \E r \in Names : Rcpt(r)
  \/ \E kind \in {"Data", "LMTPData"} : Data(kind)
  \/ WClose
  \/ CloseCall
  \/ \E to \in SendTos : SendMail(to)

Spec == Init /\ [][Next]_vars

(***************************************************************************)
(* Properties                                                              *)
(***************************************************************************)
Lines == IF "lines" \in DOMAIN last THEN last.lines ELSE <<>>

\* C15: parameters only for extensions of the peer's most recent positive EHLO reply
ParamNeeds(p) == CASE p = "BODY=8BITMIME" -> "8BITMIME" [] p = "SIZE=5" -> "SIZE" [] p = "SMTPUTF8" -> "SMTPUTF8"
ParamsNegotiated ==
  \A i \in 1..Len(Lines) : Lines[i][1] = "MAIL" =>
     \A j \in 2..Len(Lines[i]) : ParamNeeds(Lines[i][j]) \in st.sExt

\* C15: a requested SMTPUTF8 is on the wire or the call failed locally - never dropped
Utf8NotDropped ==
  (last.call = "Mail" /\ last.args[1] = "utf8" /\ \E i \in 1..Len(Lines) : Lines[i][1] = "MAIL")
     => \E i \in 1..Len(Lines) : Lines[i][1] = "MAIL" /\ \E j \in 2..Len(Lines[i]) : Lines[i][j] = "SMTPUTF8"

\* C15: lock step - every command line written is answered before the call returns
\* (the message body counts as one step answered by its final replies)
OneLinePerStep ==
  (last.call \notin {"init", "WClose", "SendMail"} /\ last.dec.c # "stall") =>
     Len(Lines) + (IF last.dec.g \in {"220", "554"} THEN 1 ELSE 0) = last.reads

\* MAIL is only ever sent to a peer that accepted a greeting command
MailAfterHello == \A i \in 1..Len(Lines) : Lines[i][1] = "MAIL" => st.sHello

\* C18: while a message is being written the client's list is the peer's
ListsAgree == st.dw = "open" /\ st.conn = "open" => st.rcpts = st.sList

\* C18: with a callback, exactly one per listed recipient, in order, with its own reply
CallbacksExact ==
  (last.call = "WClose" /\ "v" \in DOMAIN last /\ last.v # <<"stall">> /\ Lmtp /\ last.cbs # <<>>)
     => Len(last.cbs) = Len(last.v) /\ \A i \in 1..Len(last.v) : last.cbs[i][2] = last.v[i]

\* step properties
NothingAfterClose == [][st.conn = "closed" => Len(last'.lines) = 0]_vars
SecondCloseLocal  == [][(st.dw = "closed" /\ last'.call = "WClose") => (last'.res = "local" /\ Len(last'.lines) = 0)]_vars
StickyHelloError  == [][(st.h \notin {"no", "ok"} /\ last'.call \in {"Noop", "Verify", "Reset", "Quit", "Mail", "Hello"} /\ last'.args # <<"crlf">>)
                          => (Len(last'.lines) = 0 /\ last'.res \in {st.h, "local"})]_vars
ResetAllowsHello  == [][(last'.call = "Reset" /\ last'.res = "nil") => (st'.h = "no" /\ st'.rcpts = <<>>)]_vars
=============================================================================
