INIT EInit
NEXT ENext
CONSTANTS
  MaxLen = 7
  Budgets = {0}
INVARIANTS ArrivesIntact
CHECK_DEADLOCK FALSE
