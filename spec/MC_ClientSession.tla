---------------------------- MODULE MC_ClientSession ----------------------------
(* Exhaustive instances of ClientSession (SMTP and LMTP client) and the edge dump. *)
EXTENDS ClientSession, Json

MCExtSets == {{}, {"8BITMIME", "SIZE"}, {"SMTPUTF8"}, {"8BITMIME", "SIZE", "SMTPUTF8"}}

\* every generated transition is printed once (VIEW hides `last`)
DumpEdge == PrintT(<<"CEDGE", ToJson([lmtp |-> Lmtp, src |-> st, lbl |-> last', dst |-> st'])>>)
=============================================================================
