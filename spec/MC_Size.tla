----------------------------- MODULE MC_Size -----------------------------
(* SmtpServer instance for the size-limit family (C06): limit 8, chunk     *)
(* sizes {0, 3, 6, 12} so that three-chunk accumulations (3+3+3 > 8),      *)
(* exact fits (3+3, 6) and an over-limit first chunk are all in the graph. *)
EXTENDS SmtpServer, Json

MCConfigs ==
  { [lmtp |-> l, maxRcpt |-> 0, maxBytes |-> 8, tlsAvail |-> FALSE, implicitTLS |-> FALSE,
     insecureAuth |-> FALSE, authBackend |-> FALSE, lmtpBackend |-> FALSE,
     binarymime |-> TRUE, dsn |-> FALSE] : l \in BOOLEAN }

MCAlphabet == {"greet", "mail", "rcpt", "data", "bdat", "simple", "quit"}

DumpEdge ==
  PrintT(<<"EDGE", ToJson([cfg |-> cfg, src |-> st, osrc |-> obs, lbl |-> last', dst |-> st', odst |-> obs'])>>)
=============================================================================
