----------------------------- MODULE MC_Size -----------------------------
(* SmtpServer instance for the size-limit family (C06): limit 8, chunk     *)
(* sizes {0, 3, 6, 12} so that three-chunk accumulations (3+3+3 > 8),      *)
(* fits (3+3, 6) and an over-limit first chunk are all in the graph; and    *)
(* limit 9, which 3+6 and 3+3+3 use up EXACTLY: an empty chunk (BDAT 0,    *)
(* BDAT 0 LAST) still belongs to the message then.                         *)
EXTENDS SmtpServer, Json

MCConfigs ==
  { [lmtp |-> l, maxRcpt |-> 0, maxBytes |-> b, tlsAvail |-> FALSE, implicitTLS |-> FALSE,
     insecureAuth |-> FALSE, authBackend |-> FALSE, lmtpBackend |-> FALSE,
     binarymime |-> TRUE, dsn |-> FALSE] : l \in BOOLEAN, b \in {8, 9} }

MCAlphabet == {"greet", "mail", "rcpt", "data", "bdat", "simple", "quit"}

DumpEdge ==
  PrintT(<<"EDGE", ToJson([cfg |-> cfg, src |-> st, osrc |-> obs, lbl |-> last', dst |-> st', odst |-> obs'])>>)
=============================================================================
