INIT TInit
NEXT ENext
CONSTANTS
  MaxLen = 0
  Budgets = {0}
CHECK_DEADLOCK FALSE
