---------------------------- MODULE Trace_DotEnc ----------------------------
(* Code -> spec for C16: each case is a body (tokens) written through the   *)
(* real client and the octets (classes) the real server's backend read.     *)
EXTENDS DotEnc, Json

Cases == ndJsonDeserialize("cases.ndjson")
Accepts(c) == c.received = Normalize(c.body)
BadCases == {i \in DOMAIN Cases : ~Accepts(Cases[i])}
ASSUME PrintT(<<"BADCASES", ToJson(BadCases)>>)
ASSUME PrintT(<<"NCASES", ToString(Len(Cases))>>)
TInit == body = <<>> /\ s = <<>> /\ st = "BeginLine" /\ out = <<>> /\ fail = FALSE /\ bud = 0
=============================================================================
