INIT Init
NEXT Next
CONSTANTS
  MaxLen = 6
INVARIANTS ValidHasOneAt NullPathOnlyForMail DisabledIsInvalid
INVARIANTS Dump
CHECK_DEADLOCK FALSE
