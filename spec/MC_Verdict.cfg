SPECIFICATION Spec
CONSTANTS
  Transfers = {1, 2, 3}
  Deviation = FALSE
INVARIANTS OwnVerdict NoGoroutineBlocked
PROPERTIES WaitEnds
