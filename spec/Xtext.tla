------------------------------- MODULE Xtext -------------------------------
(***************************************************************************)
(* The encodings of property C14, over code points (natural numbers):      *)
(*   xtext (RFC 3461)             for ENVID, AUTH=, ORCPT rfc822           *)
(*   utf-8-addr-xtext / -unitext  (RFC 6533) for ORCPT utf-8               *)
(* written from the RFC text, with the hex digits explicit, so that        *)
(* "+1" vs "+01" and a raw backslash are visible (DESIGN.md section 7      *)
(* row 11).  TLC checks that decoding inverts encoding for every string    *)
(* over a representative alphabet up to a length bound, and that the       *)
(* encoded form contains nothing that would end the parameter.             *)
(***************************************************************************)
EXTENDS Naturals, Sequences, FiniteSets, TLC, Json

PLUS == 43  EQ == 61  SP == 32  BSL == 92  LBR == 123  RBR == 125  XCH == 120  DEL == 127

HexDigitChar(d) == IF d < 10 THEN 48 + d ELSE 55 + d          \* '0'..'9', 'A'..'F'
IsHexChar(c) == (c >= 48 /\ c <= 57) \/ (c >= 65 /\ c <= 70)
HexVal(c) == IF c <= 57 THEN c - 48 ELSE c - 55

\* printable non-space ASCII except '+' and '='
Plain(c) == c >= 33 /\ c <= 126 /\ c # PLUS /\ c # EQ

-----------------------------------------------------------------------------
(* xtext: domain = 7-bit ASCII *)

EncXChar(c) == IF Plain(c) THEN <<c>> ELSE <<PLUS, HexDigitChar(c \div 16), HexDigitChar(c % 16)>>

RECURSIVE EncX(_)
EncX(s) == IF s = <<>> THEN <<>> ELSE EncXChar(Head(s)) \o EncX(Tail(s))

\* result: a sequence of code points, or <<-1>>... errors are the sequence <<999999>>
Err == <<999999>>
RECURSIVE DecX(_)
DecX(w) ==
  IF w = <<>> THEN <<>>
  ELSE IF Head(w) = PLUS THEN
         IF Len(w) >= 3 /\ IsHexChar(w[2]) /\ IsHexChar(w[3])
         THEN LET rest == DecX(SubSeq(w, 4, Len(w))) IN
              IF rest = Err THEN Err ELSE <<16 * HexVal(w[2]) + HexVal(w[3])>> \o rest
         ELSE Err
       ELSE LET rest == DecX(Tail(w)) IN IF rest = Err THEN Err ELSE <<Head(w)>> \o rest

-----------------------------------------------------------------------------
(* RFC 6533: \x{HEXPOINT}; digits: minimal, at least two *)

RECURSIVE HexDigits(_, _)
\* n in at least k digits
HexDigits(n, k) == IF n < 16 /\ k <= 1 THEN <<HexDigitChar(n)>>
                   ELSE HexDigits(n \div 16, k - 1) \o <<HexDigitChar(n % 16)>>

Embedded(c) == <<BSL, XCH, LBR>> \o HexDigits(c, 2) \o <<RBR>>

\* what must be embedded in the ASCII range: controls, space, '+', '=', backslash, DEL
AsciiSpecial(c) == c < 33 \/ c = PLUS \/ c = EQ \/ c = BSL \/ c = DEL

EncU8XChar(c) == IF c < 128 /\ ~AsciiSpecial(c) THEN <<c>> ELSE Embedded(c)   \* utf-8-addr-xtext: 7-bit output
EncUniChar(c) == IF c >= 128 \/ ~AsciiSpecial(c) THEN <<c>> ELSE Embedded(c)  \* utf-8-addr-unitext: non-ASCII as is

RECURSIVE EncU8X(_)
EncU8X(s) == IF s = <<>> THEN <<>> ELSE EncU8XChar(Head(s)) \o EncU8X(Tail(s))
RECURSIVE EncUni(_)
EncUni(s) == IF s = <<>> THEN <<>> ELSE EncUniChar(Head(s)) \o EncUni(Tail(s))

\* HEXPOINT validity by number of digits (RFC 6533 section 3)
ValidPoint(v, nd) ==
  CASE nd = 2 -> \/ (v >= 1 /\ v <= 9) \/ (v >= 17 /\ v <= 25) \/ v \in {16, 32, 43, 61, 127, 92}
                 \/ (v >= 128 /\ v <= 255)
    [] nd = 3 -> v >= 256 /\ v <= 4095
    [] nd = 4 -> (v >= 4096 /\ v <= 55295) \/ (v >= 57344 /\ v <= 65535)
    [] nd = 5 -> v >= 65536 /\ v <= 1048575
    [] nd = 6 -> v >= 1048576 /\ v <= 1114111
    [] OTHER -> FALSE

RECURSIVE HexRun(_, _)
\* length of the run of hex digit chars at the start of w (from index i)
HexRun(w, i) == IF i <= Len(w) /\ IsHexChar(w[i]) THEN 1 + HexRun(w, i + 1) ELSE 0
RECURSIVE HexNum(_, _, _)
HexNum(w, i, n) == IF n = 0 THEN 0 ELSE HexNum(w, i, n - 1) * 16 + HexVal(w[i + n - 1])

RECURSIVE DecU8(_)
DecU8(w) ==
  IF w = <<>> THEN <<>>
  ELSE IF Len(w) >= 3 /\ w[1] = BSL /\ w[2] = XCH /\ w[3] = LBR THEN
         LET nd == HexRun(w, 4) IN
         IF nd >= 1 /\ 4 + nd <= Len(w) /\ w[4 + nd] = RBR /\ ValidPoint(HexNum(w, 4, nd), nd)
         THEN LET rest == DecU8(SubSeq(w, 5 + nd, Len(w))) IN
              IF rest = Err THEN Err ELSE <<HexNum(w, 4, nd)>> \o rest
         ELSE Err
       ELSE IF Head(w) < 128 /\ AsciiSpecial(Head(w)) THEN Err
       ELSE LET rest == DecU8(Tail(w)) IN IF rest = Err THEN Err ELSE <<Head(w)>> \o rest

-----------------------------------------------------------------------------
(* Theorems over a representative alphabet *)

CONSTANT MaxLen

AsciiAlphabet == {0, 1, 9, 10, 15, 16, 31, SP, 33, PLUS, EQ, 48, 50, 57, 65, 66, 70, 71, BSL, XCH, LBR, RBR, 126, DEL}
\* the domain of the utf-8 forms: printable ASCII and non-ASCII scalar values
UniAlphabet == {SP, 33, PLUS, EQ, 48, 50, 65, 70, BSL, XCH, LBR, RBR, 126,
                128, 255, 256, 4095, 4096, 55295, 57344, 65535, 65536, 1048575, 1048576, 1114111}

RECURSIVE StrsOver(_, _)
StrsOver(S, n) == IF n = 0 THEN {<<>>}
                  ELSE LET P == StrsOver(S, n - 1) IN P \cup {Append(p, x) : p \in {q \in P : Len(q) = n - 1}, x \in S}

WireSafeX(w) == \A i \in DOMAIN w : w[i] >= 33 /\ w[i] <= 126 /\ w[i] # EQ
WireSafeU(w) == \A i \in DOMAIN w : w[i] >= 33 /\ w[i] # EQ /\ w[i] # DEL /\ (w[i] = PLUS => FALSE)

-----------------------------------------------------------------------------
(* Sender and recipient mailboxes (C14) are not encoded at all: the client  *)
(* writes "<" mailbox ">" as UTF-8 octets, and the server's path parser     *)
(* works octet by octet - a dot-string local part up to "@", then a domain  *)
(* up to the first SP, TAB or ">".  What has to hold is that no octet of    *)
(* the UTF-8 form of a character that may occur in a mailbox is taken for   *)
(* one of those delimiters.                                                 *)

Utf8(c) == IF c < 128 THEN <<c>>
           ELSE IF c < 2048 THEN <<192 + (c \div 64), 128 + (c % 64)>>
           ELSE IF c < 65536 THEN <<224 + (c \div 4096), 128 + ((c \div 64) % 64), 128 + (c % 64)>>
           ELSE <<240 + (c \div 262144), 128 + ((c \div 4096) % 64), 128 + ((c \div 64) % 64), 128 + (c % 64)>>
RECURSIVE Utf8Seq(_)
Utf8Seq(s) == IF s = <<>> THEN <<>> ELSE Utf8(Head(s)) \o Utf8Seq(Tail(s))

AT == 64  GT == 62  TAB == 9
LocalSpecials == {40, 41, 60, 62, 91, 93, 58, 59, BSL, 44, 34, SP, TAB}   \* the RFC 5321 specials, SP and TAB
RECURSIVE TakeLocal(_)
\* octets of the local part: up to "@"; a special character is an error
TakeLocal(w) == IF w = <<>> \/ Head(w) = AT THEN <<>>
                ELSE IF Head(w) \in LocalSpecials THEN Err
                ELSE LET rest == TakeLocal(Tail(w)) IN IF rest = Err THEN Err ELSE <<Head(w)>> \o rest
RECURSIVE TakeDomain(_)
TakeDomain(w) == IF w = <<>> \/ Head(w) \in {SP, TAB, GT} THEN <<>> ELSE <<Head(w)>> \o TakeDomain(Tail(w))

\* the mailbox the server reads from the octets between "<" and the end of the line
ParseMailbox(w) ==
  LET l == TakeLocal(w) IN
  IF l = Err \/ l = <<>> \/ Len(l) >= Len(w) THEN Err
  ELSE LET d == TakeDomain(SubSeq(w, Len(l) + 2, Len(w))) IN
       IF d = <<>> THEN Err ELSE l \o <<AT>> \o d

\* characters a mailbox part is made of here: atext samples, the dot, and
\* non-ASCII characters whose UTF-8 forms run through the octet values
\* (0x85 and 0xA0 - Latin-1 NEL and NBSP - as continuation octets included)
MboxAlphabet == {97, 45, 46, 133, 160, 224, 197, 1927, 2047, 2048, 8230, 26085, 65535, 65536, 128512, 1114111}

VARIABLES mode, str
Init == \/ mode = "xtext" /\ str \in StrsOver(AsciiAlphabet, MaxLen)
        \/ mode \in {"u8x", "uni"} /\ str \in StrsOver(UniAlphabet, MaxLen)
        \/ mode = "mbox" /\ str \in StrsOver(MboxAlphabet, IF MaxLen > 3 THEN 3 ELSE MaxLen) \ {<<>>}
Next == UNCHANGED <<mode, str>>

\* mbox: the same string as local part and as domain
MboxOctets == Utf8Seq(str) \o <<AT>> \o Utf8Seq(str)
Wire == CASE mode = "xtext" -> EncX(str) [] mode = "u8x" -> EncU8X(str) [] mode = "mbox" -> MboxOctets [] OTHER -> EncUni(str)

RoundTrip == CASE mode = "xtext" -> DecX(EncX(str)) = str
               [] mode = "u8x" -> DecU8(EncU8X(str)) = str
               [] mode = "mbox" -> ParseMailbox(MboxOctets \o <<GT>>) = MboxOctets
               [] OTHER -> DecU8(EncUni(str)) = str
WireSafe == CASE mode = "xtext" -> WireSafeX(Wire) [] mode = "mbox" -> TRUE [] OTHER -> WireSafeU(Wire)
SevenBit == mode = "u8x" => \A i \in DOMAIN Wire : Wire[i] < 128

Dump == Len(str) <= 2 => PrintT(<<"XT", ToJson([mode |-> mode, str |-> str, wire |-> Wire])>>)
=============================================================================
