INIT Init
NEXT Next
INVARIANTS OnlyNegotiated RequestedSecurityNeverDropped NoSecondLine ErrorWritesNothing
INVARIANTS Dump
CHECK_DEADLOCK FALSE
