INIT TInit
NEXT TNext
CONSTANTS
  Rcpts = {"a"}
  MaxTxn = 1
  MaxPerTxn = 1
CHECK_DEADLOCK FALSE
