------------------------------ MODULE MC_Idle ------------------------------
(* SmtpServer instance for the idle-timeout close reason (C07, C08): the    *)
(* server waits for a command line longer than ReadTimeout, from every      *)
(* envelope / transfer state.                                               *)
EXTENDS SmtpServer, Json

MCConfigs ==
  { [lmtp |-> l, maxRcpt |-> 0, maxBytes |-> 0, tlsAvail |-> FALSE, implicitTLS |-> FALSE,
     insecureAuth |-> a, authBackend |-> a, lmtpBackend |-> FALSE,
     binarymime |-> TRUE, dsn |-> FALSE] : l \in BOOLEAN, a \in BOOLEAN } \
  { c \in [lmtp : {TRUE}, maxRcpt : {0}, maxBytes : {0}, tlsAvail : {FALSE}, implicitTLS : {FALSE},
            insecureAuth : {TRUE}, authBackend : {TRUE}, lmtpBackend : {FALSE}, binarymime : {TRUE}, dsn : {FALSE}] : TRUE }

\* ("auth": the silence may also fall into a SASL exchange)
\* ("stall": the silence falls into a message body or a chunk)
MCAlphabet == {"greet", "mail", "rcpt", "bdat", "idle", "quit", "auth", "stall"}

DumpEdge ==
  PrintT(<<"EDGE", ToJson([cfg |-> cfg, src |-> st, osrc |-> obs, lbl |-> last', dst |-> st', odst |-> obs'])>>)
=============================================================================
