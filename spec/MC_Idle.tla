------------------------------ MODULE MC_Idle ------------------------------
(* SmtpServer instance for the idle-timeout close reason (C07, C08): the    *)
(* server waits for a command line longer than ReadTimeout, from every      *)
(* envelope / transfer state.                                               *)
EXTENDS SmtpServer, Json

MCConfigs ==
  { [lmtp |-> l, maxRcpt |-> 0, maxBytes |-> 0, tlsAvail |-> FALSE, implicitTLS |-> FALSE,
     insecureAuth |-> a, authBackend |-> a, lmtpBackend |-> lb,
     binarymime |-> TRUE, dsn |-> FALSE] : l \in BOOLEAN, a \in BOOLEAN, lb \in BOOLEAN } \
  { c \in [lmtp : BOOLEAN, maxRcpt : {0}, maxBytes : {0}, tlsAvail : {FALSE}, implicitTLS : {FALSE},
            insecureAuth : BOOLEAN, authBackend : BOOLEAN, lmtpBackend : BOOLEAN, binarymime : {TRUE}, dsn : {FALSE}] :
        (c.lmtp /\ c.authBackend) \/ (~c.lmtp /\ c.lmtpBackend) }
\* (LMTP: with a plain backend and with a per-recipient one - the silence inside a
\* final chunk still owes one reply per recipient)

\* ("auth": the silence may also fall into a SASL exchange)
\* ("stall": the silence falls into a message body or a chunk)
MCAlphabet == {"greet", "mail", "rcpt", "bdat", "idle", "quit", "auth", "stall"}

DumpEdge ==
  PrintT(<<"EDGE", ToJson([cfg |-> cfg, src |-> st, osrc |-> obs, lbl |-> last', dst |-> st', odst |-> obs'])>>)
=============================================================================
