------------------------------ MODULE MC_Idle ------------------------------
(* SmtpServer instance for the idle-timeout close reason (C07, C08): the    *)
(* server waits for a command line longer than ReadTimeout, from every      *)
(* envelope / transfer state.                                               *)
EXTENDS SmtpServer, Json

MCConfigs ==
  { [lmtp |-> l, maxRcpt |-> 0, maxBytes |-> 0, tlsAvail |-> FALSE, implicitTLS |-> FALSE,
     insecureAuth |-> FALSE, authBackend |-> FALSE, lmtpBackend |-> FALSE,
     binarymime |-> TRUE, dsn |-> FALSE] : l \in BOOLEAN }

MCAlphabet == {"greet", "mail", "rcpt", "bdat", "idle", "quit"}

DumpEdge ==
  PrintT(<<"EDGE", ToJson([cfg |-> cfg, src |-> st, osrc |-> obs, lbl |-> last', dst |-> st', odst |-> obs'])>>)
=============================================================================
