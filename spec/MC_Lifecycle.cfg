SPECIFICATION Spec
CONSTANTS
  Closers = {"c1", "c2"}
  MaxConns = 2
  MaxTemp = 3
INVARIANTS ExactlyOnce SecondReportsClosed CloseEndsEverything ShutdownWaits ServeResult ListenerErrorStillCloses
PROPERTIES TempNeverEnds EventuallyServeReturns
