----------------------------- MODULE Lifecycle -----------------------------
(***************************************************************************)
(* Server life cycle (property C20): Serve's accept loop, connection       *)
(* handlers, Close and Shutdown, as concurrent processes.  The check of    *)
(* the done flag and its closing are one atomic step (the INTENDED         *)
(* behaviour: two concurrent closers must not both close the channel,      *)
(* DESIGN.md section 7 row 16).                                            *)
(***************************************************************************)
EXTENDS Naturals, Sequences, FiniteSets, TLC

CONSTANTS Closers,     \* closer processes, e.g. {"c1", "c2"}
          MaxConns,    \* connections accepted at most
          MaxTemp      \* temporary accept errors at most

VARIABLES done,        \* the server's done flag (channel closed)
          lclosed,     \* listener closed
          serve,       \* "accepting" | "backoff" | "returned"
          serveRes,    \* "" | "nil" | "perm"
          conns,       \* set of open connection ids
          nconn,       \* connections accepted so far
          ntemp,       \* temporary errors so far
          cpc,         \* [Closers -> pc]: "idle" "kind chosen" ... "returned"
          ckind,       \* [Closers -> "close" | "shutdown"]
          cres,        \* [Closers -> "" | "nil" | "closed" (ErrServerClosed) | "ctx"]
          ctxdone,     \* [Closers -> BOOLEAN]: the Shutdown context expired
          appclosed,   \* the application closed the listener itself, before any Close/Shutdown
          lerr         \* [Closers -> BOOLEAN]: this closer found the listener already closed (its Close fails)

vars == <<done, lclosed, serve, serveRes, conns, nconn, ntemp, cpc, ckind, cres, ctxdone, appclosed, lerr>>

Init == /\ done = FALSE /\ lclosed = FALSE /\ serve = "accepting" /\ serveRes = ""
        /\ conns = {} /\ nconn = 0 /\ ntemp = 0
        /\ cpc = [c \in Closers |-> "idle"]
        /\ ckind \in [Closers -> {"close", "shutdown"}]
        /\ cres = [c \in Closers |-> ""]
        /\ ctxdone = [c \in Closers |-> FALSE]
        /\ appclosed = FALSE /\ lerr = [c \in Closers |-> FALSE]

\* the application closes the listener itself: Accept fails, and since the
\* server was not closed that is a permanent error for Serve
AppCloseListener ==
  /\ ~lclosed /\ ~done /\ serve # "returned"
  /\ lclosed' = TRUE /\ appclosed' = TRUE
  /\ UNCHANGED <<done, serve, serveRes, conns, nconn, ntemp, cpc, ckind, cres, ctxdone, lerr>>
AcceptAppClosed ==
  /\ serve \in {"accepting", "backoff"} /\ lclosed /\ ~done
  /\ serve' = "returned" /\ serveRes' = "perm"
  /\ UNCHANGED <<done, lclosed, conns, nconn, ntemp, cpc, ckind, cres, ctxdone, appclosed, lerr>>

\* ---- Serve
AcceptConn == /\ serve = "accepting" /\ ~lclosed /\ nconn < MaxConns
              /\ nconn' = nconn + 1 /\ conns' = conns \cup {nconn + 1}
              /\ UNCHANGED <<done, lclosed, serve, serveRes, ntemp, cpc, ckind, cres, ctxdone, appclosed, lerr>>
AcceptTemp == /\ serve = "accepting" /\ ~lclosed /\ ntemp < MaxTemp
              /\ ntemp' = ntemp + 1 /\ serve' = "backoff"
              /\ UNCHANGED <<done, lclosed, serveRes, conns, nconn, cpc, ckind, cres, ctxdone, appclosed, lerr>>
\* a temporary error while the server is being closed returns nil (done is checked first)
BackoffOver == /\ serve = "backoff" /\ serve' = "accepting"
               /\ UNCHANGED <<done, lclosed, serveRes, conns, nconn, ntemp, cpc, ckind, cres, ctxdone, appclosed, lerr>>
AcceptPerm == /\ serve = "accepting" /\ ~lclosed /\ ~done
              /\ serve' = "returned" /\ serveRes' = "perm"
              /\ UNCHANGED <<done, lclosed, conns, nconn, ntemp, cpc, ckind, cres, ctxdone, appclosed, lerr>>
\* the listener was closed: Accept fails, done is set, Serve returns nil
AcceptClosed == /\ serve \in {"accepting", "backoff"} /\ lclosed /\ done
                /\ serve' = "returned" /\ serveRes' = "nil"
                /\ UNCHANGED <<done, lclosed, conns, nconn, ntemp, cpc, ckind, cres, ctxdone, appclosed, lerr>>

\* ---- connections
ConnFinish(k) == /\ k \in conns /\ conns' = conns \ {k}
                 /\ UNCHANGED <<done, lclosed, serve, serveRes, nconn, ntemp, cpc, ckind, cres, ctxdone, appclosed, lerr>>

\* ---- Close / Shutdown
\* check-and-set of the done flag: atomic
Begin(c) ==
  /\ cpc[c] = "idle"
  /\ IF done THEN /\ cpc' = [cpc EXCEPT ![c] = "returned"] /\ cres' = [cres EXCEPT ![c] = "closed"]
                  /\ UNCHANGED done
     ELSE /\ done' = TRUE /\ cpc' = [cpc EXCEPT ![c] = "listeners"] /\ UNCHANGED cres
  /\ UNCHANGED <<lclosed, serve, serveRes, conns, nconn, ntemp, ckind, ctxdone, appclosed, lerr>>

CloseListeners(c) ==
  /\ cpc[c] = "listeners" /\ lclosed' = TRUE
  /\ lerr' = [lerr EXCEPT ![c] = appclosed]
  /\ cpc' = [cpc EXCEPT ![c] = IF ckind[c] = "close" THEN "conns" ELSE "wait"]
  /\ UNCHANGED <<done, serve, serveRes, conns, nconn, ntemp, ckind, cres, ctxdone, appclosed>>

\* Close: every open connection is closed (its handler then finishes), return nil
CloseConns(c) ==
  /\ cpc[c] = "conns" /\ conns' = {}
  \* (the listener's error is returned, but only after every connection was closed)
  /\ cpc' = [cpc EXCEPT ![c] = "returned"] /\ cres' = [cres EXCEPT ![c] = IF lerr[c] THEN "lerr" ELSE "nil"]
  /\ UNCHANGED <<done, lclosed, serve, serveRes, nconn, ntemp, ckind, ctxdone, appclosed, lerr>>

\* Shutdown: wait until no connection is left and Serve... (wg counts handlers)
ShutdownDone(c) ==
  /\ cpc[c] = "wait" /\ conns = {}
  /\ cpc' = [cpc EXCEPT ![c] = "returned"] /\ cres' = [cres EXCEPT ![c] = IF lerr[c] THEN "lerr" ELSE "nil"]
  /\ UNCHANGED <<done, lclosed, serve, serveRes, conns, nconn, ntemp, ckind, ctxdone, appclosed, lerr>>
CtxExpire(c) ==
  /\ cpc[c] = "wait" /\ ckind[c] = "shutdown" /\ ~ctxdone[c] /\ conns # {}
  /\ ctxdone' = [ctxdone EXCEPT ![c] = TRUE]
  /\ cpc' = [cpc EXCEPT ![c] = "returned"] /\ cres' = [cres EXCEPT ![c] = "ctx"]
  /\ UNCHANGED <<done, lclosed, serve, serveRes, conns, nconn, ntemp, ckind, appclosed, lerr>>

Terminal == /\ \A c \in Closers : cpc[c] = "returned"
            /\ serve = "returned" /\ conns = {}

Next == \/ AcceptConn \/ AcceptTemp \/ BackoffOver \/ AcceptPerm \/ AcceptClosed
        \/ AppCloseListener \/ AcceptAppClosed
        \/ \E k \in 1..MaxConns : ConnFinish(k)
        \/ \E c \in Closers : Begin(c) \/ CloseListeners(c) \/ CloseConns(c) \/ ShutdownDone(c) \/ CtxExpire(c)
        \/ (Terminal /\ UNCHANGED vars)

Spec == Init /\ [][Next]_vars /\ WF_vars(Next)

-----------------------------------------------------------------------------
(* C20 *)

\* exactly one closer wins; every other one reports that the server is already closed
ExactlyOnce ==
  Cardinality({c \in Closers : cres[c] \in {"nil", "ctx", "lerr"} \/ cpc[c] \in {"listeners", "conns", "wait"}}) <= 1
SecondReportsClosed ==
  \A c \in Closers : cres[c] = "closed" => \E d \in Closers \ {c} : cpc[d] # "idle"
\* after Close returned nothing is left open
CloseEndsEverything ==
  \A c \in Closers : (ckind[c] = "close" /\ cres[c] \in {"nil", "lerr"}) => (conns = {} /\ lclosed /\ done)
\* Shutdown returns nil only when the connections have finished
ShutdownWaits ==
  \A c \in Closers : (ckind[c] = "shutdown" /\ cres[c] \in {"nil", "lerr"}) => conns = {}
\* Serve returns nil only after a Close/Shutdown, and a permanent error otherwise
ServeResult == (serveRes = "nil" => done) /\ (serveRes = "perm" => serve = "returned")
\* a listener that was already closed makes Close report its error, but never skip the rest
ListenerErrorStillCloses == \A c \in Closers : cres[c] = "lerr" => (done /\ (ckind[c] = "close" => conns = {}))
\* temporary errors never end Serve
TempNeverEnds == [][serve = "backoff" => serve' \in {"backoff", "accepting", "returned"} /\ (serve' = "returned" => (done \/ appclosed))]_vars
\* no deadlock: TLC's deadlock check with the explicit terminal stutter
EventuallyServeReturns == (\E c \in Closers : cpc[c] # "idle") ~> (serve = "returned")
=============================================================================
