----------------------------- MODULE ClientCmd -----------------------------
(***************************************************************************)
(* Property C15: what Client.Mail and Client.Rcpt write, as a function of  *)
(* the extensions in the server's most recent EHLO reply, the option       *)
(* fields requested and the class of the address argument: either a local  *)
(* error with nothing written, or exactly one command line carrying        *)
(* exactly the parameters listed here.                                     *)
(***************************************************************************)
EXTENDS Naturals, Sequences, FiniteSets, TLC, Json

MailExts == {"8BITMIME", "SIZE", "REQUIRETLS", "SMTPUTF8", "DSN", "AUTH"}
RcptExts == {"DSN", "SMTPUTF8", "RRVS"}
ArgClasses == {"clean", "hasCR", "hasLF", "hasNUL", "hasSP", "hasAngle"}

MailOpts == [size : BOOLEAN, requireTLS : BOOLEAN, utf8 : BOOLEAN,
             ret : {"unset", "ok", "bad"}, envid : {"unset", "ok", "nonprintable"},
             auth : BOOLEAN]
RcptOpts == [notify : {"unset", "ok", "bad"},
             orcpt : {"unset", "rfc822", "rfc822-nonascii", "utf8", "badtype"},
             rrvs : BOOLEAN]

SplitsLine(arg) == arg \in {"hasCR", "hasLF"}

MailResult(ext, o, arg) ==
  LET err == \/ SplitsLine(arg)
             \/ o.requireTLS /\ "REQUIRETLS" \notin ext
             \/ o.utf8 /\ "SMTPUTF8" \notin ext
             \/ "DSN" \in ext /\ (o.ret = "bad" \/ o.envid = "nonprintable")
      params == (IF "8BITMIME" \in ext THEN {"BODY"} ELSE {})
                \cup (IF "SIZE" \in ext /\ o.size THEN {"SIZE"} ELSE {})
                \cup (IF o.requireTLS THEN {"REQUIRETLS"} ELSE {})
                \cup (IF o.utf8 THEN {"SMTPUTF8"} ELSE {})
                \cup (IF "DSN" \in ext /\ o.ret = "ok" THEN {"RET"} ELSE {})
                \cup (IF "DSN" \in ext /\ o.envid = "ok" THEN {"ENVID"} ELSE {})
                \cup (IF "AUTH" \in ext /\ o.auth THEN {"AUTH"} ELSE {})
  IN [err |-> err, params |-> IF err THEN {} ELSE params]

RcptResult(ext, o, arg) ==
  LET err == \/ SplitsLine(arg)
             \/ "DSN" \in ext /\ (o.notify = "bad" \/ o.orcpt \in {"rfc822-nonascii", "badtype"})
      params == (IF "DSN" \in ext /\ o.notify = "ok" THEN {"NOTIFY"} ELSE {})
                \cup (IF "DSN" \in ext /\ o.orcpt \in {"rfc822", "utf8"} THEN {"ORCPT"} ELSE {})
                \cup (IF "RRVS" \in ext /\ o.rrvs THEN {"RRVS"} ELSE {})
  IN [err |-> err, params |-> IF err THEN {} ELSE params]

\* which extension a parameter belongs to
ExtOf(p) == CASE p = "BODY" -> "8BITMIME" [] p \in {"RET", "ENVID", "NOTIFY", "ORCPT"} -> "DSN"
              [] OTHER -> p

VARIABLES kind, ext, opts, arg
Init == /\ arg \in ArgClasses
        /\ \/ kind = "mail" /\ ext \in SUBSET MailExts /\ opts \in MailOpts
           \/ kind = "rcpt" /\ ext \in SUBSET RcptExts /\ opts \in RcptOpts
Next == UNCHANGED <<kind, ext, opts, arg>>

Result == IF kind = "mail" THEN MailResult(ext, opts, arg) ELSE RcptResult(ext, opts, arg)

\* C15
OnlyNegotiated == \A p \in Result.params : ExtOf(p) \in ext
RequestedSecurityNeverDropped ==
  kind = "mail" => /\ (opts.requireTLS /\ "REQUIRETLS" \notin ext) => Result.err
                   /\ (opts.utf8 /\ "SMTPUTF8" \notin ext) => Result.err
                   /\ (opts.requireTLS /\ ~Result.err) => "REQUIRETLS" \in Result.params
                   /\ (opts.utf8 /\ ~Result.err) => "SMTPUTF8" \in Result.params
NoSecondLine == SplitsLine(arg) => Result.err
ErrorWritesNothing == Result.err => Result.params = {}

Dump == PrintT(<<"CMD", ToJson([kind |-> kind, ext |-> ext, opts |-> opts, arg |-> arg, res |-> Result])>>)
=============================================================================
