INIT Init
NEXT Next
CONSTANTS
  MaxSteps = 3
INVARIANTS CancelIsLast ResultIsServersFinal OneLinePerStep Dump
CHECK_DEADLOCK FALSE
