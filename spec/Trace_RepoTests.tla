--------------------------- MODULE Trace_RepoTests ---------------------------
(* Trace validation of the repository's OWN test suite against SmtpServer:   *)
(* the tests are run with the verif tag and the file tracer; every           *)
(* connection whose command lines all fall into the specification's          *)
(* alphabet (decided from the INPUT lines and the server configuration       *)
(* alone) is cut into steps - command line, replies, the loop-visible        *)
(* callbacks NewSession / Reset / Logout, projected state after the step -   *)
(* and explained step by step by SmtpServer!Next.  The tests' backends are   *)
(* not the harness's: their decisions are inferred by TLC from what they     *)
(* caused, reply codes are compared by class (positive / intermediate /      *)
(* negative) because a backend chooses its own codes, and the backend kind   *)
(* (AUTH capable, per-recipient LMTP) is a free choice of the initial state. *)
(* All invariants and step properties of SmtpServer are evaluated on the     *)
(* way: a change that the tests exercise but do not assert shows up here.    *)
EXTENDS SmtpServer, Json

Trace == ndJsonDeserialize("rtrace.ndjson")

RepoAlphabet == {"greet", "mail", "rcpt", "data", "bdat", "simple", "bad", "quit", "long",
                 "panic", "auth", "cut", "mid"}

VARIABLE l
tvars == <<cfg, st, obs, last, l>>

CfgChoices(e) ==
  { [lmtp |-> e.lmtp, maxRcpt |-> e.maxRcpt, maxBytes |-> e.maxBytes, tlsAvail |-> e.tlsAvail,
     implicitTLS |-> FALSE, insecureAuth |-> e.insecureAuth, authBackend |-> ab, lmtpBackend |-> lb,
     binarymime |-> e.binarymime, dsn |-> e.dsn] : ab \in BOOLEAN, lb \in (IF e.lmtp THEN BOOLEAN ELSE {FALSE}) }

Fresh == [cmd |-> NoCmd, replies |-> <<R(220, <<>>)>>, cbs |-> <<>>]

TraceInit ==
  /\ l = 2 /\ Trace[1].ev = "reset"
  /\ cfg \in CfgChoices(Trace[1].cfg)
  /\ st = InitSt(cfg) /\ obs = InitObs /\ last = Fresh

TraceReset ==
  /\ l <= Len(Trace) /\ Trace[l].ev = "reset" /\ l' = l + 1
  /\ cfg' \in CfgChoices(Trace[l].cfg)
  /\ st' = InitSt(cfg') /\ obs' = InitObs /\ last' = Fresh

Class(code) == IF code \div 100 = 2 THEN "pos" ELSE IF code \div 100 = 3 THEN "int" ELSE "neg"
Classes(rs) == [i \in DOMAIN rs |-> Class(rs[i].code)]
Visible(cbs) == SelectSeq(cbs, LAMBDA cb : cb.n \in {"NewSession", "NewSession.fail", "Reset", "Logout"})
Names(cbs) == [i \in DOMAIN cbs |-> cbs[i].n]
ProjLoose(s) == [helo |-> s.helo, session |-> s.sess # 0, from |-> s.from, rcpts |-> s.nrcpt,
                 bdat |-> s.bdat # "none", didAuth |-> s.didAuth, errCount |-> s.errCount]

TraceStep ==
  /\ l <= Len(Trace) /\ Trace[l].ev = "step" /\ l' = l + 1
  /\ LET e == Trace[l] IN
     /\ IF e.cmd.c = "BDAT" /\ e.cmd.sized THEN BdatSized(e.cmd.n) ELSE Next
     /\ last'.cmd.c = e.cmd.c
     /\ (e.cmd.c = "BDAT" /\ e.cmd.sized) => (last'.cmd.n = e.cmd.n /\ last'.cmd.l = e.cmd.l /\ last'.cmd.a = "")
     \* (LMTP finals: a per-recipient backend sets each status itself - Lmtp.tla, not
     \* this model, says which; here their NUMBER is checked)
     /\ IF cfg.lmtp /\ e.cmd.c \in {"DATA", "BDAT"}
        THEN Len(last'.replies) = Len(e.replies) /\ (Len(e.replies) > 0 => Classes(last'.replies)[1] = e.replies[1])
        ELSE Classes(last'.replies) = e.replies
     /\ Names(Visible(last'.cbs)) = e.cbs
     /\ ~st'.closed => ProjLoose(st') = e.st

\* the peer's end-of-file is noticed after the connection was already given up
TraceEofAfterClose ==
  /\ l <= Len(Trace) /\ Trace[l].ev = "step" /\ l' = l + 1
  /\ st.closed /\ Trace[l].cmd.c = "EOF" /\ Trace[l].replies = <<>> /\ Trace[l].cbs = <<>>
  /\ UNCHANGED <<cfg, st, obs, last>>

TraceNext == TraceReset \/ TraceStep \/ TraceEofAfterClose
TraceSpec == TraceInit /\ [][TraceNext]_tvars
TraceView == <<cfg, st, obs, l>>

HWM == IF l > TLCGet(1) THEN TLCSet(1, l) ELSE TRUE
ASSUME TLCSet(1, 0)
TraceAccepted ==
  /\ PrintT(<<"HWM", ToString(TLCGet(1))>>)
  /\ TLCGet(1) = Len(Trace) + 1
=============================================================================
