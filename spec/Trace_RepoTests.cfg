SPECIFICATION TraceSpec
CONSTANTS
  Configs = {}
  ChunkSizes = {0, 6, 12}
  SmallMsg = 4
  BigMsg = 20
  MaxErr = 3
  RcptBound = 1000
  Alphabet <- RepoAlphabet
VIEW TraceView
CONSTRAINT HWM
INVARIANTS TypeOK C03_ObserverAgrees C03_RcptLimit C04_Enhanced C08_LogoutOnce C08_AllLoggedOutAtClose C19_ErrFlood
PROPERTIES C03_Order C03_OutOfOrder C03_TxnEnd C04_ReplyCount C07_PositiveOnlyAfterEOF C07_CutNeverComplete C08_NothingAfterClose C10_StartTLS C10_OnlyWhenAvailable C09_MechOnlyWhenAllowed C09_AtMostOnce C09_FailLeavesUnauth C09_ErasedByStartTLS
POSTCONDITION TraceAccepted
CHECK_DEADLOCK FALSE
