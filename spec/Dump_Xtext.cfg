INIT Init
NEXT Next
CONSTANTS
  MaxLen = 2
INVARIANTS Dump
CHECK_DEADLOCK FALSE
