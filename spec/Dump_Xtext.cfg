INIT Init
NEXT Next
CONSTANTS
  MaxLen = 3
INVARIANTS Dump
CHECK_DEADLOCK FALSE
