SPECIFICATION Spec
CONSTANTS
  Configs <- MCConfigs
  ChunkSizes = {0, 6}
  SmallMsg = 4
  BigMsg = 20
  MaxErr = 3
  RcptBound = 1
  Alphabet <- MCAlphabet
VIEW View
INVARIANTS TypeOK C03_ObserverAgrees C03_RcptLimit C04_Enhanced C08_LogoutOnce C08_AllLoggedOutAtClose C19_ErrFlood
PROPERTIES C03_Order C03_OutOfOrder C03_TxnEnd C04_ReplyCount C07_PositiveOnlyAfterEOF C08_NothingAfterClose C08_NoCallbackOnDeadSession C10_StartTLS C10_OnlyWhenAvailable C09_MechOnlyWhenAllowed C09_AtMostOnce C09_FailLeavesUnauth C09_ErasedByStartTLS C09_FailedUpgradeChangesNothing
CHECK_DEADLOCK FALSE
