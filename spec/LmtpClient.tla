---------------------------- MODULE LmtpClient ----------------------------
(***************************************************************************)
(* The LMTP side of the go-smtp client (property C18): which replies       *)
(* Close reads after the final dot and whom it reports them for, over      *)
(* several transactions on one connection.                                 *)
(*                                                                         *)
(* The client keeps a list of the recipients the server accepted.  The     *)
(* INTENDED behaviour (DESIGN.md section 7 row 14) is that the list        *)
(* belongs to the current transaction: MAIL starts it afresh.  Close reads *)
(* exactly one reply per listed recipient; with a status callback it       *)
(* reports (recipient i, reply i); without one the first negative reply    *)
(* is Close's error.                                                       *)
(***************************************************************************)
EXTENDS Naturals, Sequences, FiniteSets, TLC

CONSTANTS Rcpts,     \* recipient names, e.g. {"a", "b", "c"}
          MaxTxn,    \* transactions per connection
          MaxPerTxn  \* RCPT commands per transaction

VARIABLES list,      \* the client's recipient list
          srvList,   \* recipients the SERVER accepted in the current transaction
          pc,        \* "idle" | "mail" | "data" : where the client is in the transaction
          txn,       \* transactions completed
          nrc,       \* RCPT commands issued in this transaction
          reads,     \* number of replies the last Close read
          owed,      \* number of replies the server sent for the last DATA
          cbs        \* callbacks of the last Close: sequence of recipients

vars == <<list, srvList, pc, txn, nrc, reads, owed, cbs>>

Init == /\ list = <<>> /\ srvList = <<>> /\ pc = "idle" /\ txn = 0 /\ nrc = 0
        /\ reads = 0 /\ owed = 0 /\ cbs = <<>>

Mail == /\ pc = "idle" /\ txn < MaxTxn
        /\ pc' = "mail" /\ list' = <<>> /\ srvList' = <<>> /\ nrc' = 0
        /\ UNCHANGED <<txn, reads, owed, cbs>>

Rcpt(r, accepted) ==
  /\ pc = "mail" /\ nrc < MaxPerTxn
  /\ nrc' = nrc + 1
  /\ IF accepted THEN list' = Append(list, r) /\ srvList' = Append(srvList, r)
                 ELSE UNCHANGED <<list, srvList>>
  /\ UNCHANGED <<pc, txn, reads, owed, cbs>>

\* DATA is accepted only with at least one recipient; the server then owes
\* one reply per recipient IT accepted
DataAndClose ==
  /\ pc = "mail" /\ srvList # <<>>
  /\ owed' = Len(srvList)
  /\ reads' = Len(list)
  /\ cbs' = list
  /\ pc' = "idle" /\ txn' = txn + 1
  /\ UNCHANGED <<list, srvList, nrc>>

\* the peer answers the DATA command itself negatively (4xx/5xx instead of 354):
\* Data/LMTPData return the error, the transaction is over on both sides, and
\* the application goes on with the next MAIL without calling Reset
DataRefused ==
  /\ pc = "mail" /\ srvList # <<>>
  /\ pc' = "idle" /\ srvList' = <<>>
  /\ UNCHANGED <<list, txn, nrc, reads, owed, cbs>>

\* ... or the peer keeps the transaction (a failed command changes nothing,
\* RFC 5321 4.1.1.4) and the application simply tries DATA again
DataRefusedKept ==
  /\ pc = "mail" /\ srvList # <<>>
  /\ UNCHANGED vars

Reset == /\ pc \in {"idle", "mail"} /\ pc' = "idle" /\ list' = <<>> /\ srvList' = <<>>
         /\ UNCHANGED <<txn, nrc, reads, owed, cbs>>

Next == Mail \/ (\E r \in Rcpts, acc \in BOOLEAN : Rcpt(r, acc)) \/ DataAndClose \/ DataRefused \/ DataRefusedKept \/ Reset
        \/ (txn = MaxTxn /\ UNCHANGED vars)
Spec == Init /\ [][Next]_vars

\* C18: Close reads exactly the replies the server sends (no reply left
\* unread, no wait for a reply that never comes), and reports them for
\* exactly the recipients accepted in THIS transaction, in order.
ReadsWhatIsOwed == reads = owed
ReportsThisTransaction == pc = "idle" /\ txn > 0 => cbs = srvList \/ srvList = <<>>
ListIsServersList == pc = "mail" => list = srvList

-----------------------------------------------------------------------------
(* Declarative result of one Close, used to judge recorded cases:          *)
(* accepted: recipients accepted in the transaction; verdicts: the reply   *)
(* code per accepted recipient; withCb: a status callback was supplied.    *)

ExpectedCallbacks(accepted, verdicts, withCb) ==
  IF withCb THEN [i \in 1..Len(accepted) |-> <<accepted[i], verdicts[i]>>] ELSE <<>>

Negatives(verdicts) == {i \in DOMAIN verdicts : verdicts[i] \div 100 # 2}
ExpectedCloseErr(verdicts, withCb) ==
  IF withCb \/ Negatives(verdicts) = {} THEN 0
  ELSE verdicts[CHOOSE i \in Negatives(verdicts) : \A j \in Negatives(verdicts) : i <= j]
=============================================================================
