SPECIFICATION Spec
INVARIANTS NoViolation Consumed
CHECK_DEADLOCK FALSE
