SPECIFICATION Spec
CONSTANTS
  Lmtp = FALSE
  MaxRcpt = 2
  ExtSets <- MCExtSets
  Names = {"a", "b"}
VIEW View


CHECK_DEADLOCK FALSE
ACTION_CONSTRAINT DumpEdge
