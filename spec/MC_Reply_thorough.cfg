INIT Init
NEXT Next
CONSTANTS
  MaxLines = 3
  MaxToks = 2
INVARIANTS RoundTripHolds WireValid EveryLineCarriesCode
CHECK_DEADLOCK FALSE
