SPECIFICATION Spec
CONSTANTS
  Addrs = {"a", "b"}
  MaxRcpts = 4
INVARIANTS EmittedRight NeverMoreThanRecipients ChannelsFit AllThere
PROPERTIES Termination
