INIT Init
NEXT Next
CONSTANTS
  MaxLen = 4
INVARIANTS RoundTrip WireSafe SevenBit
CHECK_DEADLOCK FALSE
