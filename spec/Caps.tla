------------------------------- MODULE Caps -------------------------------
(***************************************************************************)
(* Property C12: what EHLO/LHLO advertises, as a function of the server    *)
(* configuration and the TLS state, and what the server then honours.      *)
(* The configuration space is finite (4096 configurations x TLS active or  *)
(* not = 8192 states: the 3072 of the property plus TLS supplied by the    *)
(* caller's own listener without Server.TLSConfig) and is enumerated       *)
(* completely, as initial states.                                          *)
(***************************************************************************)
EXTENDS Naturals, Sequences, FiniteSets, TLC, Json

CONSTANT N      \* the non-zero value used for the size and recipient limits

VARIABLES cfg, active    \* configuration; TLS currently active on the connection

Configs ==
  [utf8 : BOOLEAN, requireTLS : BOOLEAN, binarymime : BOOLEAN, dsn : BOOLEAN, rrvs : BOOLEAN,
   maxBytes : {0, N}, maxRcpt : {0, N}, tlsConfigured : BOOLEAN,
   insecureAuth : BOOLEAN, authBackend : BOOLEAN, lmtp : BOOLEAN,
   \* (with an auth-capable backend: does its session offer any mechanism at all?
   \* an empty list is an extension that is not available)
   authMechs : BOOLEAN]

\* (TLS can be active without Server.TLSConfig: the caller's own TLS listener)
Init == cfg \in Configs /\ active \in BOOLEAN
Next == UNCHANGED <<cfg, active>>

AuthAllowed == active \/ cfg.insecureAuth

\* capability keywords (with their parameters) of the EHLO/LHLO reply
Caps ==
  {"PIPELINING", "8BITMIME", "ENHANCEDSTATUSCODES", "CHUNKING"}
  \cup (IF cfg.tlsConfigured /\ ~active THEN {"STARTTLS"} ELSE {})
  \cup (IF AuthAllowed /\ cfg.authBackend /\ cfg.authMechs THEN {"AUTH PLAIN"} ELSE {})
  \cup (IF cfg.utf8 THEN {"SMTPUTF8"} ELSE {})
  \cup (IF cfg.requireTLS /\ active THEN {"REQUIRETLS"} ELSE {})
  \cup (IF cfg.binarymime THEN {"BINARYMIME"} ELSE {})
  \cup (IF cfg.dsn THEN {"DSN"} ELSE {})
  \cup (IF cfg.maxBytes > 0 THEN {"SIZE N"} ELSE {"SIZE"})
  \cup (IF cfg.maxRcpt > 0 THEN {"LIMITS RCPTMAX=N"} ELSE {})
  \cup (IF cfg.rrvs THEN {"RRVS"} ELSE {})

\* reply code of each probe (a command or parameter sent after the greeting)
Probes ==
  [ mail_smtputf8   |-> IF cfg.utf8 THEN 250 ELSE 504,
    mail_requiretls |-> IF cfg.requireTLS THEN 250 ELSE 504,
    mail_binarymime |-> IF cfg.binarymime THEN 250 ELSE 504,
    mail_8bitmime   |-> 250,
    mail_ret        |-> IF cfg.dsn THEN 250 ELSE 504,
    mail_envid      |-> IF cfg.dsn THEN 250 ELSE 504,
    mail_size_ok    |-> 250,
    mail_size_exact |-> 250,      \* the advertised value itself is a size the server takes
    mail_size_over  |-> IF cfg.maxBytes > 0 THEN 552 ELSE 250,
    rcpt_notify     |-> IF cfg.dsn THEN 250 ELSE 504,
    rcpt_orcpt      |-> IF cfg.dsn THEN 250 ELSE 504,
    rcpt_rrvs       |-> IF cfg.rrvs THEN 250 ELSE 504,
    rcpt_beyond_max |-> IF cfg.maxRcpt > 0 THEN 452 ELSE 250,
    starttls        |-> IF cfg.tlsConfigured /\ ~active THEN 220 ELSE 502,
    auth            |-> IF ~AuthAllowed THEN 523 ELSE IF cfg.authBackend /\ cfg.authMechs THEN 235 ELSE 504,
    bdat            |-> 250 ]

\* C12: everything advertised is honoured, everything the configuration
\* disables is refused with 504 (AUTH without TLS: 523; STARTTLS: 502)
Honoured ==
  /\ ("SMTPUTF8" \in Caps) = (Probes.mail_smtputf8 = 250)
  /\ ("REQUIRETLS" \in Caps) => Probes.mail_requiretls = 250
  /\ (~cfg.requireTLS) => Probes.mail_requiretls = 504
  /\ ("BINARYMIME" \in Caps) = (Probes.mail_binarymime = 250)
  /\ ("DSN" \in Caps) = (Probes.mail_ret = 250)
  /\ ("DSN" \in Caps) = (Probes.mail_envid = 250)
  /\ ("DSN" \in Caps) = (Probes.rcpt_notify = 250)
  /\ ("DSN" \in Caps) = (Probes.rcpt_orcpt = 250)
  /\ ("RRVS" \in Caps) = (Probes.rcpt_rrvs = 250)
  /\ ("STARTTLS" \in Caps) = (Probes.starttls = 220)
  /\ ("AUTH PLAIN" \in Caps) = (Probes.auth = 235)
  /\ ("SIZE N" \in Caps) = (Probes.mail_size_over = 552)
  /\ Probes.mail_size_exact = 250
  /\ ("LIMITS RCPTMAX=N" \in Caps) = (Probes.rcpt_beyond_max = 452)
  /\ "CHUNKING" \in Caps /\ Probes.bdat = 250
  /\ "8BITMIME" \in Caps /\ Probes.mail_8bitmime = 250
  /\ \A p \in DOMAIN Probes : Probes[p] \in {220, 235, 250, 452, 502, 504, 523, 552}

\* AUTH is never advertised on a connection where it is not permitted (C09)
NoAuthWhenInsecure == (~active /\ ~cfg.insecureAuth) => "AUTH PLAIN" \notin Caps
StartTLSOnlyBeforeTLS == active => "STARTTLS" \notin Caps

Dump == PrintT(<<"CAPS", ToJson([cfg |-> cfg, active |-> active, caps |-> Caps, probes |-> Probes])>>)
=============================================================================
