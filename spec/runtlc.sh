#!/bin/sh
# usage: runtlc.sh <Module> <cfg> [tlc args...]  -- runs TLC in a scratch copy of /verif/spec
set -e
D=$(cd "$(dirname "$0")" && pwd)
T=$(mktemp -d)
trap 'rm -rf "$T"' EXIT
cp "$D"/*.tla "$D"/*.cfg "$T"/
cd "$T"
M=$1; C=$2; shift 2
timeout ${TLC_TIMEOUT:-1200} tlc -metadir "$T/states" -config "$C" "$@" "$M"
