SPECIFICATION Spec
CONSTANTS
  MaxLen = 9
  Budgets = {0, 1, 3}
INVARIANTS TypeOK EndExactlyAtMarker LayersAgree BudgetRespected FailOnlyWhenTooLong FitsMeansComplete
PROPERTIES AppendOnly
CHECK_DEADLOCK FALSE
