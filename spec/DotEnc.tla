------------------------------ MODULE DotEnc ------------------------------
(***************************************************************************)
(* Property C16, message level: what the client's DATA writer (textproto's *)
(* dot-writer) puts on the wire for a body, and that the server's reader   *)
(* (DataStream.tla's declarative layer) recovers the body from it.         *)
(*                                                                         *)
(* Body alphabet: "d" a dot, "l" a bare LF, "n" a CRLF pair (CR occurs only *)
(* as part of CRLF), "o" any other octet.                                   *)
(* DotEncode: bare LF -> CRLF, a dot at the start of a line is doubled, a   *)
(* final CRLF is ensured (also for an empty body), then . CRLF.             *)
(* Normalize: the body with bare LF -> CRLF and a final CRLF ensured.       *)
(* Theorem: Unstuff(Body(DotEncode(b))) = Normalize(b), and the end marker  *)
(* found is the one the client wrote - nothing is cut at embedded           *)
(* end-of-data look-alikes.                                                 *)
(***************************************************************************)
EXTENDS DataStream

BodyToks == {"d", "l", "n", "o"}

\* token -> octets (classes of DataStream)
RECURSIVE Enc(_, _, _)
\* b: body tokens, i: index, bol: at the beginning of a line
Enc(b, i, bol) ==
  IF i > Len(b) THEN <<>>
  ELSE CASE b[i] = "d" -> (IF bol THEN <<"d", "d">> ELSE <<"d">>) \o Enc(b, i + 1, FALSE)
         [] b[i] = "l" -> <<"c", "l">> \o Enc(b, i + 1, TRUE)
         [] b[i] = "n" -> <<"c", "l">> \o Enc(b, i + 1, TRUE)
         [] OTHER      -> <<"o">> \o Enc(b, i + 1, FALSE)

EndsLine(b) == b # <<>> /\ b[Len(b)] \in {"l", "n"}

\* (an empty body also gets the CRLF: the writer's initial state is not "at the start of a line")
DotEncode(b) == Enc(b, 1, TRUE) \o (IF EndsLine(b) THEN <<>> ELSE <<"c", "l">>) \o <<"d", "c", "l">>

RECURSIVE Norm(_, _)
Norm(b, i) == IF i > Len(b) THEN <<>>
              ELSE (CASE b[i] = "d" -> <<"d">> [] b[i] \in {"l", "n"} -> <<"c", "l">> [] OTHER -> <<"o">>) \o Norm(b, i + 1)
Normalize(b) == Norm(b, 1) \o (IF EndsLine(b) THEN <<>> ELSE <<"c", "l">>)

VARIABLE body
RECURSIVE BodiesUpTo(_)
BodiesUpTo(n) == IF n = 0 THEN {<<>>}
                 ELSE LET P == BodiesUpTo(n - 1) IN P \cup {Append(p, t) : p \in {q \in P : Len(q) = n - 1}, t \in BodyToks}

EInit == /\ body \in BodiesUpTo(MaxLen)
         /\ s = <<>> /\ st = "BeginLine" /\ out = <<>> /\ fail = FALSE /\ bud = 0
ENext == UNCHANGED <<vars, body>>

\* C16
ArrivesIntact ==
  LET w == DotEncode(body) IN
  /\ HasEnd(w)
  /\ EndIdx(w) + 2 = Len(w)                 \* the first end marker is the one at the very end
  /\ Unstuff(Body(w)) = Normalize(body)
=============================================================================
