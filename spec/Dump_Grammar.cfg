INIT Init
NEXT Next
CONSTANTS
  MaxLen = 5
INVARIANTS ValidHasOneAt NullPathOnlyForMail DisabledIsInvalid
INVARIANTS Dump
CHECK_DEADLOCK FALSE
