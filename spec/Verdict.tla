------------------------------ MODULE Verdict ------------------------------
(***************************************************************************)
(* Attribution of delivery verdicts for chunked transfers (the last        *)
(* sentence of property C04, and the deadlock part of C20): the command    *)
(* loop and one delivery goroutine per transfer, with the goroutine of an  *)
(* aborted transfer free to finish at any later time.                      *)
(*                                                                         *)
(* Each transfer t has its own result channel (capacity 1).  INTENDED: the *)
(* goroutine of t sends t's result into t's channel (captured when it was  *)
(* started).  With Deviation = TRUE the goroutine uses whatever channel the *)
(* connection points to when it finishes - the behaviour of the code       *)
(* before commit 1d23f4b - and TLC finds both the stale verdict and the    *)
(* deadlock (non-vacuity of the properties).                               *)
(*                                                                         *)
(* The goroutine is launched by the first chunk ("spawned") and calls the   *)
(* backend when it is first scheduled (Begin).  INTENDED: it does so while  *)
(* its transfer is still the current one - a delivery whose transfer was    *)
(* ended (Reset) or whose session was logged out before it ever ran calls   *)
(* nothing (Skip).  With LateBegin = TRUE it calls the backend whenever it  *)
(* is scheduled - what conn.go does - and TLC finds Data beginning after    *)
(* the Reset that ended its transaction (C03) and after Logout (C08): the   *)
(* known finding "late-delivery-start" (DESIGN.md section 5).               *)
(***************************************************************************)
EXTENDS Naturals, Sequences, FiniteSets, TLC

CONSTANTS Transfers,   \* e.g. 1..2, started in this order
          Deviation,   \* BOOLEAN
          LateBegin    \* BOOLEAN

VARIABLES started,     \* transfers started so far (a number)
          cur,         \* the connection's current transfer (0 = none)
          chan,        \* [Transfers -> Seq of results]: result channels, capacity 1
          gpc,         \* [Transfers -> "none" | "spawned" | "running" | "blocked" | "done"]
          waiting,     \* the loop is waiting for the verdict of cur (LAST received)
          reply,       \* [Transfers -> 0 | verdict]: the final reply given for the transfer
          closed,      \* the connection was closed (Logout)
          cbs          \* history of backend callbacks: <<"begin", t>>, <<"reset", t>>, <<"logout", 0>>

vars == <<started, cur, chan, gpc, waiting, reply, closed, cbs>>
N == Cardinality(Transfers)

Init == /\ started = 0 /\ cur = 0 /\ chan = [t \in Transfers |-> <<>>]
        /\ gpc = [t \in Transfers |-> "none"] /\ waiting = FALSE
        /\ reply = [t \in Transfers |-> 0]
        /\ closed = FALSE /\ cbs = <<>>

\* first chunk of a new transfer: channel, goroutine (not yet scheduled)
Start == /\ ~closed /\ cur = 0 /\ ~waiting /\ started < N
         /\ started' = started + 1 /\ cur' = started + 1
         /\ gpc' = [gpc EXCEPT ![started + 1] = "spawned"]
         /\ UNCHANGED <<chan, waiting, reply, closed, cbs>>

\* the goroutine of t is scheduled and calls Data/LMTPData
Begin(t) ==
  /\ gpc[t] = "spawned"
  /\ LateBegin \/ (cur = t /\ ~closed)
  /\ gpc' = [gpc EXCEPT ![t] = "running"]
  /\ cbs' = Append(cbs, <<"begin", t>>)
  /\ UNCHANGED <<started, cur, chan, waiting, reply, closed>>

\* INTENDED only: the transfer ended before its delivery ever ran - nothing is called
Skip(t) ==
  /\ gpc[t] = "spawned" /\ ~LateBegin /\ (cur # t \/ closed)
  /\ gpc' = [gpc EXCEPT ![t] = "done"]
  /\ UNCHANGED <<started, cur, chan, waiting, reply, closed, cbs>>

\* RSET / EHLO / failed chunk: the transfer is abandoned (its goroutine goes on)
Abort == /\ ~closed /\ cur # 0 /\ ~waiting /\ cur' = 0
         /\ cbs' = Append(cbs, <<"reset", cur>>)
         /\ UNCHANGED <<started, chan, gpc, waiting, reply, closed>>

\* QUIT / EOF / giving up: the session is logged out
Close == /\ ~closed /\ ~waiting /\ closed' = TRUE /\ cur' = 0
         /\ cbs' = Append(cbs, <<"logout", 0>>)
         /\ UNCHANGED <<started, chan, gpc, waiting, reply>>

\* the backend of transfer t returns: its result (the marker t) is sent
Finish(t) ==
  /\ gpc[t] = "running"
  /\ LET target == IF Deviation THEN cur ELSE t IN
     IF target = 0 \/ Len(chan[target]) >= 1
     THEN \* nil channel or full channel: the goroutine blocks forever
          /\ gpc' = [gpc EXCEPT ![t] = "blocked"] /\ UNCHANGED chan
     ELSE /\ chan' = [chan EXCEPT ![target] = Append(@, t)]
          /\ gpc' = [gpc EXCEPT ![t] = "done"]
  /\ UNCHANGED <<started, cur, waiting, reply, closed, cbs>>

\* LAST chunk received: the loop waits for the verdict of the current transfer
Last == /\ ~closed /\ cur # 0 /\ ~waiting /\ waiting' = TRUE
        /\ UNCHANGED <<started, cur, chan, gpc, reply, closed, cbs>>

Reply == /\ waiting /\ chan[cur] # <<>>
         /\ reply' = [reply EXCEPT ![cur] = Head(chan[cur])]
         /\ chan' = [chan EXCEPT ![cur] = Tail(@)]
         /\ waiting' = FALSE /\ cur' = 0
         /\ cbs' = Append(cbs, <<"reset", cur>>)
         /\ UNCHANGED <<started, gpc, closed>>

Done == (started = N \/ closed) /\ cur = 0 /\ \A t \in Transfers : gpc[t] \in {"none", "done", "blocked"}
Next == \/ Start \/ Abort \/ Close \/ Last \/ Reply
        \/ \E t \in Transfers : Begin(t) \/ Skip(t) \/ Finish(t)
        \/ (Done /\ UNCHANGED vars)
Spec == Init /\ [][Next]_vars /\ WF_vars(Reply)
        /\ \A t \in Transfers : WF_vars(Finish(t)) /\ WF_vars(Begin(t)) /\ WF_vars(Skip(t))

\* C04: a final reply reports that very transfer's verdict
OwnVerdict == \A t \in Transfers : reply[t] # 0 => reply[t] = t
\* C20: no delivery goroutine is ever left blocked, and a waiting loop is eventually answered
NoGoroutineBlocked == \A t \in Transfers : gpc[t] # "blocked"
WaitEnds == waiting ~> ~waiting
\* C03: Data is seen only inside its own transaction - never after the Reset that ended it
C03_NoBeginAfterReset ==
  \A i, j \in DOMAIN cbs : (i < j /\ cbs[i][1] = "reset") => ~(cbs[j][1] = "begin" /\ cbs[j][2] = cbs[i][2])
\* C08: after Logout no callback begins
C08_NoBeginAfterLogout ==
  \A i, j \in DOMAIN cbs : (i < j /\ cbs[i][1] = "logout") => cbs[j][1] # "begin"
=============================================================================
