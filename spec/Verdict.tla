------------------------------ MODULE Verdict ------------------------------
(***************************************************************************)
(* Attribution of delivery verdicts for chunked transfers (the last        *)
(* sentence of property C04, and the deadlock part of C20): the command    *)
(* loop and one delivery goroutine per transfer, with the goroutine of an  *)
(* aborted transfer free to finish at any later time.                      *)
(*                                                                         *)
(* Each transfer t has its own result channel (capacity 1).  INTENDED: the *)
(* goroutine of t sends t's result into t's channel (captured when it was  *)
(* started).  With Deviation = TRUE the goroutine uses whatever channel the *)
(* connection points to when it finishes - the behaviour of the code       *)
(* before commit 1d23f4b - and TLC finds both the stale verdict and the    *)
(* deadlock (non-vacuity of the properties).                               *)
(***************************************************************************)
EXTENDS Naturals, Sequences, FiniteSets, TLC

CONSTANTS Transfers,   \* e.g. 1..2, started in this order
          Deviation    \* BOOLEAN

VARIABLES started,     \* transfers started so far (a number)
          cur,         \* the connection's current transfer (0 = none)
          chan,        \* [Transfers -> Seq of results]: result channels, capacity 1
          gpc,         \* [Transfers -> "none" | "running" | "blocked" | "done"]
          waiting,     \* the loop is waiting for the verdict of cur (LAST received)
          reply        \* [Transfers -> 0 | verdict]: the final reply given for the transfer

vars == <<started, cur, chan, gpc, waiting, reply>>
N == Cardinality(Transfers)

Init == /\ started = 0 /\ cur = 0 /\ chan = [t \in Transfers |-> <<>>]
        /\ gpc = [t \in Transfers |-> "none"] /\ waiting = FALSE
        /\ reply = [t \in Transfers |-> 0]

\* first chunk of a new transfer: channel, goroutine
Start == /\ cur = 0 /\ ~waiting /\ started < N
         /\ started' = started + 1 /\ cur' = started + 1
         /\ gpc' = [gpc EXCEPT ![started + 1] = "running"]
         /\ UNCHANGED <<chan, waiting, reply>>

\* RSET / EHLO / failed chunk: the transfer is abandoned (its goroutine goes on)
Abort == /\ cur # 0 /\ ~waiting /\ cur' = 0
         /\ UNCHANGED <<started, chan, gpc, waiting, reply>>

\* the backend of transfer t returns: its result (the marker t) is sent
Finish(t) ==
  /\ gpc[t] = "running"
  /\ LET target == IF Deviation THEN cur ELSE t IN
     IF target = 0 \/ Len(chan[target]) >= 1
     THEN \* nil channel or full channel: the goroutine blocks forever
          /\ gpc' = [gpc EXCEPT ![t] = "blocked"] /\ UNCHANGED chan
     ELSE /\ chan' = [chan EXCEPT ![target] = Append(@, t)]
          /\ gpc' = [gpc EXCEPT ![t] = "done"]
  /\ UNCHANGED <<started, cur, waiting, reply>>

\* LAST chunk received: the loop waits for the verdict of the current transfer
Last == /\ cur # 0 /\ ~waiting /\ waiting' = TRUE
        /\ UNCHANGED <<started, cur, chan, gpc, reply>>

Reply == /\ waiting /\ chan[cur] # <<>>
         /\ reply' = [reply EXCEPT ![cur] = Head(chan[cur])]
         /\ chan' = [chan EXCEPT ![cur] = Tail(@)]
         /\ waiting' = FALSE /\ cur' = 0
         /\ UNCHANGED <<started, gpc>>

Done == started = N /\ cur = 0 /\ \A t \in Transfers : gpc[t] \in {"done", "blocked"}
Next == Start \/ Abort \/ Last \/ Reply \/ (\E t \in Transfers : Finish(t)) \/ (Done /\ UNCHANGED vars)
Spec == Init /\ [][Next]_vars /\ WF_vars(Reply) /\ \A t \in Transfers : WF_vars(Finish(t))

\* C04: a final reply reports that very transfer's verdict
OwnVerdict == \A t \in Transfers : reply[t] # 0 => reply[t] = t
\* C20: no delivery goroutine is ever left blocked, and a waiting loop is eventually answered
NoGoroutineBlocked == \A t \in Transfers : gpc[t] # "blocked"
WaitEnds == waiting ~> ~waiting
=============================================================================
