---------------------------- MODULE Trace_Lmtp ----------------------------
(* Code -> spec for the LMTP final response: each recorded case is a        *)
(* recipient list, the statuses the scripted backend set per address (in    *)
(* call order), its final value, and the statuses the real server wrote to  *)
(* the client, reply by reply.  A case is accepted iff the replies are      *)
(* exactly Lmtp!Expected.                                                   *)
EXTENDS Lmtp, Json

Cases == ndJsonDeserialize("cases.ndjson")

Accepts(c) == c.emitted = Expected(c.rcpts, c.sets, c.fin)

BadCases == {i \in DOMAIN Cases : ~Accepts(Cases[i])}

ASSUME PrintT(<<"BADCASES", ToJson(BadCases)>>)
ASSUME PrintT(<<"NCASES", ToString(Len(Cases))>>)

VARIABLE dummy
TInit == Init /\ dummy = 0
TNext == UNCHANGED <<vars, dummy>>
=============================================================================
