INIT TInit
NEXT TNext
CONSTANTS
  L = 0
  B = 1
  MaxLen = 0
CHECK_DEADLOCK FALSE
