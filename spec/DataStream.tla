---------------------------- MODULE DataStream ----------------------------
(***************************************************************************)
(* The DATA octet transducer (RFC 5321 section 4.5.2 transparency) in two   *)
(* layers.                                                                   *)
(*                                                                           *)
(* Declarative layer, from the statement of C01/C02: the message is the      *)
(* stream up to its first end marker (a line start followed by . CR LF,      *)
(* lines being delimited by CR LF only), and the backend reads it with one   *)
(* leading dot removed from every line that starts with one.                 *)
(*                                                                           *)
(* Operational layer: the six-state automaton shaped like dataReader.Read    *)
(* (octet at a time, a budget of MaxMessageBytes octets).  TLC checks the    *)
(* two layers equal for every stream over the classes {dot, CR, LF, other}   *)
(* up to a length bound; the harness then drives the real reader with        *)
(* the automaton (dumped by TLC) as the oracle.                              *)
(*                                                                           *)
(* The automaton is the INTENDED one: ". CR x" yields "CR x" and "CR CR LF"  *)
(* leaves the reader at a line start (the code's copy of net/textproto lost  *)
(* both; DESIGN.md section 7 rows 1, 2), and a message of exactly the budget *)
(* is complete (row 3).                                                      *)
(***************************************************************************)
EXTENDS Naturals, Sequences, FiniteSets, TLC, Json

CONSTANTS MaxLen,     \* length bound on streams
          Budgets     \* set of budgets explored; 0 = unlimited

Classes == {"d", "c", "l", "o"}

VARIABLES s,      \* the octets consumed so far (as classes)
          st,     \* automaton state
          out,    \* octets handed to the backend
          fail,   \* the reader reported "too large"
          bud     \* budget of this run

vars == <<s, st, out, fail, bud>>

-----------------------------------------------------------------------------
(* Declarative layer *)

LineStart(x, i) == i = 1 \/ (i > 2 /\ x[i-2] = "c" /\ x[i-1] = "l")
IsEnd(x, i) == LineStart(x, i) /\ i + 2 <= Len(x) /\ x[i] = "d" /\ x[i+1] = "c" /\ x[i+2] = "l"
HasEnd(x) == \E i \in 1..Len(x) : IsEnd(x, i)
EndIdx(x) == IF HasEnd(x)
             THEN CHOOSE i \in 1..Len(x) : IsEnd(x, i) /\ \A j \in 1..(i-1) : ~IsEnd(x, j)
             ELSE 0
Body(x) == SubSeq(x, 1, EndIdx(x) - 1)

RECURSIVE UnstuffFrom(_, _)
UnstuffFrom(x, i) ==
  IF i > Len(x) THEN <<>>
  ELSE IF LineStart(x, i) /\ x[i] = "d" THEN UnstuffFrom(x, i + 1)
  ELSE <<x[i]>> \o UnstuffFrom(x, i + 1)
Unstuff(x) == UnstuffFrom(x, 1)

\* what the backend must have been handed once the whole of x has been seen
Expected(x) == IF HasEnd(x) THEN Unstuff(Body(x)) ELSE Unstuff(x)

-----------------------------------------------------------------------------
(* Operational layer: Step(state, octet) = <<state', emitted>> *)

States == {"BeginLine", "Dot", "DotCR", "CR", "Data", "EOF"}

Step(q, b) ==
  CASE q = "BeginLine" -> IF b = "d" THEN <<"Dot", <<>>>>
                          ELSE IF b = "c" THEN <<"CR", <<b>>>>
                          ELSE <<"Data", <<b>>>>
    [] q = "Dot"       -> IF b = "c" THEN <<"DotCR", <<>>>>
                          ELSE <<"Data", <<b>>>>
    [] q = "DotCR"     -> IF b = "l" THEN <<"EOF", <<>>>>
                          \* not the end marker: the saved CR is emitted, then b
                          \* is handled as ordinary data
                          ELSE IF b = "c" THEN <<"CR", <<"c", "c">>>>
                          ELSE <<"Data", <<"c", b>>>>
    [] q = "CR"        -> IF b = "l" THEN <<"BeginLine", <<b>>>>
                          ELSE IF b = "c" THEN <<"CR", <<b>>>>
                          ELSE <<"Data", <<b>>>>
    [] q = "Data"      -> IF b = "c" THEN <<"CR", <<b>>>>
                          ELSE <<"Data", <<b>>>>

StepTable == [q \in States \ {"EOF"} |-> [b \in Classes |-> [next |-> Step(q, b)[1], emit |-> Step(q, b)[2]]]]

\* octets the automaton holds back in state q (emitted later unless the end marker completes)
Pending(q) == IF q = "DotCR" THEN <<"c">> ELSE <<>>

Init == /\ s = <<>> /\ st = "BeginLine" /\ out = <<>> /\ fail = FALSE
        /\ bud \in Budgets

Take(x, n) == SubSeq(x, 1, IF n < Len(x) THEN n ELSE Len(x))

\* the reader consumes one more octet.  After the failure the server lifts the
\* budget and drains: the automaton keeps running, its output is discarded.
Feed(b) ==
  /\ st # "EOF" /\ Len(s) < MaxLen
  /\ LET r == Step(st, b)
         o2 == out \o r[2]
     IN /\ s' = Append(s, b)
        /\ bud' = bud
        /\ st' = r[1]
        /\ IF fail
           THEN fail' = TRUE /\ out' = out
           ELSE IF bud > 0 /\ Len(o2) > bud
           THEN \* the budget is exhausted by an octet that has to be emitted
                fail' = TRUE /\ out' = Take(o2, bud)
           ELSE fail' = FALSE /\ out' = o2

Next == \E b \in Classes : Feed(b)
Spec == Init /\ [][Next]_vars

-----------------------------------------------------------------------------
(* Properties *)

TypeOK == st \in States /\ fail \in BOOLEAN /\ Len(s) <= MaxLen

\* C01/C02: the two layers agree; end of data is reported exactly at the first
\* CRLF.CRLF (or a leading .CRLF) and nowhere else.
\* This holds whether or not the budget ran out on the way: an over-long
\* message is drained up to the very same end marker.
EndExactlyAtMarker ==
  /\ (st = "EOF") = HasEnd(s)
  /\ (st = "EOF") => EndIdx(s) + 2 = Len(s)

LayersAgree ==
  ~fail => out \o Pending(st) = Expected(s)

\* C06: never more than the budget; failure only for messages longer than it;
\* a message that fits is handled exactly as without a limit.
BudgetRespected == bud > 0 => Len(out) <= bud
FailOnlyWhenTooLong ==
  fail => /\ bud > 0
          /\ Len(Expected(s)) > bud \/ Len(Expected(s) \o Pending(st)) > bud
          /\ out = Take(Expected(s) \o Pending(st), bud) \/ out = Take(Expected(s), bud)
          /\ st # "EOF" \/ Len(Expected(s)) > bud
FitsMeansComplete ==
  (HasEnd(s) /\ (bud = 0 \/ Len(Unstuff(Body(s))) <= bud)) => (st = "EOF" /\ ~fail /\ out = Unstuff(Body(s)))

\* output is append-only
AppendOnly == [][Len(out') >= Len(out) /\ SubSeq(out', 1, Len(out)) = out]_vars

\* dumps for the harness
DumpRun ==
  /\ (s = <<>> /\ bud = 0) => PrintT(<<"TABLE", ToJson(StepTable)>>)
  /\ PrintT(<<"RUN", ToJson([s |-> s, st |-> st, out |-> out, fail |-> fail, bud |-> bud])>>)
=============================================================================
