---------------------------- MODULE SmtpServer ----------------------------
(***************************************************************************)
(* The go-smtp server command loop for ONE connection, as a state machine  *)
(* over abstract commands.  One action per abstract command (a command is  *)
(* a class of input lines plus the decisions the scripted backend takes    *)
(* while it is being handled).  Every action says which replies are        *)
(* written and which backend callbacks are made, in `last`; the properties *)
(* C03 C04 C08 C09 C10 (server side) are stated over `last` and over an    *)
(* observer `obs` that is updated from callbacks and replies only.         *)
(*                                                                         *)
(* The module models the INTENDED behaviour where go-smtp has a defect     *)
(* that a listed property forbids (DESIGN.md section 7); where the code    *)
(* does something odd that no property forbids, the code is modelled and   *)
(* the place is marked "not judged".                                       *)
(*                                                                         *)
(* "Eager" environment: a chunked delivery runs to completion inside the   *)
(* step that enables it (the harness waits for backend quiescence).  The   *)
(* free interleavings are Bdat.tla's business.                             *)
(***************************************************************************)
EXTENDS Naturals, Sequences, FiniteSets, TLC

CONSTANTS Configs,     \* set of configuration records (one initial state each)
          ChunkSizes,  \* sizes of BDAT chunks, e.g. {0, 6}
          SmallMsg,    \* size of the small DATA message
          BigMsg,      \* size of the big DATA message (> every maxBytes > 0)
          MaxErr,      \* error threshold (3 in the code)
          Alphabet,    \* set of command families enabled in this instance
          RcptBound    \* recipients per transaction explored (bounds the model only)

VARIABLES cfg,   \* the configuration of this server
          st,    \* connection state record
          obs,   \* observer: what the backend/peer can know from callbacks + replies
          last   \* label of the last step: command, replies, callbacks (hidden by VIEW)

vars == <<cfg, st, obs, last>>
View == <<cfg, st, obs>>

R(code, enh) == [code |-> code, enh |-> enh]
CB(n, s) == [n |-> n, s |-> s]

NoCmd == [c |-> "init", a |-> "", n |-> 0, l |-> FALSE, p |-> ""]
Cmd(c, a) == [c |-> c, a |-> a, n |-> 0, l |-> FALSE, p |-> ""]
CmdB(c, a, n, l, p) == [c |-> c, a |-> a, n |-> n, l |-> l, p |-> p]

InitSt(c) == [ tls        |-> c.implicitTLS,
               helo       |-> FALSE,
               sess       |-> 0,       \* current session number, 0 = none
               nsess      |-> 0,       \* sessions created so far
               from       |-> FALSE,
               nrcpt      |-> 0,
               bdat       |-> "none",  \* "none" | "open" | "dead" (backend already returned)
               bplan      |-> "",      \* verdict plan of the open transfer
               bk         |-> 0,       \* octets a failing backend will still read
               bytes      |-> 0,
               binarymime |-> FALSE,
               didAuth    |-> FALSE,
               errCount   |-> 0,
               closed     |-> FALSE,
               authLeft   |-> 0,       \* > 0: inside an AUTH exchange, challenges still to come + 1
               authFinal  |-> "" ]     \* "ok" | "fail": how the exchange ends

InitObs == [ greeted |-> FALSE, sess |-> 0, from |-> FALSE, nrcpt |-> 0,
             logouts |-> <<0, 0, 0>>, live |-> {} ]

Init == /\ cfg \in Configs
        /\ st = InitSt(cfg)
        /\ obs = InitObs
        /\ last = [cmd |-> NoCmd, replies |-> <<R(220, <<>>)>>, cbs |-> <<>>]

-----------------------------------------------------------------------------
(* Observer update: a pure function of callbacks and the final reply. *)

Positive(replies) == Len(replies) > 0 /\ replies[Len(replies)].code \div 100 = 2

RECURSIVE ObsFold(_, _, _, _)
ObsFold(o, cbs, i, pos) ==
  IF i > Len(cbs) THEN o
  ELSE LET cb == cbs[i]
           o2 == CASE cb.n = "NewSession" ->
                        [o EXCEPT !.greeted = TRUE, !.sess = cb.s, !.live = @ \cup {cb.s}]
                   [] cb.n = "Logout" ->
                        [o EXCEPT !.greeted = FALSE, !.from = FALSE, !.nrcpt = 0, !.sess = 0,
                                  !.logouts = [@ EXCEPT ![cb.s] = @ + 1],
                                  !.live = @ \ {cb.s}]
                   [] cb.n = "Reset" -> [o EXCEPT !.from = FALSE, !.nrcpt = 0]
                   [] cb.n = "Mail" /\ pos -> [o EXCEPT !.from = TRUE]
                   [] cb.n = "Rcpt" /\ pos -> [o EXCEPT !.nrcpt = @ + 1]
                   [] OTHER -> o
       IN ObsFold(o2, cbs, i + 1, pos)

Emit(cmd, replies, cbs) ==
  /\ last' = [cmd |-> cmd, replies |-> replies, cbs |-> cbs]
  /\ cfg' = cfg
  /\ obs' = ObsFold(obs, cbs, 1, Positive(replies))

-----------------------------------------------------------------------------
(* Pieces shared by several commands. *)

DataName == IF cfg.lmtp /\ cfg.lmtpBackend THEN "LMTPData" ELSE "Data"

\* The open chunked transfer is aborted: the backend's reader fails.
AbortCbs(s) == IF s.bdat = "open" THEN <<CB(DataName \o ".end:abort", s.sess)>> ELSE <<>>

\* c.reset(): abort transfer, Reset callback, envelope cleared.
ResetCbs(s) == AbortCbs(s) \o (IF s.sess # 0 THEN <<CB("Reset", s.sess)>> ELSE <<>>)
Cleared(s) == [s EXCEPT !.from = FALSE, !.nrcpt = 0, !.bdat = "none", !.bplan = "",
                        !.bk = 0, !.bytes = 0]

\* Conn.Close(): abort transfer, Logout, socket closed. The closed state is
\* terminal, so it is canonicalised.
CloseCbs(s) == AbortCbs(s) \o (IF s.sess # 0 THEN <<CB("Logout", s.sess)>> ELSE <<>>)
ClosedSt(s) == [InitSt(cfg) EXCEPT !.closed = TRUE, !.nsess = s.nsess, !.tls = s.tls]

\* protocolError: reply, count, give up after MaxErr.
ProtoErr(cmd, r, s) ==
  IF s.errCount + 1 > MaxErr
  THEN /\ st' = ClosedSt(s)
       /\ Emit(cmd, <<r, R(500, <<5, 5, 1>>)>>, CloseCbs(s))
  ELSE /\ st' = [s EXCEPT !.errCount = @ + 1]
       /\ Emit(cmd, <<r>>, <<>>)

\* Plain reply, no state change.
Just(cmd, r) == st' = st /\ Emit(cmd, <<r>>, <<>>)

AuthAllowed == st.tls \/ cfg.insecureAuth

InCmdMode == ~st.closed /\ st.authLeft = 0

\* n copies of r
Rep(r, n) == [i \in 1..n |-> r]

\* final replies of a message transfer: one (SMTP) or one per recipient (LMTP)
Finals(r) == IF cfg.lmtp THEN Rep(r, st.nrcpt) ELSE <<r>>

-----------------------------------------------------------------------------
(* Greeting *)

Greet(verb, arg, nsfail) ==
  LET cmd == Cmd(verb, IF arg = "noarg" THEN "noarg" ELSE IF nsfail THEN "nsfail" ELSE "ok")
      lm == verb = "LHLO"
  IN
  /\ InCmdMode
  /\ "greet" \in Alphabet
  /\ nsfail => (arg = "ok" /\ st.sess = 0 /\ cfg.lmtp = lm)
  /\ IF cfg.lmtp # lm THEN Just(cmd, R(500, <<5, 5, 1>>))
     ELSE IF arg = "noarg" THEN Just(cmd, R(501, <<5, 5, 2>>))
     ELSE IF st.sess # 0 THEN
          \* repeated greeting: exactly as RSET
          /\ st' = [Cleared(st) EXCEPT !.helo = TRUE]
          /\ Emit(cmd, <<R(250, IF verb = "HELO" THEN <<2, 0, 0>> ELSE <<>>)>>, ResetCbs(st))
     ELSE IF nsfail THEN
          /\ st' = [st EXCEPT !.helo = FALSE]
          /\ Emit(cmd, <<R(451, <<4, 0, 0>>)>>, <<CB("NewSession.fail", 0)>>)
     ELSE
          /\ st.nsess < 3
          /\ st' = [st EXCEPT !.helo = TRUE, !.sess = st.nsess + 1, !.nsess = @ + 1]
          /\ Emit(cmd, <<R(250, IF verb = "HELO" THEN <<2, 0, 0>> ELSE <<>>)>>,
                  <<CB("NewSession", st.nsess + 1)>>)

-----------------------------------------------------------------------------
(* MAIL *)

\* ("rej": the backend returns an ordinary error; "rej5": an SMTPError 550 whose
\* enhanced code is not set - sent as X.0.0 of the reply's class)
MailVariants == {"ok", "rej", "rej5", "nofrom", "badpath", "unkparam", "badsize", "sizeok",
                 "sizeover", "binarymime", "ret"}

Mail(v) ==
  LET cmd == Cmd("MAIL", v) IN
  /\ InCmdMode
  /\ "mail" \in Alphabet
  /\ IF ~st.helo THEN Just(cmd, R(502, <<5, 5, 1>>))
     ELSE IF st.bdat # "none" THEN Just(cmd, R(502, <<5, 5, 1>>))
     ELSE IF v \in {"nofrom", "badpath"} THEN Just(cmd, R(501, <<5, 5, 2>>))
     ELSE
       \* from here on the code has already cleared c.binarymime
       LET s1 == [st EXCEPT !.binarymime = FALSE] IN
       CASE v = "unkparam" -> st' = s1 /\ Emit(cmd, <<R(500, <<5, 5, 4>>)>>, <<>>)
         [] v = "badsize"  -> st' = s1 /\ Emit(cmd, <<R(501, <<5, 5, 4>>)>>, <<>>)
         [] v = "sizeover" /\ cfg.maxBytes > 0 ->
                              st' = s1 /\ Emit(cmd, <<R(552, <<5, 3, 4>>)>>, <<>>)
         [] v = "binarymime" /\ ~cfg.binarymime ->
                              st' = s1 /\ Emit(cmd, <<R(504, <<5, 5, 4>>)>>, <<>>)
         [] v = "ret" /\ ~cfg.dsn ->
                              st' = s1 /\ Emit(cmd, <<R(504, <<5, 5, 4>>)>>, <<>>)
         [] v = "rej" ->      st' = s1 /\ Emit(cmd, <<R(451, <<4, 0, 0>>)>>, <<CB("Mail", st.sess)>>)
         [] v = "rej5" ->     st' = s1 /\ Emit(cmd, <<R(550, <<5, 0, 0>>)>>, <<CB("Mail", st.sess)>>)
         [] OTHER ->
              \* accepted.  A MAIL inside an open transaction is not refused by
              \* the code: Mail is called again, recipients are kept (not judged).
              /\ st' = [s1 EXCEPT !.from = TRUE, !.binarymime = (v = "binarymime")]
              /\ Emit(cmd, <<R(250, <<2, 0, 0>>)>>, <<CB("Mail", st.sess)>>)

-----------------------------------------------------------------------------
(* RCPT *)

RcptVariants == {"ok", "rej", "rej5", "noto", "badpath", "unkparam", "notify"}

Rcpt(v) ==
  LET cmd == Cmd("RCPT", v) IN
  /\ InCmdMode
  /\ "rcpt" \in Alphabet
  /\ IF ~st.from THEN Just(cmd, R(502, <<5, 5, 1>>))
     ELSE IF st.bdat # "none" THEN Just(cmd, R(502, <<5, 5, 1>>))
     ELSE IF v \in {"noto", "badpath"} THEN Just(cmd, R(501, <<5, 5, 2>>))
     ELSE IF cfg.maxRcpt > 0 /\ st.nrcpt >= cfg.maxRcpt THEN Just(cmd, R(452, <<4, 5, 3>>))
     ELSE IF v = "unkparam" THEN Just(cmd, R(500, <<5, 5, 4>>))
     ELSE IF v = "notify" /\ ~cfg.dsn THEN Just(cmd, R(504, <<5, 5, 4>>))
     ELSE IF v = "rej" THEN st' = st /\ Emit(cmd, <<R(451, <<4, 0, 0>>)>>, <<CB("Rcpt", st.sess)>>)
     ELSE IF v = "rej5" THEN st' = st /\ Emit(cmd, <<R(550, <<5, 0, 0>>)>>, <<CB("Rcpt", st.sess)>>)
     ELSE /\ st.nrcpt < RcptBound
          /\ st' = [st EXCEPT !.nrcpt = @ + 1]
          /\ Emit(cmd, <<R(250, <<2, 0, 0>>)>>, <<CB("Rcpt", st.sess)>>)

-----------------------------------------------------------------------------
(* DATA: the command and the whole message transfer are one macro step. *)

DataArg ==
  /\ InCmdMode /\ "data" \in Alphabet
  /\ Just(Cmd("DATA", "arg"), R(501, <<5, 5, 4>>))

\* size: "small" | "big";  read: "all" | "some" | "none";  verdict: "acc" | "rej"
\* ("some": the backend stops reading after a few octets - fewer than any
\* limit - and returns its verdict)
Data(size, read, verdict) ==
  LET cmd == CmdB("DATA", size, 0, FALSE, read \o "-" \o verdict)
      tooBig == cfg.maxBytes > 0 /\ size = "big"
      final == IF tooBig /\ read = "all" THEN R(552, <<5, 3, 4>>)
               ELSE IF verdict = "acc" THEN R(250, <<2, 0, 0>>) ELSE R(554, <<5, 0, 0>>)
      endk == IF read \in {"none", "some"} THEN "none" ELSE IF tooBig THEN "err" ELSE "eof"
  IN
  /\ InCmdMode /\ "data" \in Alphabet
  /\ size = "big" => cfg.maxBytes > 0
  /\ IF st.bdat # "none" \/ st.binarymime \/ ~st.from \/ st.nrcpt = 0
     THEN /\ size = "small" /\ read = "all" /\ verdict = "acc"   \* one representative
          /\ Just(Cmd("DATA", "refused"), R(502, <<5, 5, 1>>))
     ELSE /\ st' = Cleared(st)
          /\ Emit(cmd, <<R(354, <<>>)>> \o Finals(final),
                  <<CB(DataName \o ".begin", st.sess), CB(DataName \o ".end:" \o endk, st.sess),
                    CB("Reset", st.sess)>>)

\* The backend reads the whole message and then panics.  The panic is
\* recovered: 421, connection closed.  Which callbacks happen on the way out
\* is what the code does (not judged): the deferred reset runs while the
\* panic unwinds (Reset, then Logout), except with a per-recipient LMTP
\* backend, whose panic is recovered in its own goroutine (every recipient
\* gets 421, Logout, and the reset finds no session any more).
\* read: "all" (the backend panics after the last octet) | "none" (it panics
\* before reading anything: the whole message is still unread, and since the
\* connection is given up none of it is ever looked at again)
DataPanic(read) ==
  LET cmd == CmdB("DATA", "small", 0, FALSE, read \o "-panic")
      dn == DataName
      endcb == IF read = "all" THEN ".end:eof" ELSE ".end:none"
  IN
  /\ InCmdMode /\ "panic" \in Alphabet
  /\ st.bdat = "none" /\ ~st.binarymime /\ st.from /\ st.nrcpt > 0
  /\ st' = ClosedSt(st)
  /\ IF cfg.lmtp /\ cfg.lmtpBackend
     THEN Emit(cmd, <<R(354, <<>>)>> \o Rep(R(421, <<4, 0, 0>>), st.nrcpt),
               <<CB(dn \o ".begin", st.sess), CB(dn \o endcb, st.sess), CB("Logout", st.sess)>>)
     ELSE Emit(cmd, <<R(354, <<>>), R(421, <<4, 0, 0>>)>>,
               <<CB(dn \o ".begin", st.sess), CB(dn \o endcb, st.sess),
                 CB("Reset", st.sess), CB("Logout", st.sess)>>)

-----------------------------------------------------------------------------
(* BDAT *)

\* refusals that leave the session untouched; the declared payload (n octets)
\* is discarded (intended behaviour, property C05).
BdatMalformed(v) ==
  /\ InCmdMode /\ "bdat" \in Alphabet
  /\ v \in {"noarg", "badsize"}
  \* the code checks the envelope before it parses the size
  /\ IF v = "badsize" /\ (~st.from \/ st.nrcpt = 0)
     THEN Just(Cmd("BDAT", v), R(502, <<5, 5, 1>>))
     ELSE Just(Cmd("BDAT", v), R(501, <<5, 5, 4>>))

BdatFinalErr == R(554, <<5, 0, 0>>)

\* Backend plans for a chunked transfer (chosen with the first chunk):
\*   "acc" / "rej"  read everything, return nil / an error at the end
\*   "panic"        read everything, panic at the end
\*   "early"        return an error at once, reading nothing
\*   "mid1"/"mid4"  read 1 / 4 octets, then return an error
\* st.bk is the number of octets a failing backend will still read.
MidPlans == {"early", "mid1", "mid4"}
\* accepting counterparts: return nil at once / after 1 / after 4 octets
AccMidPlans == {"eacc", "eacc1", "eacc4"}
KOf(p) == CASE p = "early" -> 0 [] p \in {"mid1", "eacc1"} -> 1 [] p \in {"mid4", "eacc4"} -> 4 [] OTHER -> 0
\* "eacc": the backend returns nil at once without reading anything - it has
\* accepted the message as far as it is concerned; the rest of the message is
\* skipped and the final reply is its verdict (as with DATA)

\* v: "" (well-formed) | "3args" | "badlast";  p: plan chosen with the first chunk
Bdat(v, n, lastc, p) ==
  LET cmd == CmdB("BDAT", v, n, lastc, p)
      dn == DataName
      first == st.bdat = "none"
      begin == IF first THEN <<CB(dn \o ".begin", st.sess)>> ELSE <<>>
      \* the plan in force
      plan == IF first THEN p ELSE st.bplan
      K == IF first THEN KOf(p) ELSE st.bk
      dead == st.bdat = "dead"
      endNone == <<CB(dn \o ".end:none", st.sess)>>
  IN
  /\ InCmdMode /\ "bdat" \in Alphabet
  /\ v = "badlast" => ~lastc
  /\ IF v = "3args" THEN Just(cmd, R(501, <<5, 5, 4>>)) ELSE
     IF ~st.from \/ st.nrcpt = 0 THEN Just(cmd, R(502, <<5, 5, 1>>))
     ELSE IF v = "badlast" THEN Just(cmd, R(501, <<5, 5, 4>>))
     ELSE IF cfg.maxBytes > 0 /\ st.bytes + n > cfg.maxBytes THEN
          /\ st' = Cleared(st)
          /\ Emit(cmd, <<R(552, <<5, 3, 4>>)>>, ResetCbs(st))
     ELSE IF st.bdat = "deadok" \/ (st.bdat \in {"none", "open"} /\ plan \in AccMidPlans /\ n >= K) THEN
          \* the backend has returned without an error (inside or right after
          \* this chunk, or earlier): what still arrives is skipped; LAST gets
          \* the backend's verdict
          LET cbs0 == IF st.bdat # "deadok" THEN begin \o endNone ELSE <<>> IN
          IF lastc
          THEN /\ st' = Cleared(st)
               /\ Emit(cmd, Finals(R(250, <<2, 0, 0>>)), cbs0 \o <<CB("Reset", st.sess)>>)
          ELSE /\ st' = [st EXCEPT !.bdat = "deadok", !.bplan = plan, !.bk = 0,
                                   !.bytes = IF cfg.maxBytes > 0 THEN @ + n ELSE 0]
               /\ Emit(cmd, <<R(250, <<2, 0, 0>>)>>, cbs0)
     ELSE IF dead THEN
          \* the backend has already returned an error
          IF n = 0 /\ ~lastc THEN
               /\ st' = st
               /\ Emit(cmd, <<R(250, <<2, 0, 0>>)>>, <<>>)
          ELSE /\ st' = Cleared(st)
               /\ Emit(cmd, IF lastc THEN Finals(BdatFinalErr) ELSE <<BdatFinalErr>>,
                       <<CB("Reset", st.sess)>>)
     ELSE IF plan \in MidPlans /\ n > K THEN
          \* the backend fails inside this chunk: the rest of the chunk is
          \* discarded, its error is the reply, the transaction ends
          /\ st' = Cleared(st)
          /\ Emit(cmd, IF lastc THEN Finals(BdatFinalErr) ELSE <<BdatFinalErr>>,
                  begin \o endNone \o <<CB("Reset", st.sess)>>)
     ELSE IF plan \in MidPlans /\ n = K THEN
          \* the backend fails right after this chunk, which itself completes
          IF lastc
          THEN /\ st' = Cleared(st)
               /\ Emit(cmd, Finals(BdatFinalErr), begin \o endNone \o <<CB("Reset", st.sess)>>)
          ELSE /\ st' = [st EXCEPT !.bdat = "dead", !.bplan = plan, !.bk = 0,
                                   !.bytes = IF cfg.maxBytes > 0 THEN @ + n ELSE 0]
               /\ Emit(cmd, <<R(250, <<2, 0, 0>>)>>, begin \o endNone)
     ELSE IF lastc /\ plan = "panic" THEN
          \* the delivery panics after the last octet: recovered, 421 (LMTP: for
          \* every recipient), connection closed without a Reset
          /\ st' = ClosedSt(st)
          /\ Emit(cmd, Finals(R(421, <<4, 0, 0>>)),
                  begin \o <<CB(dn \o ".end:eof", st.sess), CB("Logout", st.sess)>>)
     ELSE IF ~lastc THEN
          /\ st' = [st EXCEPT !.bdat = "open", !.bplan = plan,
                              !.bk = IF plan \in MidPlans \cup AccMidPlans THEN K - n ELSE 0,
                              !.bytes = IF cfg.maxBytes > 0 THEN @ + n ELSE 0]
          /\ Emit(cmd, <<R(250, <<2, 0, 0>>)>>, begin)
     ELSE \* LAST: the backend sees end-of-file (a failing backend before it
          \* has read its fill) and returns its verdict
          /\ st' = Cleared(st)
          /\ Emit(cmd, Finals(IF plan \in {"acc"} \cup AccMidPlans THEN R(250, <<2, 0, 0>>) ELSE BdatFinalErr),
                  begin \o <<CB(dn \o ".end:eof", st.sess), CB("Reset", st.sess)>>)

BdatPlans == {"acc", "rej", "early"} \cup (IF "panic" \in Alphabet THEN {"panic"} ELSE {})
                \cup (IF "mid" \in Alphabet THEN {"mid1", "mid4", "eacc", "eacc1", "eacc4"} ELSE {})

\* all BDAT steps with declared size n
BdatSized(n) ==
  \E l \in BOOLEAN :
       \/ \E v \in {"3args", "badlast"} : n > 0 /\ Bdat(v, n, l, "")
       \/ IF st.bdat = "none" /\ st.from /\ st.nrcpt > 0
             /\ ~(cfg.maxBytes > 0 /\ st.bytes + n > cfg.maxBytes)
          THEN \E p \in BdatPlans : Bdat("", n, l, p)
          ELSE Bdat("", n, l, "")

BdatAny ==
  \/ \E v \in {"noarg", "badsize"} : BdatMalformed(v)
  \/ \E n \in ChunkSizes : BdatSized(n)

-----------------------------------------------------------------------------
(* Simple commands *)

Rset ==
  /\ InCmdMode /\ "simple" \in Alphabet
  /\ st' = Cleared(st)
  /\ Emit(Cmd("RSET", ""), <<R(250, <<2, 0, 0>>)>>, ResetCbs(st))

Noop == InCmdMode /\ "simple" \in Alphabet /\ Just(Cmd("NOOP", ""), R(250, <<2, 0, 0>>))
Vrfy == InCmdMode /\ "simple" \in Alphabet /\ Just(Cmd("VRFY", ""), R(252, <<2, 5, 0>>))
Unimpl == InCmdMode /\ "simple" \in Alphabet /\ Just(Cmd("HELP", ""), R(502, <<5, 5, 1>>))

\* unknown verb / empty line: 500 5.5.2;  short or mangled line: 501 5.5.2
BadLine(v) ==
  /\ InCmdMode /\ "bad" \in Alphabet
  /\ ProtoErr(Cmd("BAD", v), R(IF v \in {"unknown", "empty"} THEN 500 ELSE 501, <<5, 5, 2>>), st)

Quit ==
  /\ InCmdMode /\ "quit" \in Alphabet
  /\ st' = ClosedSt(st)
  /\ Emit(Cmd("QUIT", ""), <<R(221, <<2, 0, 0>>)>>, CloseCbs(st))

\* the peer closes its side: the server's next read returns EOF
PeerClose ==
  /\ ~st.closed /\ "quit" \in Alphabet
  /\ st' = ClosedSt(st)
  /\ Emit(Cmd("EOF", ""), <<>>, CloseCbs(st))

\* the peer vanishes (transport torn down in both directions, under TLS without
\* a close_notify): whatever the server still writes is lost, and closing the
\* transport itself may fail - the session is ended exactly as for an orderly close
PeerAbort ==
  /\ ~st.closed /\ "quit" \in Alphabet
  /\ st' = ClosedSt(st)
  /\ Emit(Cmd("EOF", "abort"), <<>>, CloseCbs(st))

\* nothing arrives within ReadTimeout while the server waits for a command
\* line: 421 4.4.2 and the connection is closed
IdleTimeout ==
  /\ InCmdMode /\ "idle" \in Alphabet
  /\ st' = ClosedSt(st)
  /\ Emit(Cmd("IDLE", ""), <<R(421, <<4, 4, 2>>)>>, CloseCbs(st))

\* nothing arrives within ReadTimeout while the server waits for a SASL
\* response.  AS THE CODE IS (conn.go handleAuth: "TODO: error handling"): the
\* exchange is abandoned without any reply and the server is back in command
\* mode, where the idle timeout starts afresh - it neither announces that it
\* gives up nor closes at this point (DESIGN.md section 4).
AuthIdle ==
  /\ ~st.closed /\ st.authLeft > 0 /\ "idle" \in Alphabet
  /\ st' = [st EXCEPT !.authLeft = 0, !.authFinal = ""]
  /\ Emit(Cmd("IDLE", "auth"), <<>>, <<>>)

\* an over-long command line: 500 5.4.0 and the connection is closed
LongLine ==
  \* also while the server waits for an AUTH response
  /\ ~st.closed /\ "long" \in Alphabet
  /\ st' = ClosedSt(st)
  /\ Emit(Cmd("LONG", ""), <<R(500, <<5, 4, 0>>)>>, CloseCbs(st))

\* a backend panic in Mail: 421 4.0.0, connection closed
PanicMail ==
  /\ InCmdMode /\ "panic" \in Alphabet
  /\ st.helo /\ st.bdat = "none"
  /\ st' = ClosedSt(st)
  /\ Emit(Cmd("MAIL", "panic"), <<R(421, <<4, 0, 0>>)>>, <<CB("Mail", st.sess)>> \o CloseCbs(st))

\* a backend panic in Reset (RSET with a session): recovered like any other -
\* 421 4.0.0, connection closed, the session logged out
PanicRset ==
  /\ InCmdMode /\ "panic" \in Alphabet
  /\ st.sess # 0
  /\ st' = ClosedSt(st)
  /\ Emit(Cmd("RSET", "panic"), <<R(421, <<4, 0, 0>>)>>,
          AbortCbs(st) \o <<CB("Reset", st.sess), CB("Logout", st.sess)>>)

\* The peer disconnects inside the message of an accepted DATA command (any
\* octet offset after the 354, the end marker itself included).  The backend
\* reads everything it can and passes the reader's error on: the reader fails
\* (never end-of-file), the final reply is negative, then the connection ends.
DataCut(over) ==
  /\ InCmdMode /\ "cut" \in Alphabet
  /\ st.bdat = "none" /\ ~st.binarymime /\ st.from /\ st.nrcpt > 0
  /\ over => cfg.maxBytes > 0
  /\ st' = ClosedSt(st)
  \* over: what arrived before the cut already exceeds the size limit, so the
  \* reader fails with the size error first
  /\ Emit(Cmd("DATACUT", IF over THEN "over" ELSE ""),
          <<R(354, <<>>)>> \o Finals(IF over THEN R(552, <<5, 3, 4>>) ELSE R(554, <<5, 0, 0>>)),
          <<CB(DataName \o ".begin", st.sess), CB(DataName \o ".end:err", st.sess),
            CB("Reset", st.sess), CB("Logout", st.sess)>>)

\* The peer disconnects inside the payload of an accepted BDAT command: the
\* chunk is incomplete, so the transfer fails however many octets arrived -
\* the backend's reader gets the abort error, never end-of-file, also when
\* the chunk was declared LAST.
BdatCut(n, lastc, p, some) ==
  LET cmd == CmdB("BDATCUT", IF some THEN "some" ELSE "none", n, lastc, p)
      dn == DataName
      first == st.bdat = "none"
      begin == IF first THEN <<CB(dn \o ".begin", st.sess)>> ELSE <<>>
      dead == st.bdat = "dead" \/ (first /\ p = "early")
      earlyEnd == IF first /\ p = "early" THEN <<CB(dn \o ".end:none", st.sess)>> ELSE <<>>
  IN
  /\ InCmdMode /\ "cut" \in Alphabet
  /\ n \in ChunkSizes /\ n > 0
  /\ ~(st.bdat = "open" /\ st.bplan \in MidPlans \cup AccMidPlans)
  /\ p \notin {"eacc1", "eacc4"}
  /\ st.from /\ st.nrcpt > 0
  /\ ~(cfg.maxBytes > 0 /\ st.bytes + n > cfg.maxBytes)
  /\ (first <=> p # "")
  /\ st' = ClosedSt(st)
  /\ IF st.bdat = "deadok" \/ (first /\ p = "eacc")
     THEN \* the backend has accepted what it wanted of the message and returned:
          \* the chunk is skipped, but it never arrives in full - no reply, and
          \* above all no positive one; the transfer is aborted
          Emit(cmd, <<>>, (IF first THEN begin \o <<CB(dn \o ".end:none", st.sess)>> ELSE <<>>)
                            \o <<CB("Reset", st.sess), CB("Logout", st.sess)>>)
     ELSE IF dead /\ some
     THEN \* the backend had already failed: the first octet of the chunk meets
          \* its error, which is reported; nothing is presented as complete
          Emit(cmd, IF lastc THEN Finals(BdatFinalErr) ELSE <<BdatFinalErr>>,
               begin \o earlyEnd \o <<CB("Reset", st.sess), CB("Logout", st.sess)>>)
     ELSE \* the command never completed: no reply, the transfer is aborted
          Emit(cmd, <<>>,
               begin \o (IF dead THEN earlyEnd ELSE <<CB(dn \o ".end:abort", st.sess)>>)
                 \o <<CB("Reset", st.sess), CB("Logout", st.sess)>>)

\* The peer falls silent inside a message for longer than ReadTimeout (the
\* deadline set for the command line also covers the body).  The reader fails,
\* the final reply is negative - and since the rest of the message can no
\* longer be told from commands the connection ends there: whatever arrives
\* afterwards is never executed (C02, C05).
DataStall ==
  /\ InCmdMode /\ "stall" \in Alphabet
  /\ st.bdat = "none" /\ ~st.binarymime /\ st.from /\ st.nrcpt > 0
  /\ st' = ClosedSt(st)
  /\ Emit(Cmd("DATASTALL", ""),
          <<R(354, <<>>)>> \o Finals(R(554, <<5, 0, 0>>)),
          <<CB(DataName \o ".begin", st.sess), CB(DataName \o ".end:err", st.sess),
            CB("Reset", st.sess), CB("Logout", st.sess)>>)

\* the same inside the payload of an accepted BDAT command (backend reading
\* everything): the chunk cannot be completed, the transfer is aborted
BdatStall(lastc) ==
  LET first == st.bdat = "none"
      begin == IF first THEN <<CB(DataName \o ".begin", st.sess)>> ELSE <<>> IN
  /\ InCmdMode /\ "stall" \in Alphabet
  /\ st.from /\ st.nrcpt > 0
  /\ st.bdat = "none" \/ (st.bdat = "open" /\ st.bplan = "acc")
  /\ ~(cfg.maxBytes > 0 /\ st.bytes + 6 > cfg.maxBytes)
  /\ st' = ClosedSt(st)
  /\ Emit(CmdB("BDATSTALL", "", 6, lastc, IF first THEN "acc" ELSE ""),
          IF lastc THEN Finals(R(554, <<5, 0, 0>>)) ELSE <<R(554, <<5, 0, 0>>)>>,
          begin \o <<CB(DataName \o ".end:abort", st.sess), CB("Reset", st.sess), CB("Logout", st.sess)>>)

\* and inside the chunk of a REFUSED BDAT command (no envelope): the refusal has
\* been written, the chunk cannot be skipped to its end
BdatStallRefused ==
  /\ InCmdMode /\ "stall" \in Alphabet
  /\ st.helo /\ (~st.from \/ st.nrcpt = 0) /\ st.bdat = "none"
  /\ st' = ClosedSt(st)
  /\ Emit(CmdB("BDATSTALL", "refused", 6, FALSE, ""), <<R(502, <<5, 5, 1>>)>>, CloseCbs(st))

\* whatever was pipelined behind the step that closed the connection is
\* never executed (properties C08, C19)
AfterClose ==
  /\ st.closed
  /\ st' = st
  /\ Emit(Cmd("AFTER", ""), <<>>, <<>>)

-----------------------------------------------------------------------------
(* AUTH *)

\* ir: "none" | "empty" | "bytes";  plan: number of challenges (0..2) and the end
AuthStart(ir, nchal, fin) ==
  LET cmd == CmdB("AUTH", ir, nchal, FALSE, fin) IN
  /\ InCmdMode /\ "auth" \in Alphabet
  /\ IF ~st.helo THEN Just(Cmd("AUTH", "refused"), R(502, <<5, 5, 1>>)) /\ ir = "none" /\ nchal = 0 /\ fin = "ok"
     ELSE IF st.didAuth THEN Just(Cmd("AUTH", "refused"), R(503, <<5, 5, 1>>)) /\ ir = "none" /\ nchal = 0 /\ fin = "ok"
     ELSE IF ~AuthAllowed THEN Just(Cmd("AUTH", "refused"), R(523, <<5, 7, 10>>)) /\ ir = "none" /\ nchal = 0 /\ fin = "ok"
     ELSE IF ~cfg.authBackend THEN Just(Cmd("AUTH", "refused"), R(504, <<5, 7, 4>>)) /\ ir = "none" /\ nchal = 0 /\ fin = "ok"
     ELSE IF nchal = 0 THEN
          IF fin = "ok"
          THEN /\ st' = [st EXCEPT !.didAuth = TRUE]
               /\ Emit(cmd, <<R(235, <<2, 0, 0>>)>>, <<CB("Auth", st.sess), CB("SASLNext:" \o ir, st.sess)>>)
          ELSE /\ st' = st
               /\ Emit(cmd, <<R(454, <<4, 7, 0>>)>>, <<CB("Auth", st.sess), CB("SASLNext:" \o ir, st.sess)>>)
     ELSE /\ st' = [st EXCEPT !.authLeft = nchal, !.authFinal = fin]
          /\ Emit(cmd, <<R(334, <<>>)>>, <<CB("Auth", st.sess), CB("SASLNext:" \o ir, st.sess)>>)

AuthNoArg ==
  /\ InCmdMode /\ "auth" \in Alphabet
  /\ IF ~st.helo THEN Just(Cmd("AUTH", "noarg"), R(502, <<5, 5, 1>>))
     ELSE IF st.didAuth THEN Just(Cmd("AUTH", "noarg"), R(503, <<5, 5, 1>>))
     ELSE Just(Cmd("AUTH", "noarg"), R(502, <<5, 5, 4>>))

\* bad base64 initial response / unknown mechanism
AuthBad(v) ==
  /\ InCmdMode /\ "auth" \in Alphabet
  /\ IF ~st.helo THEN Just(Cmd("AUTH", v), R(502, <<5, 5, 1>>))
     ELSE IF st.didAuth THEN Just(Cmd("AUTH", v), R(503, <<5, 5, 1>>))
     ELSE IF ~AuthAllowed THEN Just(Cmd("AUTH", v), R(523, <<5, 7, 10>>))
     ELSE IF v = "badir" THEN Just(Cmd("AUTH", v), R(454, <<4, 7, 0>>))
     ELSE IF ~cfg.authBackend THEN Just(Cmd("AUTH", v), R(504, <<5, 7, 4>>))
     ELSE st' = st /\ Emit(Cmd("AUTH", v), <<R(504, <<5, 7, 4>>)>>, <<CB("Auth", st.sess)>>)

\* a line read while the server waits for a response
\* v: "bytes" | "empty" ("=") | "emptyline" | "cancel" ("*") | "bad" (not base64)
AuthLine(v) ==
  LET cmd == Cmd("ARESP", v) IN
  /\ ~st.closed /\ st.authLeft > 0 /\ "auth" \in Alphabet
  /\ IF v = "cancel" THEN
          /\ st' = [st EXCEPT !.authLeft = 0, !.authFinal = ""]
          /\ Emit(cmd, <<R(501, <<5, 0, 0>>)>>, <<>>)
     ELSE IF v = "bad" THEN
          /\ st' = [st EXCEPT !.authLeft = 0, !.authFinal = ""]
          /\ Emit(cmd, <<R(454, <<4, 7, 0>>)>>, <<>>)
     ELSE LET k == IF v = "bytes" THEN "bytes" ELSE "empty" IN
          IF st.authLeft > 1 THEN
               /\ st' = [st EXCEPT !.authLeft = @ - 1]
               /\ Emit(cmd, <<R(334, <<>>)>>, <<CB("SASLNext:" \o k, st.sess)>>)
          ELSE IF st.authFinal = "ok" THEN
               /\ st' = [st EXCEPT !.authLeft = 0, !.authFinal = "", !.didAuth = TRUE]
               /\ Emit(cmd, <<R(235, <<2, 0, 0>>)>>, <<CB("SASLNext:" \o k, st.sess)>>)
          ELSE /\ st' = [st EXCEPT !.authLeft = 0, !.authFinal = ""]
               /\ Emit(cmd, <<R(454, <<4, 7, 0>>)>>, <<CB("SASLNext:" \o k, st.sess)>>)

-----------------------------------------------------------------------------
(* STARTTLS *)

\* v: "ok" | "inject" (plaintext commands pipelined behind the command line,
\* which must never be executed)
StartTLS(v) ==
  LET cmd == Cmd("STARTTLS", v) IN
  /\ InCmdMode /\ "starttls" \in Alphabet
  /\ IF st.tls \/ ~cfg.tlsAvail THEN v = "ok" /\ Just(cmd, R(502, <<5, 5, 1>>))
     ELSE IF v = "badhs" THEN
          \* what follows the 220 is not a TLS handshake: 550, and the connection
          \* goes on exactly as it was - in plaintext, nothing forgotten, nothing gained
          /\ st' = st
          /\ Emit(cmd, <<R(220, <<2, 0, 0>>), R(550, <<5, 0, 0>>)>>, <<>>)
     ELSE /\ st' = [Cleared(st) EXCEPT !.tls = TRUE, !.helo = FALSE, !.sess = 0,
                                       !.didAuth = FALSE]
          \* Logout instead of Reset: the session object is dropped
          /\ Emit(cmd, <<R(220, <<2, 0, 0>>)>>,
                  AbortCbs(st) \o (IF st.sess # 0 THEN <<CB("Logout", st.sess)>> ELSE <<>>))

-----------------------------------------------------------------------------

Next ==
  \/ \E verb \in {"HELO", "EHLO", "LHLO"}, arg \in {"ok", "noarg"}, f \in BOOLEAN : Greet(verb, arg, f)
  \/ \E v \in MailVariants : Mail(v)
  \/ \E v \in RcptVariants : Rcpt(v)
  \/ DataArg
  \/ \E size \in {"small", "big"}, read \in {"all", "some", "none"}, verdict \in {"acc", "rej"} :
        Data(size, read, verdict)
  \/ BdatAny
  \/ Rset \/ Noop \/ Vrfy \/ Unimpl
  \/ \E v \in {"unknown", "empty", "short", "nospace"} : BadLine(v)
  \/ Quit \/ PeerClose \/ PeerAbort \/ LongLine \/ IdleTimeout \/ AuthIdle \/ PanicMail \/ PanicRset \/ (\E rd \in {"all", "none"} : DataPanic(rd)) \/ AfterClose
  \/ \E over \in BOOLEAN : DataCut(over)
  \/ DataStall \/ (\E l \in BOOLEAN : BdatStall(l)) \/ BdatStallRefused
  \/ \E n \in ChunkSizes, l \in BOOLEAN, p \in {"", "acc", "rej", "early", "panic"} \cup (IF "mid" \in Alphabet THEN {"eacc"} ELSE {}), some \in BOOLEAN : BdatCut(n, l, p, some)
  \/ \E ir \in {"none", "empty", "bytes"}, nchal \in 0..2, fin \in {"ok", "fail"} : AuthStart(ir, nchal, fin)
  \/ AuthNoArg
  \/ \E v \in {"badir", "unkmech"} : AuthBad(v)
  \/ \E v \in {"bytes", "empty", "emptyline", "cancel", "bad"} : AuthLine(v)
  \/ \E v \in {"ok", "inject", "badhs"} : StartTLS(v)

Spec == Init /\ [][Next]_vars

-----------------------------------------------------------------------------
(* Properties.  State invariants are over <<st, obs>>; the step properties   *)
(* are action formulas over `last'` and the pre-state.                       *)

TypeOK ==
  /\ st.nrcpt \in 0..RcptBound /\ st.sess \in 0..3 /\ st.errCount \in 0..MaxErr
  /\ st.bdat \in {"none", "open", "dead", "deadok"}

\* The observer (callbacks + replies only) and the server agree on the envelope:
\* nothing leaks from one transaction into the next without the backend knowing.
C03_ObserverAgrees ==
  ~st.closed =>
    /\ obs.from = st.from
    /\ obs.nrcpt = st.nrcpt
    /\ obs.sess = st.sess
    /\ (st.sess # 0) = obs.greeted
    /\ st.helo = (st.sess # 0)
    /\ (st.from => st.helo /\ st.sess # 0)
    /\ (st.nrcpt > 0 => st.from)
    /\ (st.bdat # "none" => st.nrcpt > 0)

C03_RcptLimit == cfg.maxRcpt > 0 => obs.nrcpt <= cfg.maxRcpt

HasCb(cbs, name) == \E i \in DOMAIN cbs : cbs[i].n = name
IsDataBegin(cb) == cb.n \in {"Data.begin", "LMTPData.begin"}
IsDataEnd(cb) == cb.n \in {"Data.end:eof", "Data.end:err", "Data.end:none", "Data.end:abort",
                           "LMTPData.end:eof", "LMTPData.end:err", "LMTPData.end:none",
                           "LMTPData.end:abort"}

\* Callbacks follow transaction order (pre-state observer, post-state label).
C03_Order ==
  [][ LET cbs == last'.cbs IN
      /\ HasCb(cbs, "Mail") => obs.greeted
      /\ HasCb(cbs, "Rcpt") => obs.from
      /\ (\E i \in DOMAIN cbs : IsDataBegin(cbs[i])) => obs.nrcpt > 0
      \* every callback is on the live session
      /\ \A i \in DOMAIN cbs : cbs[i].n \notin {"NewSession", "NewSession.fail"} => cbs[i].s = obs.sess
    ]_vars

\* Out-of-order commands: 5xx and no callback.
C03_OutOfOrder ==
  [][ LET c == last'.cmd IN
      /\ (c.c = "MAIL" /\ ~obs.greeted) => (last'.replies[1].code \div 100 = 5 /\ last'.cbs = <<>>)
      /\ (c.c = "RCPT" /\ ~obs.from) => (last'.replies[1].code \div 100 = 5 /\ last'.cbs = <<>>)
      /\ (c.c \in {"DATA", "BDAT"} /\ obs.nrcpt = 0) => (last'.replies[1].code \div 100 = 5 /\ last'.cbs = <<>>)
    ]_vars

\* Every transaction end is signalled by Reset (or Logout) and clears the envelope.
IsTxnEnd(l, preSt) ==
  \/ l.cmd.c = "DATA" /\ Len(l.replies) > 1
  \/ l.cmd.c = "BDAT" /\ l.cmd.l /\ l.cmd.a = "" /\ l.replies[1].code # 502
  \/ l.cmd.c = "BDAT" /\ l.cmd.a = "" /\ l.replies[1].code \in {552, 554}
  \/ l.cmd.c = "RSET"
  \/ l.cmd.c \in {"HELO", "EHLO", "LHLO"} /\ l.cmd.a = "ok" /\ l.replies[1].code = 250 /\ preSt.sess # 0

C03_TxnEnd ==
  [][ IsTxnEnd(last', st) =>
        \* (a recovered backend panic ends the whole session: Logout)
        /\ (st.sess # 0 => HasCb(last'.cbs, "Reset") \/ HasCb(last'.cbs, "Logout"))
        /\ ~st'.from /\ st'.nrcpt = 0 /\ st'.bdat = "none"
        /\ ~obs'.from /\ obs'.nrcpt = 0
    ]_vars

\* STARTTLS ends the session with Logout, not Reset, and forgets everything.
C10_StartTLS ==
  [][ (last'.cmd.c = "STARTTLS" /\ last'.cmd.a # "badhs" /\ last'.replies[1].code = 220) =>
        /\ ~HasCb(last'.cbs, "Reset")
        /\ (st.sess # 0 => HasCb(last'.cbs, "Logout"))
        /\ st'.tls /\ ~st'.helo /\ ~st'.didAuth /\ st'.sess = 0 /\ ~st'.from /\ st'.nrcpt = 0
        /\ st'.bdat = "none"
    ]_vars

C10_OnlyWhenAvailable ==
  [][ last'.cmd.c = "STARTTLS" =>
        (last'.replies[1].code = 220 <=> (cfg.tlsAvail /\ ~st.tls)) ]_vars

\* C04: reply counts and verdict attribution.
ReplyCountOK(l, preSt) ==
  LET n == Len(l.replies) IN
  CASE l.cmd.c \in {"EOF", "AFTER"} -> n = 0
    [] l.cmd.c = "IDLE" /\ l.cmd.a = "auth" -> n = 0     \* (as the code is, see AuthIdle)
    [] l.cmd.c = "STARTTLS" /\ l.cmd.a = "badhs" -> n \in {1, 2}   \* 220 then the handshake failure
    [] l.cmd.c = "DATA" /\ l.cmd.p \in {"all-panic", "none-panic"} -> n >= 2
    [] l.cmd.c = "DATA" /\ n > 1 -> n = 1 + (IF cfg.lmtp THEN preSt.nrcpt ELSE 1)
    [] l.cmd.c = "BDAT" /\ l.cmd.l /\ l.cmd.a = "" /\ l.replies[1].code \in {250, 554, 421} ->
         n = (IF cfg.lmtp THEN preSt.nrcpt ELSE 1)
    [] l.cmd.c = "BAD" /\ preSt.errCount = MaxErr -> n = 2 /\ l.replies[2].code = 500
    [] l.cmd.c \in {"DATACUT", "DATASTALL"} -> n = 1 + (IF cfg.lmtp THEN preSt.nrcpt ELSE 1)
    [] l.cmd.c = "BDATSTALL" -> n = (IF cfg.lmtp /\ l.cmd.l THEN preSt.nrcpt ELSE 1)
    [] l.cmd.c = "BDATCUT" -> n = 0 \/ n = (IF cfg.lmtp /\ l.cmd.l THEN preSt.nrcpt ELSE 1)
    [] OTHER -> n = 1

C04_ReplyCount == [][ReplyCountOK(last', st)]_vars

\* enhanced code class = reply class except 220 greeting, EHLO/LHLO reply, 3xx
C04_Enhanced ==
  \A i \in DOMAIN last.replies :
     LET r == last.replies[i] IN
     \/ r.code \div 100 = 3
     \/ last.cmd.c \in {"init", "EHLO", "LHLO"} /\ r.code = 250
     \/ last.cmd.c = "init"
     \/ r.enh # <<>> /\ r.enh[1] = r.code \div 100

\* a positive final reply only in a step whose Data callback saw EOF
C07_PositiveOnlyAfterEOF ==
  [][ (last'.cmd.c \in {"DATA", "BDAT"} /\ \E i \in DOMAIN last'.replies :
          last'.replies[i].code = 250 /\ (last'.cmd.c = "DATA" \/ last'.cmd.l))
      => \/ \E i \in DOMAIN last'.cbs : last'.cbs[i].n \in {"Data.end:eof", "LMTPData.end:eof", "Data.end:none", "LMTPData.end:none"}
         \/ st.bdat = "deadok"     \* the backend had returned its (positive) verdict in an earlier step
    ]_vars

\* a transfer cut short by a disconnect is never complete
C07_CutNeverComplete ==
  [][ last'.cmd.c \in {"DATACUT", "BDATCUT", "DATASTALL", "BDATSTALL"} =>
        /\ \A i \in DOMAIN last'.replies : last'.replies[i].code \div 100 # 2
        /\ \A i \in DOMAIN last'.cbs : last'.cbs[i].n \notin {"Data.end:eof", "LMTPData.end:eof"}
    ]_vars

\* C08: at most one Logout per session; after close every session is logged out,
\* and nothing at all happens after the closing step.
C08_LogoutOnce == \A s \in 1..3 : obs.logouts[s] <= 1
C08_AllLoggedOutAtClose == st.closed => (obs.live = {} /\ \A s \in 1..st.nsess : obs.logouts[s] = 1)
C08_NothingAfterClose ==
  [][ (st.closed /\ last'.cmd.c # "init") => (last'.replies = <<>> /\ last'.cbs = <<>> /\ st' = st) ]_vars
C08_NoCallbackOnDeadSession ==
  [][ \A i \in DOMAIN last'.cbs :
        LET cb == last'.cbs[i] IN
        (cb.s # 0 /\ cb.n # "NewSession") => obs.logouts[cb.s] = 0 ]_vars

\* C09: the mechanism sees octets only when AUTH is allowed, greeted, not yet authenticated
C09_MechOnlyWhenAllowed ==
  [][ (\E i \in DOMAIN last'.cbs : last'.cbs[i].n \in {"Auth", "SASLNext:none", "SASLNext:empty", "SASLNext:bytes"})
        => (AuthAllowed /\ st.helo /\ ~st.didAuth /\ cfg.authBackend) ]_vars
C09_AtMostOnce ==
  [][ (st.didAuth /\ last'.cmd.c = "AUTH") => last'.replies[1].code = 503 ]_vars
C09_FailLeavesUnauth ==
  [][ (last'.cmd.c \in {"AUTH", "ARESP"} /\ last'.replies[1].code \notin {235, 334})
        => (st'.didAuth = st.didAuth /\ st'.authLeft = 0) ]_vars
C09_ErasedByStartTLS == [][ (last'.cmd.c = "STARTTLS" /\ last'.cmd.a # "badhs" /\ last'.replies[1].code = 220) => ~st'.didAuth ]_vars
\* a failed upgrade changes nothing: in particular it does not make the connection count as protected
C09_FailedUpgradeChangesNothing == [][ (last'.cmd.c = "STARTTLS" /\ last'.cmd.a = "badhs") => st' = st ]_vars

\* C19: error flood closes the connection
C19_ErrFlood == st.errCount <= MaxErr
=============================================================================
