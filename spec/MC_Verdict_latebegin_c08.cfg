SPECIFICATION Spec
CONSTANTS
  Transfers = {1, 2, 3}
  Deviation = FALSE
  LateBegin = TRUE
INVARIANTS C08_NoBeginAfterLogout
PROPERTIES WaitEnds
