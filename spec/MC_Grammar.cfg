INIT Init
NEXT Next
CONSTANTS
  MaxLen = 5
INVARIANTS ValidHasOneAt NullPathOnlyForMail DisabledIsInvalid
CHECK_DEADLOCK FALSE
