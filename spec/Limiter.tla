------------------------------ MODULE Limiter ------------------------------
(***************************************************************************)
(* The command line reader with its length limit (property C19; the part   *)
(* of C04/C05 that depends on it).  Octets arrive from the network in       *)
(* arbitrary segments, are moved into a buffer of B octets, and the line    *)
(* reader takes from the buffer up to and including the first LF.          *)
(*                                                                         *)
(* Declarative layer: the stream is split at LF; the lines are accepted in  *)
(* order until the first one whose length (terminator included) exceeds L, *)
(* which is refused; nothing after it is read.  An unterminated tail is     *)
(* refused as soon as it exceeds L, and is never handed out as a line.      *)
(*                                                                         *)
(* Operational layer: the loop of Conn.readLine.  TLC checks that the       *)
(* sequence of results is the declarative one for EVERY segmentation and    *)
(* every buffer refill pattern, and that the unparsed input held never      *)
(* exceeds L + B.                                                           *)
(***************************************************************************)
EXTENDS Naturals, Sequences, FiniteSets, TLC

CONSTANTS L,        \* line length limit (0 = none)
          B,        \* buffer size
          MaxLen    \* bound on the stream length

VARIABLES stream,   \* everything the peer has sent so far ("n" = LF, "x" = other)
          net,      \* received by the kernel, not yet read (a count)
          buf,      \* in the buffered reader (a count; the octets are stream[pos+acc+1 ..])
          pos,      \* octets consumed by completed results
          acc,      \* octets of the current line taken so far
          results,  \* sequence of results: a number > 0 = a line of that length, 0 = refused (too long)
          dead      \* the reader has refused a line (sticky)

vars == <<stream, net, buf, pos, acc, results, dead>>

Init == /\ stream = <<>> /\ net = 0 /\ buf = 0 /\ pos = 0 /\ acc = 0
        /\ results = <<>> /\ dead = FALSE

\* the peer sends one more octet (a segment is a run of Send steps before a Fill)
Send(b) == /\ Len(stream) < MaxLen
           /\ stream' = Append(stream, b) /\ net' = net + 1
           /\ UNCHANGED <<buf, pos, acc, results, dead>>

\* the buffered reader refills: only when empty (Peek(1)), at most B octets
Fill(k) == /\ ~dead /\ buf = 0 /\ k \in 1..B /\ k <= net
           /\ buf' = k /\ net' = net - k
           /\ UNCHANGED <<stream, pos, acc, results, dead>>

\* index in stream of the first buffered octet
First == pos + acc + 1

\* the line reader takes what is buffered up to and including the first LF
Take ==
  /\ ~dead /\ buf > 0
  /\ LET lfs == {i \in First..(First + buf - 1) : stream[i] = "n"}
         upto == IF lfs = {} THEN First + buf - 1
                 ELSE CHOOSE i \in lfs : \A j \in lfs : i <= j
         n == upto - First + 1
         total == acc + n
     IN /\ buf' = buf - n
        /\ IF L > 0 /\ total > L
           THEN /\ dead' = TRUE /\ results' = Append(results, 0)
                /\ acc' = total /\ pos' = pos
           ELSE IF lfs # {}
           THEN /\ results' = Append(results, total) /\ pos' = pos + total /\ acc' = 0
                /\ dead' = FALSE
           ELSE /\ acc' = total /\ UNCHANGED <<results, pos, dead>>
  /\ UNCHANGED <<stream, net>>

Next == (\E b \in {"n", "x"} : Send(b)) \/ (\E k \in 1..B : Fill(k)) \/ Take
Spec == Init /\ [][Next]_vars

-----------------------------------------------------------------------------
(* Declarative layer *)

RECURSIVE LinesL(_, _, _)
\* results for stream s from index i on under limit lim, given that all is delivered
LinesL(s, i, lim) ==
  IF i > Len(s) THEN <<>>
  ELSE LET lfs == {j \in i..Len(s) : s[j] = "n"}
       IN IF lfs = {}
          THEN \* unterminated tail
               IF lim > 0 /\ Len(s) - i + 1 > lim THEN <<0>> ELSE <<>>
          ELSE LET e == CHOOSE j \in lfs : \A k \in lfs : j <= k
                   len == e - i + 1
               IN IF lim > 0 /\ len > lim THEN <<0>>
                  ELSE <<len>> \o LinesL(s, e + 1, lim)
Lines(s, i) == LinesL(s, i, L)

IsPrefix(a, b) == Len(a) <= Len(b) /\ SubSeq(b, 1, Len(a)) = a

\* the results so far are a prefix of the declarative results of the stream:
\* segmentation and refill pattern cannot change what a line is
ResultsAreDeclarative == IsPrefix(results, Lines(stream, 1))

\* once everything sent has been taken, nothing is missing
Complete == (net = 0 /\ buf = 0 /\ ~dead) => results = Lines(stream, 1) \/ \E t \in {Lines(stream, 1)} : Len(t) > 0 /\ t[Len(t)] = 0 /\ results = SubSeq(t, 1, Len(t) - 1)

\* no accepted line is longer than the limit; the reader holds a bounded
\* amount of unparsed input
AcceptedWithinLimit == L > 0 => \A i \in DOMAIN results : results[i] <= L
BoundedHold == L > 0 => (~dead => acc <= L) /\ acc + buf <= L + B
StickyRefusal == [][dead => dead' /\ results' = results]_vars
=============================================================================
