----------------------------- MODULE MC_Auth -----------------------------
(* SmtpServer instance for the AUTH / STARTTLS families (C09, C10 server   *)
(* side): TLS {none, available via STARTTLS, implicit} x AllowInsecureAuth *)
(* x backend {auth-capable, not}.                                          *)
EXTENDS SmtpServer, Json

MCConfigs ==
  { [lmtp |-> FALSE, maxRcpt |-> 0, maxBytes |-> 0, tlsAvail |-> t[1], implicitTLS |-> t[2],
     insecureAuth |-> ia, authBackend |-> ab, lmtpBackend |-> FALSE,
     binarymime |-> FALSE, dsn |-> FALSE] :
       t \in {<<FALSE, FALSE>>, <<TRUE, FALSE>>, <<TRUE, TRUE>>}, ia \in BOOLEAN, ab \in BOOLEAN }

MCAlphabet == {"greet", "mail", "rcpt", "bdat", "simple", "quit", "auth", "starttls", "long", "bad"}

DumpEdge ==
  PrintT(<<"EDGE", ToJson([cfg |-> cfg, src |-> st, osrc |-> obs, lbl |-> last', dst |-> st', odst |-> obs'])>>)
=============================================================================
