------------------------------ MODULE Grammar ------------------------------
(***************************************************************************)
(* Reference recogniser for the argument of MAIL FROM: / RCPT TO:          *)
(* (property C11), independent of go-smtp's parser, over a token alphabet: *)
(*   "<" ">" "@" "." ":" "," "q" (DQUOTE) "s" (SP) "a" (a letter)          *)
(*   "1" (a digit) "h" (an octet >= 0x80)                                  *)
(* Path part, RFC 5321 4.1.2:  "<" [source-route ":"] Local-part "@"       *)
(* Domain ">" with Local-part a Dot-string of atoms, or "<>" for MAIL.     *)
(* Verdicts:                                                               *)
(*   valid    the strict grammar: the backend must get exactly the text    *)
(*            between the brackets (and the command is accepted)           *)
(*   invalid  structurally malformed: must be refused, backend not called  *)
(*   unspec   forms the RFC does not bless but the property does not       *)
(*            forbid (no brackets, source routes, consecutive or trailing  *)
(*            dots, odd domain octets, 8-bit without SMTPUTF8, an empty    *)
(*            quoted string): not judged                                   *)
(* A quoted-string local part (DQUOTE *QcontentSMTP DQUOTE, with "\" x a   *)
(* quoted-pair) is judged: the mailbox the backend gets is the content     *)
(* with the quoted-pairs resolved, "@", the domain.                        *)
(* Parameter part: a list of parameter tokens after the path, each an      *)
(* abstract keyword[=value class]; verdict per list and configuration.     *)
(***************************************************************************)
EXTENDS Naturals, Sequences, FiniteSets, TLC, Json

PathToks == {"<", ">", "@", ".", ":", ",", "q", "s", "a", "1", "h"}
\* "b" (backslash) only occurs in the quoted-string family below
Atext(t) == t \in {"a", "1"}

\* automaton over the tokens after "FROM:" / "TO:"; states:
\*  "S" start, "L0" after '<', "LA" in a local atom, "LD" after a dot in the
\*  local part, "D0" after '@', "DA" in a domain label, "DD" after a dot in
\*  the domain, "E" after '>', "X" invalid (sticky), "U" unspecified (sticky)
PStep(q, t) ==
  CASE q = "S"  -> IF t = "<" THEN "L0" ELSE IF t = "s" THEN "U" ELSE IF t = ">" THEN "X" ELSE "U"
    [] q = "L0" -> IF Atext(t) THEN "LA"
                   ELSE IF t = ">" THEN "N"              \* "<>"
                   ELSE IF t = "q" THEN "Q0"             \* quoted-string local part
                   ELSE IF t \in {"@", "h", "."} THEN "U" \* source route, 8-bit, leading dot (lenient dot handling: not judged)
                   ELSE "X"
    \* inside a quoted string: everything but DQUOTE and backslash stands for itself
    [] q \in {"Q0", "Q"} -> IF t = "q" THEN (IF q = "Q0" THEN "U" ELSE "QE")   \* (empty quoted string: not judged)
                           ELSE IF t = "b" THEN "QB"
                           ELSE IF t = "h" THEN "U"
                           ELSE "Q"
    [] q = "QB" -> IF t = "h" THEN "U" ELSE "Q"          \* quoted-pair
    [] q = "QE" -> IF t = "@" THEN "D0" ELSE "X"          \* only the domain may follow
    [] q = "N"  -> IF t = "s" THEN "P" ELSE "X"
    [] q = "LA" -> IF Atext(t) THEN "LA"
                   ELSE IF t = "." THEN "LD"
                   ELSE IF t = "@" THEN "D0"
                   ELSE IF t = "h" THEN "U"
                   ELSE "X"                               \* ':' ',' '"' '<' '>' SP inside a dot-string
    [] q = "LD" -> IF Atext(t) THEN "LA"
                   ELSE IF t \in {".", "@", "h"} THEN "U"  \* ".." or trailing dot: lenient, not judged
                   ELSE "X"
    [] q = "D0" -> IF Atext(t) THEN "DA"
                   ELSE IF t \in {">", "s"} THEN "X"       \* empty domain
                   ELSE "U"
    [] q = "DA" -> IF Atext(t) THEN "DA"
                   ELSE IF t = "." THEN "DD"
                   ELSE IF t = ">" THEN "E"
                   ELSE IF t = "s" THEN "X"                \* SP before the closing bracket
                   ELSE "U"
    [] q = "DD" -> IF Atext(t) THEN "DA"
                   ELSE IF t = "s" THEN "X"
                   ELSE "U"                                \* trailing dot etc.
    [] q = "E"  -> IF t = "s" THEN "P" ELSE "X"            \* something glued to the path
    [] q = "P"  -> "P"                                     \* parameters follow (judged separately)
    [] OTHER    -> q                                       \* X and U are sticky

RECURSIVE PRun(_, _, _)
PRun(q, w, i) == IF i > Len(w) THEN q ELSE PRun(PStep(q, w[i]), w, i + 1)

\* kind: "mail" | "rcpt"
PathVerdict(kind, w) ==
  LET q == PRun("S", w, 1) IN
  CASE q = "E" -> "valid"
    [] q = "N" -> IF kind = "mail" THEN "valid" ELSE "invalid"
    [] q = "P" -> "unspec"      \* trailing space / parameters: not this enumeration's business
    [] q = "U" -> "unspec"
    [] q = "X" -> "invalid"
    [] OTHER -> "invalid"       \* ended in the middle: no closing bracket, no domain, ...

\* the mailbox of a valid path: what is between the brackets
Mailbox(w) == SubSeq(w, 2, Len(w) - 1)

RECURSIVE WordsUpTo(_, _)
WordsUpTo(S, n) == IF n = 0 THEN {<<>>}
                   ELSE LET P == WordsUpTo(S, n - 1) IN P \cup {Append(p, x) : p \in {r \in P : Len(r) = n - 1}, x \in S}

-----------------------------------------------------------------------------
(* Parameters: abstract tokens "KEY" or "KEY=class" *)

MailParams == {"SIZE=num", "SIZE=over", "SIZE=junk", "SIZE=big", "SIZE=signed", "BODY=7BIT", "BODY=8BITMIME", "BODY=BINARYMIME", "BODY=junk",
               "SMTPUTF8", "REQUIRETLS", "RET=FULL", "RET=HDRS", "RET=junk", "ENVID=xtext", "ENVID=badxtext", "ENVID=empty",
               "AUTH=mailbox", "AUTH=null", "AUTH=badxtext", "UNKNOWN=1", "UNKNOWN",
               \* a raw "=" inside a value (esmtp-value excludes it; xtext writes it "+3D")
               "ENVID=rawequals", "AUTH=rawequals",
               \* a raw octet that is no xchar (control character, DEL, 8-bit): xtext writes it as a hexchar
               "ENVID=rawctl", "ENVID=raw8bit"}
RcptParams == {"NOTIFY=NEVER", "NOTIFY=SUCCESS,FAILURE", "NOTIFY=NEVER,SUCCESS", "NOTIFY=junk", "NOTIFY=emptyelem", "NOTIFY=trailingcomma", "ORCPT=rfc822", "ORCPT=utf-8",
               "ORCPT=badtype", "ORCPT=notype", "ORCPT=rawequals", "ORCPT=rawctl", "RRVS=time", "RRVS=junk", "UNKNOWN=1"}

KeyOf(p) == CASE p \in {"SIZE=num", "SIZE=over", "SIZE=junk", "SIZE=big", "SIZE=signed"} -> "SIZE"
              [] p \in {"BODY=7BIT", "BODY=8BITMIME", "BODY=BINARYMIME", "BODY=junk"} -> "BODY"
              [] p \in {"RET=FULL", "RET=HDRS", "RET=junk"} -> "RET"
              [] p \in {"ENVID=xtext", "ENVID=badxtext", "ENVID=empty", "ENVID=rawequals", "ENVID=rawctl", "ENVID=raw8bit"} -> "ENVID"
              [] p \in {"AUTH=mailbox", "AUTH=null", "AUTH=badxtext", "AUTH=rawequals"} -> "AUTH"
              [] p \in {"NOTIFY=NEVER", "NOTIFY=SUCCESS,FAILURE", "NOTIFY=NEVER,SUCCESS", "NOTIFY=junk", "NOTIFY=emptyelem", "NOTIFY=trailingcomma"} -> "NOTIFY"
              [] p \in {"ORCPT=rfc822", "ORCPT=utf-8", "ORCPT=badtype", "ORCPT=notype", "ORCPT=rawequals", "ORCPT=rawctl"} -> "ORCPT"
              [] p \in {"RRVS=time", "RRVS=junk"} -> "RRVS"
              [] p \in {"UNKNOWN=1", "UNKNOWN"} -> "UNKNOWN"
              [] OTHER -> p

\* extension a key belongs to ("" = always available)
ExtOfKey(k) == CASE k \in {"RET", "ENVID", "NOTIFY", "ORCPT"} -> "DSN"
                 [] k = "SMTPUTF8" -> "SMTPUTF8" [] k = "REQUIRETLS" -> "REQUIRETLS"
                 [] k = "RRVS" -> "RRVS" [] OTHER -> ""

\* ("SIZE=big": a value in the upper half of the 32-bit range, well-formed;
\* "SIZE=signed": a sign is not part of 1*DIGIT)
Malformed(p) == p \in {"SIZE=junk", "SIZE=signed", "BODY=junk", "RET=junk", "ENVID=badxtext", "ENVID=empty", "AUTH=badxtext",
                       "NOTIFY=NEVER,SUCCESS", "NOTIFY=junk", "NOTIFY=emptyelem", "NOTIFY=trailingcomma", "ORCPT=badtype", "ORCPT=notype", "RRVS=junk",
                       "ENVID=rawequals", "AUTH=rawequals", "ORCPT=rawequals", "ENVID=rawctl", "ENVID=raw8bit", "ORCPT=rawctl"}

\* en: set of enabled extensions; sizeLimit: a size limit is configured
ParamBad(p, en, sizeLimit) ==
  \/ KeyOf(p) = "UNKNOWN"
  \/ Malformed(p)
  \/ ExtOfKey(KeyOf(p)) # "" /\ ExtOfKey(KeyOf(p)) \notin en
  \/ p = "BODY=BINARYMIME" /\ "BINARYMIME" \notin en
  \/ p \in {"SIZE=over", "SIZE=big"} /\ sizeLimit

ParamsVerdict(ps, en, sizeLimit) ==
  IF \E i, j \in DOMAIN ps : i # j /\ KeyOf(ps[i]) = KeyOf(ps[j]) THEN "unspec"     \* duplicates
  ELSE IF \E i \in DOMAIN ps : ParamBad(ps[i], en, sizeLimit) THEN "invalid"
  ELSE "valid"

-----------------------------------------------------------------------------
(* Enumerations for TLC *)

CONSTANT MaxLen
\* the quoted-string family: <" body tail
QuotedToks == {"a", "s", "b", "q", ".", "@", ">"}
QuotedTails == {<<"q", "@", "a", ">">>, <<"@", "a", ">">>, <<"q", "a", ">">>, <<"q", "@", ">">>, <<"q", "@", "a">>, <<"b", "q", "@", "a", ">">>}
VARIABLES what, kind, w, en, lim
Exts == {"DSN", "SMTPUTF8", "REQUIRETLS", "RRVS", "BINARYMIME"}
\* (strings that do not open with a bracket are all unspecified, except the
\* few enumerated by the second disjunct: only bracketed ones go to full length)
Init == \/ /\ what = "path" /\ kind \in {"mail", "rcpt"}
           /\ w \in {<<"<">> \o t : t \in WordsUpTo(PathToks, MaxLen - 1)} \cup WordsUpTo(PathToks, 2)
                   \cup {<<"<", "q">> \o body \o tail : body \in WordsUpTo(QuotedToks, 3), tail \in QuotedTails}
           /\ en = {} /\ lim = FALSE
        \/ /\ what = "params" /\ kind = "mail" /\ w \in WordsUpTo(MailParams, 2)
           /\ en \in {{}, Exts} /\ lim \in BOOLEAN
        \/ /\ what = "params" /\ kind = "rcpt" /\ w \in WordsUpTo(RcptParams, 2)
           /\ en \in {{}, Exts} /\ lim = FALSE
Next == UNCHANGED <<what, kind, w, en, lim>>

Verdict == IF what = "path" THEN PathVerdict(kind, w) ELSE ParamsVerdict(w, en, lim)

\* sanity properties of the reference grammar itself
ValidHasOneAt == (what = "path" /\ Verdict = "valid" /\ w # <<"<", ">">>) =>
                   /\ w[2] # "q" => Cardinality({i \in DOMAIN w : w[i] = "@"}) = 1
                   /\ w[1] = "<" /\ w[Len(w)] = ">"
                   /\ w[2] # "q" => \A i \in 2..(Len(w) - 1) : w[i] \in {"a", "1", ".", "@"}
NullPathOnlyForMail == (what = "path" /\ w = <<"<", ">">>) => (Verdict = "valid") = (kind = "mail")
DisabledIsInvalid == (what = "params" /\ en = {} /\ \E i \in DOMAIN w : ExtOfKey(KeyOf(w[i])) # "") => Verdict # "valid"

Dump == PrintT(<<"G", ToJson([what |-> what, kind |-> kind, w |-> w, en |-> en, lim |-> lim, v |-> Verdict])>>)
=============================================================================
