INIT Init
NEXT Next
CONSTANTS
  MaxLen = 3
INVARIANTS RoundTrip WireSafe SevenBit
CHECK_DEADLOCK FALSE
