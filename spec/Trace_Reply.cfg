INIT TInit
NEXT TNext
CONSTANTS
  MaxLines = 1
  MaxToks = 1
CHECK_DEADLOCK FALSE
