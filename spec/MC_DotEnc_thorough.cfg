INIT EInit
NEXT ENext
CONSTANTS
  MaxLen = 9
  Budgets = {0}
INVARIANTS ArrivesIntact
CHECK_DEADLOCK FALSE
