INIT Init
NEXT Next
CONSTANTS
  N = 7
INVARIANTS Honoured NoAuthWhenInsecure StartTLSOnlyBeforeTLS Dump
CHECK_DEADLOCK FALSE
