SPECIFICATION Spec
CONSTANTS
  MaxLen = 6
  Budgets = {0, 1, 3}
INVARIANTS DumpRun
CHECK_DEADLOCK FALSE
