----------------------------- MODULE ClientAuth -----------------------------
(***************************************************************************)
(* The client half of property C09: Client.Auth conducting a SASL exchange *)
(* of 0..3 challenges with a caller-supplied mechanism against a server.   *)
(* Values (initial response, challenges, responses) are classes:           *)
(*   "none" (absent)  "empty" (present, zero octets)  "bytes" (octets,     *)
(*   binary included).  A mechanism step may fail ("error").               *)
(* What the client writes, line by line, and what it returns:              *)
(*   AUTH <mech> [<b64 ir> | =]                                            *)
(*   per 334 challenge: the base64 response (an empty line for an empty    *)
(*   response), or "*" if the mechanism failed, after which the client     *)
(*   reads the server's answer to the cancellation and returns the         *)
(*   mechanism's error with the connection still usable                    *)
(*   235 -> nil; any other final reply -> that reply as the error (and the *)
(*   code under test then also writes a stray "*", which the repository's  *)
(*   TestAuthFailed demands: modelled, not judged)                         *)
(***************************************************************************)
EXTENDS Integers, Sequences, FiniteSets, TLC, Json

Vals == {"empty", "bytes"}

\* an exchange: ir, a sequence of steps [chal, resp], and how the server ends
\* it if the client gets that far: 235 or a failure code
Line(v) == IF v = "empty" THEN "resp:empty" ELSE "resp:bytes"

RECURSIVE Sent(_, _)
\* lines written for steps i.. ; stops at a mechanism error
Sent(steps, i) ==
  IF i > Len(steps) THEN <<>>
  ELSE IF steps[i].resp = "error" THEN <<"*">>
  ELSE <<Line(steps[i].resp)>> \o Sent(steps, i + 1)

MechFails(steps) == \E i \in DOMAIN steps : steps[i].resp = "error"

ExpectedLines(ir, steps, final) ==
  <<"AUTH:" \o ir>> \o Sent(steps, 1)
  \o (IF ~MechFails(steps) /\ final # 235 THEN <<"*">> ELSE <<>>)   \* the stray cancel after a final failure

\* 0 = nil, -1 = the mechanism's own error, else the server's final code
ExpectedResult(steps, final) ==
  IF MechFails(steps) THEN -1 ELSE IF final = 235 THEN 0 ELSE final

\* what the mechanism must have been shown: the challenges up to and
\* including the step that failed
RECURSIVE Shown(_, _)
Shown(steps, i) ==
  IF i > Len(steps) THEN <<>>
  ELSE <<steps[i].chal>> \o (IF steps[i].resp = "error" THEN <<>> ELSE Shown(steps, i + 1))

-----------------------------------------------------------------------------
CONSTANT MaxSteps
Steps == [chal : Vals, resp : Vals \cup {"error"}]
RECURSIVE StepSeqs(_)
StepSeqs(n) == IF n = 0 THEN {<<>>}
               ELSE LET P == StepSeqs(n - 1) IN P \cup {Append(p, x) : p \in {q \in P : Len(q) = n - 1}, x \in Steps}

VARIABLES ir, steps, final
Init == ir \in {"none", "empty", "bytes"} /\ steps \in StepSeqs(MaxSteps) /\ final \in {235, 535, 454}
Next == UNCHANGED <<ir, steps, final>>

\* C09 (client): a mechanism error cancels with exactly one "*" and nothing after it
CancelIsLast == MechFails(steps) =>
   LET l == ExpectedLines(ir, steps, final) IN l[Len(l)] = "*" /\ Cardinality({i \in DOMAIN l : l[i] = "*"}) = 1
ResultIsServersFinal == ~MechFails(steps) => ExpectedResult(steps, final) = (IF final = 235 THEN 0 ELSE final)
OneLinePerStep == Len(ExpectedLines(ir, steps, final)) <= 2 + Len(steps)

Dump == PrintT(<<"AUTHX", ToJson([ir |-> ir, steps |-> steps, final |-> final,
                                  lines |-> ExpectedLines(ir, steps, final), result |-> ExpectedResult(steps, final),
                                  shown |-> Shown(steps, 1)])>>)
=============================================================================
