SPECIFICATION TSpec
CONSTANTS
  Closers = {"c1", "c2"}
  MaxConns = 100
  MaxTemp = 100
VIEW TView
CONSTRAINT HWM
INVARIANTS ExactlyOnce SecondReportsClosed CloseEndsEverything ShutdownWaits ServeResult ListenerErrorStillCloses
POSTCONDITION TraceAccepted
CHECK_DEADLOCK FALSE
