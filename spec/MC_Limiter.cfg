SPECIFICATION Spec
CONSTANTS
  L = 3
  B = 2
  MaxLen = 8
INVARIANTS ResultsAreDeclarative AcceptedWithinLimit BoundedHold
PROPERTIES StickyRefusal
CHECK_DEADLOCK FALSE
