INIT Init
NEXT Next
INVARIANTS OnlyNegotiated RequestedSecurityNeverDropped NoSecondLine ErrorWritesNothing
CHECK_DEADLOCK FALSE
