------------------------- MODULE Trace_SmtpServer -------------------------
(* Trace validation (code -> spec): executions recorded from the real       *)
(* server - random walks driven by the harness, and the repository's own   *)
(* tests run with the verif tag - are consumed event by event.  An event   *)
(* is accepted iff SmtpServer!Next has a step with the same command label  *)
(* whose replies, callbacks and projected connection state equal the        *)
(* recorded ones.  All invariants and step properties of SmtpServer are     *)
(* evaluated on the way.  Several traces are concatenated; a "reset" event  *)
(* starts a new connection with its own configuration.                      *)
EXTENDS SmtpServer, Json

Trace == ndJsonDeserialize("trace.ndjson")

TraceAlphabet == {"greet", "mail", "rcpt", "data", "bdat", "simple", "bad", "quit", "long",
                  "panic", "auth", "starttls", "cut", "mid", "idle"}

VARIABLE l     \* index of the next event to consume

tvars == <<cfg, st, obs, last, l>>

TraceInit ==
  /\ l = 2
  /\ Trace[1].ev = "reset"
  /\ cfg = Trace[1].cfg
  /\ st = InitSt(cfg)
  /\ obs = InitObs
  /\ last = [cmd |-> NoCmd, replies |-> <<R(220, <<>>)>>, cbs |-> <<>>]

TraceReset ==
  /\ l <= Len(Trace)
  /\ Trace[l].ev = "reset"
  /\ l' = l + 1
  /\ cfg' = Trace[l].cfg
  /\ st' = InitSt(cfg')
  /\ obs' = InitObs
  /\ last' = [cmd |-> NoCmd, replies |-> <<R(220, <<>>)>>, cbs |-> <<>>]

IsDataCbName(n) == n \in {"Data.begin", "LMTPData.begin", "Data.end:eof", "Data.end:err",
                          "Data.end:none", "Data.end:abort", "LMTPData.end:eof",
                          "LMTPData.end:err", "LMTPData.end:none", "LMTPData.end:abort"}
LoopCbs(cbs) == SelectSeq(cbs, LAMBDA cb : ~IsDataCbName(cb.n))
DataCbs(cbs) == {cbs[i] : i \in {j \in DOMAIN cbs : IsDataCbName(cbs[j].n)}}

\* projection of the specification state onto what the hook reports
Proj(s) == [helo |-> s.helo, session |-> s.sess # 0, from |-> s.from, rcpts |-> s.nrcpt,
            bdat |-> s.bdat # "none", binarymime |-> s.binarymime, didAuth |-> s.didAuth,
            errCount |-> s.errCount, tls |-> s.tls]

BdatSizedAny(n) == BdatSized(n)

TraceStep ==
  /\ l <= Len(Trace)
  /\ Trace[l].ev = "step"
  /\ l' = l + 1
  \* a BDAT step is taken with the recorded size (any size, not only the
  \* model-checking constants)
  /\ IF Trace[l].cmd.c = "BDAT" /\ Trace[l].cmd.a \in {"", "3args", "badlast"}
     THEN BdatSizedAny(Trace[l].cmd.n)
     ELSE Next
  /\ last'.cmd = Trace[l].cmd
  /\ last'.replies = Trace[l].replies
  /\ LoopCbs(last'.cbs) = LoopCbs(Trace[l].cbs)
  /\ DataCbs(last'.cbs) = DataCbs(Trace[l].cbs)
  /\ (~st'.closed /\ ~Trace[l].nost) => Proj(st') = Trace[l].st

TraceNext == TraceReset \/ TraceStep

TraceSpec == TraceInit /\ [][TraceNext]_tvars

\* Diagnosis of a rejected event: the trace is truncated at the offending event
\* and the specification prints what it allows for that command there.
DiagStep ==
  /\ l = Len(Trace)
  /\ Trace[l].ev = "step"
  /\ l' = l + 1
  /\ Next
  /\ last'.cmd = Trace[l].cmd
  /\ PrintT(<<"EXPECT", ToJson([lbl |-> last', st |-> Proj(st'), closed |-> st'.closed])>>)

TraceSpecDiag == TraceInit /\ [][TraceReset \/ TraceStep \/ DiagStep]_tvars

TraceView == <<cfg, st, obs, l>>

\* high-water mark of consumed events, kept in TLC register 1
HWM == IF l > TLCGet(1) THEN TLCSet(1, l) ELSE TRUE
ASSUME TLCSet(1, 0)
TraceAccepted ==
  /\ PrintT(<<"HWM", ToString(TLCGet(1))>>)
  /\ TLCGet(1) = Len(Trace) + 1
=============================================================================
