INIT Init
NEXT Next
CONSTANTS
  MaxLines = 2
  MaxToks = 3
INVARIANTS RoundTripHolds WireValid EveryLineCarriesCode
CHECK_DEADLOCK FALSE
