SPECIFICATION Spec
CONSTANTS
  Lmtp = TRUE
  MaxRcpt = 2
  ExtSets <- MCExtSets
  Names = {"a", "b"}
VIEW View


CHECK_DEADLOCK FALSE
ACTION_CONSTRAINT DumpEdge
