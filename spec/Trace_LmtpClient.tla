------------------------- MODULE Trace_LmtpClient -------------------------
(* Code -> spec: recorded Close results of the real LMTP client against the *)
(* real LMTP server, one case per transaction.                              *)
EXTENDS LmtpClient, Json

Cases == ndJsonDeserialize("cases.ndjson")

Accepts(c) ==
  /\ c.callbacks = ExpectedCallbacks(c.accepted, c.verdicts, c.withcb)
  /\ c.closeerr = ExpectedCloseErr(c.verdicts, c.withcb)

BadCases == {i \in DOMAIN Cases : ~Accepts(Cases[i])}
ASSUME PrintT(<<"BADCASES", ToJson(BadCases)>>)
ASSUME PrintT(<<"NCASES", ToString(Len(Cases))>>)
VARIABLE dummy
TInit == Init /\ dummy = 0
TNext == UNCHANGED <<vars, dummy>>
=============================================================================
