SPECIFICATION TraceSpec
CONSTANTS
  Lmtp = FALSE
  MaxRcpt = 1000
  ExtSets <- TraceExtSets
  Names = {"a", "b", "c", "d"}
VIEW TraceView
CONSTRAINT HWM
INVARIANTS ParamsNegotiated Utf8NotDropped OneLinePerStep MailAfterHello ListsAgree CallbacksExact
POSTCONDITION TraceAccepted
CHECK_DEADLOCK FALSE
