SPECIFICATION TSpec
CONSTANTS
  Transfers = {1, 2, 3}
  Deviation = FALSE
  LateBegin = FALSE
CONSTRAINT HWM
INVARIANTS OwnVerdict NoGoroutineBlocked C03_NoBeginAfterReset C08_NoBeginAfterLogout
POSTCONDITION TraceAccepted
CHECK_DEADLOCK FALSE
