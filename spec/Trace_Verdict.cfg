SPECIFICATION TSpec
CONSTANTS
  Transfers = {1, 2, 3}
  Deviation = FALSE
CONSTRAINT HWM
INVARIANTS OwnVerdict NoGoroutineBlocked
POSTCONDITION TraceAccepted
CHECK_DEADLOCK FALSE
