SPECIFICATION Spec
CONSTANTS
  Rcpts = {"a", "b", "c"}
  MaxTxn = 3
  MaxPerTxn = 3
INVARIANTS ReadsWhatIsOwed ReportsThisTransaction ListIsServersList
CHECK_DEADLOCK FALSE
