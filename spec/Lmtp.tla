------------------------------- MODULE Lmtp -------------------------------
(***************************************************************************)
(* The LMTP status collector (property C13): the final response to DATA or *)
(* BDAT LAST in LMTP mode.  Modelled as the code builds it: one bounded    *)
(* channel per DISTINCT address with capacity = its multiplicity in the    *)
(* recipient list; recipient i reads from the channel of its address; the  *)
(* backend (any program within its contract: at most one SetStatus per     *)
(* occurrence of an address, any order, before or after consuming the      *)
(* message) runs concurrently with the emitter, then returns a value or    *)
(* panics, after which the remaining slots are filled.                     *)
(*                                                                         *)
(* Statuses are numbers: 0 = success, k > 0 = the k-th status the backend  *)
(* set (a distinct marker), RetErr = the error the backend returned,       *)
(* PanicSt = the 421 given after a panic.                                  *)
(***************************************************************************)
EXTENDS Naturals, Sequences, FiniteSets, TLC

CONSTANTS Addrs,      \* e.g. {"a", "b"}
          MaxRcpts    \* bound on the recipient list

RetErr == 99
PanicSt == 421

VARIABLES rcpts,     \* the accepted recipients, in RCPT order
          chans,     \* [Addrs -> Seq(status)]: buffered channel contents
          sets,      \* [Addrs -> Seq(status)]: history of SetStatus calls per address
          nset,      \* number of SetStatus calls so far (next marker = nset + 1)
          consumed,  \* the backend has read the message
          bpc,       \* "run" | "ret" | "panic": the backend
          retv,      \* what it returned (0 or RetErr)
          emitted    \* statuses written to the client so far, in order

vars == <<rcpts, chans, sets, nset, consumed, bpc, retv, emitted>>

RECURSIVE SeqsUpTo(_)
SeqsUpTo(n) == IF n = 0 THEN {<<>>}
               ELSE LET S == SeqsUpTo(n - 1) IN S \cup {Append(s, a) : s \in {t \in S : Len(t) = n - 1}, a \in Addrs}

Count(a, s) == Cardinality({i \in DOMAIN s : s[i] = a})
Cap(a) == Count(a, rcpts)

Init == /\ rcpts \in (SeqsUpTo(MaxRcpts) \ {<<>>})
        /\ chans = [a \in Addrs |-> <<>>]
        /\ sets = [a \in Addrs |-> <<>>]
        /\ nset = 0 /\ consumed = FALSE /\ bpc = "run" /\ retv = 0
        /\ emitted = <<>>

\* the backend sets a status for address a (within its contract: not more
\* often than the address was given)
SetStatus(a) ==
  /\ bpc = "run" /\ Len(sets[a]) < Cap(a)
  /\ Len(chans[a]) < Cap(a)            \* cannot be full within the contract
  /\ nset' = nset + 1
  /\ sets' = [sets EXCEPT ![a] = Append(@, nset + 1)]
  /\ chans' = [chans EXCEPT ![a] = Append(@, nset + 1)]
  /\ UNCHANGED <<rcpts, consumed, bpc, retv, emitted>>

\* a success status (nil): same slot discipline, status 0
SetOK(a) ==
  /\ bpc = "run" /\ Len(sets[a]) < Cap(a)
  /\ Len(chans[a]) < Cap(a)
  /\ nset' = nset + 1
  /\ sets' = [sets EXCEPT ![a] = Append(@, 0)]
  /\ chans' = [chans EXCEPT ![a] = Append(@, 0)]
  /\ UNCHANGED <<rcpts, consumed, bpc, retv, emitted>>

Consume == /\ bpc = "run" /\ ~consumed /\ consumed' = TRUE
           /\ UNCHANGED <<rcpts, chans, sets, nset, bpc, retv, emitted>>

\* slots of address a not yet written: multiplicity minus statuses set
Fill(v) == [a \in Addrs |-> chans[a] \o [k \in 1..(Cap(a) - Len(sets[a])) |-> v]]

Return(v) ==
  /\ bpc = "run"
  /\ bpc' = "ret" /\ retv' = v
  /\ chans' = Fill(v)
  /\ UNCHANGED <<rcpts, sets, nset, consumed, emitted>>

Panic ==
  /\ bpc = "run"
  /\ bpc' = "panic" /\ retv' = PanicSt
  /\ chans' = Fill(PanicSt)
  /\ UNCHANGED <<rcpts, sets, nset, consumed, emitted>>

\* the command loop writes the next recipient's status as soon as its channel has one
Emit ==
  /\ Len(emitted) < Len(rcpts)
  /\ LET a == rcpts[Len(emitted) + 1] IN
     /\ chans[a] # <<>>
     /\ emitted' = Append(emitted, Head(chans[a]))
     /\ chans' = [chans EXCEPT ![a] = Tail(@)]
  /\ UNCHANGED <<rcpts, sets, nset, consumed, bpc, retv>>

Done == Len(emitted) = Len(rcpts) /\ bpc # "run"

Next == \/ \E a \in Addrs : SetStatus(a) \/ SetOK(a)
        \/ Consume \/ Return(0) \/ Return(RetErr) \/ Panic \/ Emit
        \/ (Done /\ UNCHANGED vars)

Spec == Init /\ [][Next]_vars /\ WF_vars(Emit) /\ WF_vars(Return(0) \/ Return(RetErr) \/ Panic) /\ WF_vars(Consume)

-----------------------------------------------------------------------------
(* Declarative layer: what recipient i must get *)

\* which occurrence of its address recipient i is
Occ(rs, i) == Count(rs[i], SubSeq(rs, 1, i))

\* given the statuses set per address and the final value
ExpectedAt(rs, ss, fin, i) ==
  LET a == rs[i] k == Occ(rs, i) IN
  IF k <= Len(ss[a]) THEN ss[a][k] ELSE fin

Expected(rs, ss, fin) == [i \in 1..Len(rs) |-> ExpectedAt(rs, ss, fin, i)]

\* C13: every reply written so far carries the right status: the k-th status
\* set for the address if recipient i is its k-th occurrence, else the final
\* value.  (While the backend runs, a reply can only have come from a
\* SetStatus call.)
EmittedRight ==
  \A i \in DOMAIN emitted :
     LET a == rcpts[i] k == Occ(rcpts, i) IN
     IF k <= Len(sets[a]) THEN emitted[i] = sets[a][k]
     ELSE bpc # "run" /\ emitted[i] = retv

NeverMoreThanRecipients == Len(emitted) <= Len(rcpts)

\* channels never overflow (the reason for capacity = multiplicity)
ChannelsFit == \A a \in Addrs : Len(chans[a]) <= Cap(a)

\* no deadlock: unless everything is done some action is enabled; checked by
\* TLC's deadlock detection (Done stutters explicitly)
Termination == <>Done

\* once the backend is finished nothing is missing
AllThere == (bpc # "run" /\ Len(emitted) = Len(rcpts)) => emitted = Expected(rcpts, sets, retv)
=============================================================================
