INIT Init
NEXT Next
CONSTANTS
  MaxLen = 6
INVARIANTS ValidHasOneAt NullPathOnlyForMail DisabledIsInvalid
CHECK_DEADLOCK FALSE
