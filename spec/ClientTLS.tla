----------------------------- MODULE ClientTLS -----------------------------
(***************************************************************************)
(* The client half of property C10: DialStartTLS / NewClientStartTLS /     *)
(* the package-level SendMail against a server that behaves in one of      *)
(* several ways around STARTTLS.  The result is a function of the          *)
(* behaviour: which command verbs may ever be written in plaintext, whether *)
(* the call succeeds, and whose capabilities the client ends up with.       *)
(***************************************************************************)
EXTENDS Naturals, Sequences, FiniteSets, TLC, Json

Behaviours == {"proper",        \* advertises STARTTLS, 220, handshake succeeds
               "notoffered",    \* EHLO reply has no STARTTLS
               "refused",       \* advertises it, answers 454
               "garbage",       \* 220, then not a TLS handshake
               "injected",      \* 220 followed, in the same segment, by plaintext that looks like replies; then a proper handshake
               "heloonly"}      \* proper upgrade, but inside TLS the server refuses EHLO (502) and accepts HELO: no extensions there
Entries == {"DialStartTLS", "NewClientStartTLS", "SendMail", "SendMailAuth"}

Upgrades(b) == b \in {"proper", "injected", "heloonly"}

\* verbs that may appear on the wire before TLS
PlaintextAllowed(b) == {"EHLO", "STARTTLS"} \cup (IF Upgrades(b) THEN {} ELSE {"QUIT"})

\* (authentication needs AUTH to be offered inside TLS)
Succeeds(e, b) == Upgrades(b) /\ ~(e = "SendMailAuth" /\ b = "heloonly")

\* after a successful upgrade the client's capabilities are those of the EHLO
\* reply received INSIDE TLS - never those seen or injected in plaintext
\* ("helo": the HELO fallback inside TLS - no extension at all, whatever the plaintext EHLO listed)
CapsFrom(e, b) == IF b = "heloonly" THEN "helo" ELSE IF Upgrades(b) THEN "tls" ELSE "none"

\* inside TLS, in order
TLSVerbs(e, b) ==
  IF ~Upgrades(b) THEN <<>>
  ELSE IF b = "heloonly" THEN
       CASE e \in {"DialStartTLS", "NewClientStartTLS"} -> <<"EHLO", "HELO">>
         [] e = "SendMail" -> <<"EHLO", "HELO", "MAIL", "RCPT", "DATA", "QUIT">>
         [] OTHER -> <<"EHLO", "HELO">>
  ELSE CASE e \in {"DialStartTLS", "NewClientStartTLS"} -> <<"EHLO">>     \* re-negotiated on the first use
         [] e = "SendMail" -> <<"EHLO", "MAIL", "RCPT", "DATA", "QUIT">>
         [] OTHER -> <<"EHLO", "AUTH", "MAIL", "RCPT", "DATA", "QUIT">>

VARIABLES e, b
Init == e \in Entries /\ b \in Behaviours
Next == UNCHANGED <<e, b>>

\* C10 (client)
NothingSensitiveInPlaintext == PlaintextAllowed(b) \cap {"MAIL", "RCPT", "DATA", "AUTH"} = {}
NoSuccessWithoutTLS == Succeeds(e, b) => Upgrades(b)
RenegotiatesInsideTLS == Upgrades(b) => TLSVerbs(e, b)[1] = "EHLO"

Dump == PrintT(<<"CTLS", ToJson([e |-> e, b |-> b, plain |-> PlaintextAllowed(b), ok |-> Succeeds(e, b),
                                 caps |-> CapsFrom(e, b), tls |-> TLSVerbs(e, b)])>>)
=============================================================================
