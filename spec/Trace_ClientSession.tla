------------------------- MODULE Trace_ClientSession -------------------------
(* Trace validation (code -> spec) of the Client: random API walks recorded   *)
(* from the real Client (against a small conforming peer answering at random, *)
(* chosen without consulting the specification) are consumed event by event.  *)
(* An event is accepted iff ClientSession!Next has a step for the same call   *)
(* and arguments that writes the recorded lines, returns the recorded result  *)
(* class, fires the recorded callbacks and leaves the client in the recorded  *)
(* projected state.  The peer's decisions are not logged: TLC infers them     *)
(* from what they caused.  All invariants of ClientSession are evaluated on   *)
(* the way.  Walks are concatenated; a "reset" event starts a new client.     *)
EXTENDS ClientSession, Json

Trace == ndJsonDeserialize("cs_trace.ndjson")

VARIABLE l
tvars == <<st, last, l>>

ToSet(s) == {s[i] : i \in DOMAIN s}
TraceExtSets == SUBSET Universe

TraceInit ==
  /\ l = 2 /\ Trace[1].ev = "reset" /\ Trace[1].lmtp = Lmtp
  /\ st = InitState /\ last = [call |-> "init"]

TraceReset ==
  /\ l <= Len(Trace) /\ Trace[l].ev = "reset" /\ Trace[l].lmtp = Lmtp
  /\ l' = l + 1 /\ st' = InitState /\ last' = [call |-> "init"]

TraceStep ==
  /\ l <= Len(Trace) /\ Trace[l].ev = "step"
  /\ l' = l + 1
  /\ Next
  /\ LET e == Trace[l] IN
     /\ last'.call = e.call
     /\ last'.args = e.args
     /\ last'.lines = e.lines
     /\ last'.res \in {"any", e.res}
     /\ last'.cbs = e.cbs
     /\ last'.dec.g = e.gcode
     /\ st'.g = e.g /\ st'.h = e.h /\ st'.ext = ToSet(e.ext)
     /\ st'.name = e.name /\ st'.rcpts = e.rcpts

TraceNext == TraceReset \/ TraceStep
TraceSpec == TraceInit /\ [][TraceNext]_tvars
TraceView == <<st, l>>

HWM == IF l > TLCGet(1) THEN TLCSet(1, l) ELSE TRUE
ASSUME TLCSet(1, 0)
TraceAccepted ==
  /\ PrintT(<<"HWM", ToString(TLCGet(1))>>)
  /\ TLCGet(1) = Len(Trace) + 1
=============================================================================
