------------------------------ MODULE MC_Err ------------------------------
(* SmtpServer instance for the error-flood family (C19, C08, C04): the     *)
(* error counter, the closing notice after the fourth error, and what is   *)
(* pipelined behind it, from every envelope state.                         *)
EXTENDS SmtpServer, Json

MCConfigs ==
  { [lmtp |-> l, maxRcpt |-> 0, maxBytes |-> 0, tlsAvail |-> FALSE, implicitTLS |-> FALSE,
     insecureAuth |-> FALSE, authBackend |-> FALSE, lmtpBackend |-> FALSE,
     binarymime |-> TRUE, dsn |-> FALSE] : l \in BOOLEAN }

MCAlphabet == {"greet", "mail", "rcpt", "data", "bdat", "simple", "bad", "quit", "long"}

DumpEdge ==
  PrintT(<<"EDGE", ToJson([cfg |-> cfg, src |-> st, osrc |-> obs, lbl |-> last', dst |-> st', odst |-> obs'])>>)
=============================================================================
