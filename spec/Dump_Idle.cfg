SPECIFICATION Spec
CONSTANTS
  Configs <- MCConfigs
  ChunkSizes = {0, 6}
  SmallMsg = 4
  BigMsg = 20
  MaxErr = 3
  RcptBound = 1
  Alphabet <- MCAlphabet
VIEW View
CHECK_DEADLOCK FALSE
ACTION_CONSTRAINT DumpEdge
