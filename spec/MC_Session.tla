---------------------------- MODULE MC_Session ----------------------------
(* Exhaustive instance of SmtpServer for the plaintext session families     *)
(* (C03 C04 C08 C19): {SMTP, LMTP} x recipient limit {0, 2} x size limit    *)
(* {0, 8} x LMTP backend kind.  Also used to dump the labelled edge graph.  *)
EXTENDS SmtpServer, Json

MCConfigs ==
  { [lmtp |-> l, maxRcpt |-> r, maxBytes |-> b, tlsAvail |-> FALSE, implicitTLS |-> FALSE,
     insecureAuth |-> FALSE, authBackend |-> FALSE, lmtpBackend |-> lb,
     binarymime |-> TRUE, dsn |-> FALSE] :
       l \in BOOLEAN, r \in {0, 2}, b \in {0, 8}, lb \in BOOLEAN }
    \ { c \in [lmtp : BOOLEAN, maxRcpt : {0, 2}, maxBytes : {0, 8}, tlsAvail : {FALSE},
               implicitTLS : {FALSE}, insecureAuth : {FALSE}, authBackend : {FALSE},
               lmtpBackend : BOOLEAN, binarymime : {TRUE}, dsn : {FALSE}] :
            ~c.lmtp /\ c.lmtpBackend }

\* (error counting is the MC_Err family: it multiplies every state by four)
MCAlphabet == {"greet", "mail", "rcpt", "data", "bdat", "simple", "quit", "long", "panic", "cut", "mid"}

\* Edge dump: every generated transition is printed once (VIEW hides `last`).
DumpEdge ==
  PrintT(<<"EDGE", ToJson([cfg |-> cfg, src |-> st, osrc |-> obs, lbl |-> last', dst |-> st', odst |-> obs'])>>)
=============================================================================
