---------------------------- MODULE Trace_Verdict ----------------------------
(* Code -> spec: gated schedules of chunked transfers on the real server     *)
(* (aborted transfers whose backend returns at a harness-chosen later point) *)
(* recorded as events start / begin(t) / abort / close / last / finish(t) /  *)
(* reply(t, verdict); also the late-start schedules, in which the delivery   *)
(* goroutine is held before it calls the backend.                            *)
EXTENDS Verdict, Json

Trace == ndJsonDeserialize("trace.ndjson")
VARIABLE l
Ev == Trace[l]

TInit == l = 1 /\ Init
TReset == /\ Ev.ev = "reset" /\ started' = 0 /\ cur' = 0 /\ chan' = [t \in Transfers |-> <<>>]
          /\ gpc' = [t \in Transfers |-> "none"] /\ waiting' = FALSE /\ reply' = [t \in Transfers |-> 0]
          /\ closed' = FALSE /\ cbs' = <<>>
TStep ==
  /\ l <= Len(Trace) /\ l' = l + 1
  /\ CASE Ev.ev = "reset" -> TReset
       [] Ev.ev = "start" -> Start /\ cur' = Ev.t
       [] Ev.ev = "begin" -> Begin(Ev.t)
       [] Ev.ev = "abort" -> Abort
       [] Ev.ev = "close" -> Close
       [] Ev.ev = "last" -> Last
       [] Ev.ev = "finish" -> Finish(Ev.t) /\ gpc'[Ev.t] = "done"
       [] Ev.ev = "reply" -> Reply /\ reply'[Ev.t] = Ev.v
       [] OTHER -> FALSE
TSpec == TInit /\ [][TStep]_<<vars, l>>
ASSUME TLCSet(1, 0)
HWM == IF l > TLCGet(1) THEN TLCSet(1, l) ELSE TRUE
TraceAccepted == /\ PrintT(<<"HWM", ToString(TLCGet(1))>>) /\ TLCGet(1) = Len(Trace) + 1
=============================================================================
