--------------------------- MODULE Trace_Observer ---------------------------
(***************************************************************************)
(* Observer-level validation of executions whose backend the harness does  *)
(* not control: the repository's own test suite run with the verif tag and *)
(* VERIF_TRACE_FILE.  Only hook events are available (session creation,    *)
(* Reset, Logout, replies, state projections, end of the handler), so the  *)
(* commands themselves are not matched against SmtpServer's actions; what  *)
(* is evaluated at every event is the part of C03/C04/C08/C19 that an      *)
(* observer of exactly these events can state:                             *)
(*  - a session is logged out at most once, and none is live when the      *)
(*    handler ends; nothing at all happens after the end;                  *)
(*  - the envelope (from / number of recipients in the projection) is only *)
(*    ever cleared together with a Reset or Logout signalled to a live     *)
(*    session;                                                             *)
(*  - every 2xx/4xx/5xx reply other than greeting and EHLO carries an      *)
(*    enhanced code of its class (the hook reports code and enhanced code) *)
(*  - the error counter never exceeds the threshold + 1.                   *)
(***************************************************************************)
EXTENDS Naturals, Sequences, FiniteSets, TLC, Json

Trace == ndJsonDeserialize("trace.ndjson")

VARIABLES l,         \* next event
          live,      \* a session object is live
          logouts,   \* logouts of the current session object
          from, nr,  \* last projected envelope
          signalled, \* a Reset/Logout was signalled since the envelope was last seen non-empty
          ended,     \* the handler has ended
          bad        \* "" or a description of the first violation

vars == <<l, live, logouts, from, nr, signalled, ended, bad>>

Init == l = 1 /\ live = FALSE /\ logouts = 0 /\ from = FALSE /\ nr = 0 /\ signalled = FALSE
        /\ ended = FALSE /\ bad = ""

Ev == Trace[l]

Flag(cond, msg) == IF bad = "" /\ cond THEN msg ELSE bad

Step ==
  /\ l <= Len(Trace)
  /\ l' = l + 1
  /\ CASE Ev.ev = "open" ->
            /\ live' = FALSE /\ logouts' = 0 /\ from' = FALSE /\ nr' = 0 /\ signalled' = FALSE
            /\ ended' = FALSE /\ bad' = bad
       [] Ev.ev = "newsession" ->
            /\ bad' = Flag(ended, "NewSession after the handler ended") 
            /\ live' = (Ev.ok \/ live) /\ logouts' = (IF Ev.ok THEN 0 ELSE logouts)
            /\ UNCHANGED <<from, nr, signalled, ended>>
       [] Ev.ev = "logout" ->
            /\ bad' = Flag(~live, "Logout on a session that is not live (second Logout)")
            /\ live' = FALSE /\ logouts' = logouts + 1 /\ signalled' = TRUE
            /\ UNCHANGED <<from, nr, ended>>
       [] Ev.ev = "reset" ->
            /\ bad' = Flag(~live, "Reset on a session that is not live")
            /\ signalled' = TRUE /\ UNCHANGED <<live, logouts, from, nr, ended>>
       [] Ev.ev = "reply" ->
            /\ bad' = IF bad # "" THEN bad
                      ELSE IF ended THEN "reply after the handler ended"
                      ELSE IF ~Ev.exempt /\ Ev.enhclass # Ev.code \div 100
                           THEN "reply without an enhanced code of its class"
                      ELSE ""
            /\ UNCHANGED <<live, logouts, from, nr, signalled, ended>>
       [] Ev.ev = "state" ->
            \* the envelope shrank: only with a Reset/Logout signalled (or no session to tell)
            /\ bad' = Flag(((from /\ ~Ev.from) \/ Ev.rcpts < nr) /\ ~signalled /\ live,
                           "envelope cleared without Reset or Logout")
            /\ from' = Ev.from /\ nr' = Ev.rcpts
            /\ signalled' = (IF Ev.from \/ Ev.rcpts > 0 THEN FALSE ELSE signalled)
            /\ UNCHANGED <<live, logouts, ended>>
       [] Ev.ev = "end" ->
            /\ bad' = Flag(live, "handler ended with a live session (no Logout)")
            /\ ended' = TRUE /\ UNCHANGED <<live, logouts, from, nr, signalled>>
       [] OTHER -> UNCHANGED <<live, logouts, from, nr, signalled, ended, bad>>

Spec == Init /\ [][Step]_vars

NoViolation == bad = ""
Consumed == l = Len(Trace) + 1 => PrintT(<<"OBSERVED", ToString(Len(Trace))>>)
=============================================================================
