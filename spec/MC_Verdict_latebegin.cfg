SPECIFICATION Spec
CONSTANTS
  Transfers = {1, 2, 3}
  Deviation = FALSE
  LateBegin = TRUE
INVARIANTS OwnVerdict NoGoroutineBlocked C03_NoBeginAfterReset C08_NoBeginAfterLogout
PROPERTIES WaitEnds
