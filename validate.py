#!/opt/veriftools/pyvenv/bin/python3
import json, jsonschema, sys, glob
m = json.load(open('/verif/MANIFEST.json'))
jsonschema.validate(m, json.load(open('/root/.vp/MANIFEST.schema.json')))
print('manifest ok:', len(m['checks']), 'checks,', len(m.get('not_applicable', [])), 'n/a')
es = json.load(open('/root/.vp/EVIDENCE.schema.json'))
for f in sorted(glob.glob('/verif/evidence/*.json')):
    e = json.load(open(f))
    jsonschema.validate(e, es)
    c = e['coverage']
    print(f.split('/')[-1], e['tier'], e['level'], 'states', c.get('states'), 'traces', c.get('traces_validated_against_impl'), 'wall', round(e['wall_s'],1), 'viol', e.get('violations'))
ids = {c['property_id'] for c in m['checks']} | {c['property_id'] for c in m.get('not_applicable', [])}
allp = {json.loads(l)['id'] for l in open('/verif/properties.jsonl')}
print('unclaimed and not listed n/a:', sorted(allp - ids))
