#!/usr/bin/env python3
# Generates /verif/MANIFEST.json from the table below (kept in one place so it stays valid).
import json, subprocess
hooks_commit = "2c6dcc2"
SESS = "TLA+ model checking (TLC) of SmtpServer.tla + transition-tour replay of every edge on the real server + TLC trace validation of recorded random walks"
checks = {
 "C01": ("datastream", "TLC proves the declarative RFC definition and the operational six-state automaton of DataStream.tla equal for all class streams up to the bound; the real dataReader is then driven on every class stream x read size x segmentation with the TLC-dumped automaton as oracle",
         "layer equality is bounded (length 9 quick / 11 thorough); the automaton is the oracle for longer random streams; table interpreter cross-checked against TLC's own runs",
         "TLA+ two-layer equivalence (TLC) + automaton-driven conformance sweep of the real reader"),
 "C02": ("datastream+session", "DataStream.tla: TLC proves end-of-data is reported exactly at the first CRLF.CRLF (or leading .CRLF) and nowhere else, for all class streams up to the bound; the real reader is swept for the end position; end to end, messages built from every short class stream plus bait command lines and every terminator look-alike are sent with marker commands pipelined behind them under backend behaviours {read all, part, none} x {accept, reject} x limit {none, below, at, above} x {SMTP, LMTP, LMTP per-recipient} x three segmentations; the recorded conversations are validated by TLC against SmtpServer.tla (reply structure) and the harness checks that the command after the marker is exactly the next one executed and no bait line reaches the backend",
         "templates are cut at their FIRST end marker as computed by the TLC-dumped automaton; combos are sampled round-robin over the templates, not the full product",
         "TLA+ model checking (TLC) + automaton-driven sweep + TLC trace validation of end-to-end conversations"),
 "C03": ("session", "TLC checks the transaction-order invariants and step properties on the complete bounded state graph of SmtpServer.tla (12 configurations); every transition is executed on the real server (replies, callbacks, projected state compared) and recorded random walks are validated by TLC against the specification",
         "bounded instance (<=3 recipients, chunk sizes {0,6}, error threshold 3); one concrete line per abstract command; TLC, concretisation tables and in-memory transport trusted", SESS),
 "C05": ("session", "SmtpServer.tla models BDAT with the declared size as a parameter, refusal paths that discard the chunk, and failing backends with an octet budget (fail at once / after 1 / after 4 octets / at the end / panic); TLC checks the step properties; every BDAT edge of two instances (sizes {0,6,12} and {0,3,6,12} against limit 8) is replayed; random chunked conversations (sizes 0..11 and 260, up to 4 chunks, LAST on empty or non-empty chunk or missing, refusal states, malformed arguments, over the limit) with payloads made of CRLF.CRLF runs, command look-alikes, NUL/8-bit octets and LF-free runs longer than the line limit are recorded lock-step and validated by TLC with the exact sizes, the backend's octets are compared with the concatenation of the payloads, and each conversation is re-run in one write, in random segments and with line and payload split octet by octet, which must give identical replies and callbacks",
         "chunked conversations are sampled (300 quick / 5000 thorough); a BDAT whose size argument is unparsable cannot be framed by anyone and is modelled as the code treats it",
         SESS),
 "C06": ("datastream+session", "DataStream.tla with a budget (TLC: never more than N, failure only when longer, a fitting message handled as without limit); reader sweep over budgets; end-to-end sizes N-2..N+2 around three limits via DATA in SMTP and LMTP; SIZE= and over-limit BDAT edges of the session graph replayed",
         "limits {4,5,9} end to end, budgets 1..12 at reader level, limit 8 with chunk sizes {0,6} in the session graph",
         "TLA+ model checking (TLC) + automaton-driven sweep + session-graph edge replay"),
 "C04": ("session", "TLC checks reply-count and enhanced-code properties on the whole bounded graph; every edge is replayed lock-step with a strict RFC 5321 4.2 reply parser; random paths of the graph are re-sent fully pipelined (one segment) and in random segmentations and the complete reply stream and callback sequence compared; recorded walks validated by TLC; a server that stops replying is reported when a goroutine dump proves the handler blocked inside the library",
         "verdict attribution under slow deliveries of aborted transfers (schedules) is the Bdat.tla family; reply text is checked for syntax and, for LMTP, the recipient prefix", SESS),
 "C07": ("session+datastream", "SmtpServer.tla has explicit cut actions (disconnect inside a DATA message / inside a BDAT chunk) and abandon actions (RSET, QUIT, EHLO, MAIL during a transfer); TLC checks that no cut step has a positive reply or an end-of-file at the backend; every such edge is replayed, and whole conversations are cut at EVERY octet offset with the expected outcome looked up in the graph; the real reader is also run on every truncated class stream",
         "cut = half-close by the peer; idle timeout and Server.Close variants belong to the lifecycle family (C20); backends in the cut corpus propagate reader errors",
         "TLA+ model checking (TLC) + edge replay + exhaustive cut-point sweep with graph-lookup oracle"),
 "C08": ("session", "TLC checks at-most-one Logout, all sessions logged out at close, nothing after close, no callback on a logged-out session; every closing edge (QUIT, 4th error, over-long line, backend panic, EOF, cuts) is replayed with three commands pipelined behind it; STARTTLS Logout edges on the TLS family; conversations cut at every octet with a goroutine census after each; recorded walks validated by TLC",
         "Logout under concurrent Server.Close and the BDAT 0 + QUIT delivery window are in the lifecycle/Bdat families (C20)", SESS),
 "C09": ("session", "Server half: SmtpServer.tla instance over TLS {none, STARTTLS, implicit} x AllowInsecureAuth x backend {auth, no auth}; TLC checks the AUTH step properties; all edges replayed with a recording SASL mechanism (octets compared); recorded walks validated by TLC",
         "client half (Client.Auth) is covered by the Client.tla family once built; exchanges of up to 2 challenges; one representative per response class plus binary octets", SESS),
 "C10": ("session", "Server half: every pre-STARTTLS history class of the bounded model (greeted, authenticated, mid-transaction, mid-BDAT) x {clean, plaintext injected behind the command}; real TLS handshakes over the in-memory pipe; Logout/NewSession/TLS state compared per edge; walks validated by TLC",
         "client half (DialStartTLS/SendMail) is covered by the Client.tla family once built", SESS),
 "C12": ("caps", "Caps.tla defines the advertised capability set and the outcome of every probe command/parameter as functions of the configuration and the TLS state, and TLC checks on the complete configuration space (3072 states) that everything advertised is honoured and everything disabled is refused; TLC dumps the expected capability set and probe outcomes per configuration and a real server is started for each of them (TLS active both via STARTTLS and as implicit TLS: 4096 servers), greeted with HELO and EHLO/LHLO and probed with 15 commands/parameters",
         "limits use N = 7; REQUIRETLS accepted on plaintext when enabled is modelled as the code does it and not judged",
         "TLA+ exhaustive enumeration of the configuration space (TLC) + one real server per configuration compared with the dumped expectation"),
 "C13": ("lmtp", "Lmtp.tla models the status collector as the code builds it (one bounded channel per distinct address, capacity = multiplicity) with the backend as a nondeterministic program running concurrently with the emitter; TLC checks for every recipient list up to the bound, every program within the contract and every interleaving that each reply carries the right status, channels never overflow, no deadlock, termination; every recipient list x program x status timing (before/after consuming the message) x return {nil, error, panic} is then run on the real LMTP server via DATA, BDAT LAST in one and two chunks, a backend failing inside the LAST chunk, and plain backends, and the recorded reply sequences are judged by TLC against Lmtp!Expected; replies must name their recipient; a final response that never completes is reported when the handler is proven blocked",
         "recipient lists up to 3 (quick) / 4 (thorough) over two addresses; backend programs stay within the documented contract",
         "TLA+ model checking (TLC, safety + liveness) + exhaustive program enumeration on the real server judged by TLC"),
 "C15": ("clientcmd", "ClientCmd.tla defines, for every subset of the extensions the client looks at, every subset/variant of the MailOptions/RcptOptions fields and every class of address argument, whether Mail/Rcpt fail locally or which parameter keys the single line they write carries; TLC checks on all 56736 combinations that only negotiated parameters are written, that a requested REQUIRETLS/SMTPUTF8 is never dropped, that an argument that would split the line is a local error and that a local error writes nothing; TLC dumps the expected result per combination and the real client is driven against a scripted fake server that advertises the subset (one third after a re-greeting whose first EHLO advertised the complement) and records every octet; every string up to length 3 (quick) / 4 (thorough) over {CR, LF, NUL, SP, '<', '>', 'a'} is passed in every string-typed argument and the octets written must form at most one line",
         "quick: every fifth MAIL combination (rotating with VERIF_SEED) and all RCPT combinations; thorough: all",
         "TLA+ exhaustive enumeration (TLC) + real client driven per combination against a recording fake server"),
 "C16": ("dotenc", "DotEnc.tla defines the client's dot-encoding and Normalize over body tokens {'.', bare LF, CRLF, other}; TLC proves for every body up to the bound that the server-side declarative reader (DataStream.tla) recovers Normalize(body) from DotEncode(body) and that the first end marker is the client's own; every body up to length 5 (quick) / 7 (thorough) plus random longer ones is written through the real client in three Write partitions to a real server (SMTP and LMTP, accepting and rejecting) and the octet classes the backend read are judged by TLC against Normalize; envelope, the identity of the other octets, Close's verdict, the error of a second Close and the undisturbed next command are checked by the harness",
         "CR occurs only inside CRLF in the generated bodies, as the property assumes",
         "TLA+ encode/decode theorem (TLC) + recorded client-to-server transfers judged by TLC"),
 "C17": ("reply", "Reply.tla defines Format (what the server writes for an error: enhanced code on every line, X.0.0 when unset, none when explicitly absent) and Parse (what the go-smtp client recovers) over a token alphabet {ASCII word, non-ASCII word, enhanced-code look-alike, space}; TLC proves Parse(Format(e)) = Norm(e) for every message up to the bound except the shapes that are ambiguous on the wire by construction; a scripted backend then returns each error shape from each of the four callbacks, the raw reply is tokenised and the real client's *SMTPError recorded, and TLC judges wire form and client result per case; codes, concrete enhanced code values, exact text and the generic 451/554 mapping are compared by the harness",
         "token shapes up to 3 tokens x 2 lines (quick) / 3 lines (thorough); adjacent words are not a distinct shape",
         "TLA+ round-trip theorem (TLC) + recorded server/client results judged by TLC"),
 "C18": ("lmtpclient", "LmtpClient.tla models the client's recipient list over several transactions (MAIL starts it afresh, RCPT appends when accepted, Close reads one reply per listed recipient); TLC checks that Close reads exactly what the server owes and reports this transaction's recipients; the real LMTP client is driven against the real LMTP server through 1..3 transactions with verdict vectors over {250,450,550}, recipients refused at RCPT, Reset in between, with and without status callback, and every Close result (callback sequence, returned error) is judged by TLC against the declarative definitions; a Close that waits for replies that never come is caught by a short SubmissionTimeout",
         "recipients per transaction up to 2 (quick) / 3 (thorough)",
         "TLA+ model checking (TLC) + recorded client results judged by TLC"),
 "C19": ("limiter+session", "Limiter.tla: TLC checks, for every stream, segmentation and buffer refill pattern up to the bound, that the line reader's results are the declarative ones (lines split at LF, refusal at the first line longer than the limit, unterminated tails never executed) and that unparsed input held is bounded by limit+buffer; on the real server, line lengths limit-2..limit+3 in five positions of a conversation x three segmentations are recorded and judged by TLC (Trace_Limiter); every BAD/LONG edge of the session graph (error threshold, close, also inside an AUTH exchange) is replayed; all short strings over {NUL,CR,SP,A,':',0xFF} and seeded random binary lines are sent pipelined and their traces validated by TLC against SmtpServer.tla; an endless line must close the connection after a bounded number of octets; the error log must stay free of recovered panics",
         "Limiter.tla is checked with a scaled-down buffer; the declarative result does not depend on the buffer size; hostile lines are mapped to BAD variants by a classifier mirroring parseCmd; heap is not measured, octets consumed before closing are",
         "TLA+ model checking (TLC) + TLC-judged recorded cases + edge replay + trace validation"),
}
order = sorted(checks)
out_checks = []
for pid in order:
    eng, text, note, tech = checks[pid]
    out_checks.append({
        "property_id": pid,
        "quick_cmd": "./check %s --tier quick" % pid,
        "thorough_cmd": "./check %s --tier thorough" % pid,
        "evidence_file": "/verif/evidence/%s.json" % pid,
        "replay_cmd_template": "./check --replay {path}",
        "engine": eng,
        "level_claimed": {"category": "model_checking", "text": text, "design_ref": "DESIGN.md section 4, " + pid},
        "level_note": note,
        "technique": tech,
    })
allp = [json.loads(l)["id"] for l in open("/verif/properties.jsonl")]
na = [{"property_id": p, "reason": "check under construction in this session (planned in DESIGN.md section 4); not claimed until it runs clean"} for p in allp if p not in checks]
m = {
 "version": 1,
 "setup_cmd": "cd /verif/harness && export GOFLAGS=-mod=mod GOPROXY=off GOSUMDB=off GOTOOLCHAIN=local && cp /repo/go.sum go.sum && go build -tags verif -o /dev/null ./cmd/verif && (tlc -h >/dev/null 2>&1; true)",
 "hooks": {"guard": "verif", "enable": "go build -tags verif (the harness module replaces github.com/emersion/go-smtp by /repo)",
           "baseline_off_cmd": "cd /repo && GOFLAGS=-mod=mod GOPROXY=off GOSUMDB=off GOTOOLCHAIN=local go test -json -vet=off -count=1 -timeout 25m ./...",
           "source_commits": [hooks_commit], "add_only": True},
 "engines": [
  {"name": "session", "path": "spec/SmtpServer.tla spec/Trace_SmtpServer.tla harness/sessrep", "serves_properties": ["C03","C04","C08","C09","C10","C19"], "kind_free_text": "TLA+ model of the command loop; TLC exhaustive check + edge dump replayed on the real server; TLC trace validation of recorded walks"},
  {"name": "datastream", "path": "spec/DataStream.tla harness/datarep", "serves_properties": ["C01","C02","C06","C07","C16"], "kind_free_text": "two-layer TLA+ model of the DATA transducer; TLC equivalence; automaton-driven sweep of the real reader"},
 ],
 "checks": out_checks,
 "not_applicable": na,
 "notes": "Every check rebuilds the harness against /repo's working tree with -tags verif (./check). Exit 0 = held, 1 = VIOLATION line, 2 = inconclusive (machinery trouble is never reported as a violation). Known findings and fixed defects: known_findings.json.",
}
json.dump(m, open("/verif/MANIFEST.json", "w"), indent=1)
print("wrote MANIFEST.json with", len(out_checks), "checks,", len(na), "n/a")
