// Package tlcrun runs TLC on a module of /verif/spec in a scratch copy and
// parses its summary and the tagged tuples the specification prints.
package tlcrun

import (
	"bufio"
	"bytes"
	"fmt"
	"os"
	"os/exec"
	"path/filepath"
	"regexp"
	"strconv"
	"strings"
	"time"
)

// VerifDir is the root of the verification tree.
func VerifDir() string {
	if d := os.Getenv("VERIF_DIR"); d != "" {
		return d
	}
	return "/verif"
}

type Result struct {
	Generated int64
	Distinct  int64
	Depth     int
	OK        bool   // "Model checking completed. No error has been found." / simulation finished
	Violation string // first "Error:" paragraph if any
	Tagged    map[string][]string
	Output    string
	Wall      float64
	Cmd       string
}

type Opts struct {
	Workers  int
	Timeout  time.Duration
	Extra    []string          // extra TLC args
	Files    map[string][]byte // extra files placed in the scratch dir
	JavaOpts string
	Tags     []string // tags of printed tuples to collect
}

var (
	reStates = regexp.MustCompile(`(\d+) states generated, (\d+) distinct states found`)
	reDepth  = regexp.MustCompile(`depth of the complete state graph search is (\d+)`)
)

// Run executes TLC.
func Run(module, cfg string, o Opts) (*Result, error) {
	spec := filepath.Join(VerifDir(), "spec")
	tmp, err := os.MkdirTemp("", "veriftlc")
	if err != nil {
		return nil, err
	}
	defer os.RemoveAll(tmp)
	ents, err := os.ReadDir(spec)
	if err != nil {
		return nil, err
	}
	for _, e := range ents {
		n := e.Name()
		if strings.HasSuffix(n, ".tla") || strings.HasSuffix(n, ".cfg") {
			b, err := os.ReadFile(filepath.Join(spec, n))
			if err != nil {
				return nil, err
			}
			if err := os.WriteFile(filepath.Join(tmp, n), b, 0o644); err != nil {
				return nil, err
			}
		}
	}
	for n, b := range o.Files {
		if err := os.WriteFile(filepath.Join(tmp, n), b, 0o644); err != nil {
			return nil, err
		}
	}
	if o.Workers <= 0 {
		o.Workers = 1
	}
	if o.Timeout == 0 {
		o.Timeout = 20 * time.Minute
	}
	args := []string{fmt.Sprint(int(o.Timeout.Seconds())), "tlc", "-workers", fmt.Sprint(o.Workers), "-metadir", filepath.Join(tmp, "states"), "-config", cfg}
	args = append(args, o.Extra...)
	args = append(args, module)
	cmd := exec.Command("timeout", args...)
	cmd.Dir = tmp
	cmd.Env = os.Environ()
	if o.JavaOpts != "" {
		cmd.Env = append(cmd.Env, "JAVA_TOOL_OPTIONS="+o.JavaOpts)
	}
	var out bytes.Buffer
	cmd.Stdout = &out
	cmd.Stderr = &out
	t0 := time.Now()
	runErr := cmd.Run()
	res := &Result{Tagged: map[string][]string{}, Wall: time.Since(t0).Seconds(), Cmd: "tlc " + strings.Join(args[2:], " ")}
	want := map[string]bool{}
	for _, t := range o.Tags {
		want[t] = true
	}
	var keep strings.Builder
	sc := bufio.NewScanner(&out)
	sc.Buffer(make([]byte, 1<<20), 1<<28)
	pendingTag := ""
	for sc.Scan() {
		line := sc.Text()
		// TLC wraps some long tuples:  << "TAG",\n   "payload" >>
		if pendingTag != "" {
			t := strings.TrimSpace(line)
			if strings.HasPrefix(t, `"`) && strings.HasSuffix(t, `" >>`) {
				s, err := strconv.Unquote(t[:len(t)-3])
				if err != nil {
					return nil, fmt.Errorf("cannot unquote wrapped TLC tuple payload: %v: %.200s", err, t)
				}
				res.Tagged[pendingTag] = append(res.Tagged[pendingTag], s)
				pendingTag = ""
				continue
			}
			pendingTag = ""
		}
		if strings.HasPrefix(line, `<< "`) && strings.HasSuffix(line, `",`) {
			tag := line[4 : len(line)-2]
			if want[tag] {
				pendingTag = tag
				continue
			}
		}
		if strings.HasPrefix(line, `<<"`) {
			// <<"TAG", "payload">>
			rest := line[3:]
			if i := strings.Index(rest, `", "`); i > 0 && strings.HasSuffix(rest, `">>`) {
				tag := rest[:i]
				if want[tag] {
					q := rest[i+3 : len(rest)-2]
					s, err := strconv.Unquote(q)
					if err != nil {
						return nil, fmt.Errorf("cannot unquote TLC tuple payload: %v: %.200s", err, q)
					}
					res.Tagged[tag] = append(res.Tagged[tag], s)
					continue
				}
			}
		}
		if keep.Len() < 1<<20 {
			keep.WriteString(line)
			keep.WriteByte('\n')
		}
		if m := reStates.FindStringSubmatch(line); m != nil {
			res.Generated, _ = strconv.ParseInt(m[1], 10, 64)
			res.Distinct, _ = strconv.ParseInt(m[2], 10, 64)
		}
		if m := reDepth.FindStringSubmatch(line); m != nil {
			res.Depth, _ = strconv.Atoi(m[1])
		}
		if strings.Contains(line, "No error has been found") {
			res.OK = true
		}
		if strings.HasPrefix(line, "Error:") && res.Violation == "" {
			res.Violation = line
		}
	}
	res.Output = keep.String()
	if runErr != nil && res.Violation == "" && !res.OK {
		return res, fmt.Errorf("tlc failed: %v\n%s", runErr, tail(res.Output, 3000))
	}
	return res, nil
}

func tail(s string, n int) string {
	if len(s) > n {
		return s[len(s)-n:]
	}
	return s
}
