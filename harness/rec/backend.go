// Package rec is the recording, scripted backend: every callback of the
// go-smtp Backend/Session/AuthSession/LMTPSession API is logged with its
// session identity, arguments, octets read and result, and every decision
// (accept/reject, how much to read, when to return) is taken from a script the
// harness installs before the step. Properties are stated on this API, so this
// log is the primary observation channel of the conformance checks.
package rec

import (
	"bytes"
	"errors"
	"fmt"
	"io"
	"runtime"
	"strconv"
	"strings"
	"sync"

	sasl "github.com/emersion/go-sasl"
	smtp "github.com/emersion/go-smtp"
)

// Call is one logged callback (Data/LMTPData are logged twice: begin and end).
type Call struct {
	Seq      int
	Sess     int    // session number, 1-based in creation order; 0 = NewSession failed
	Name     string // NewSession Mail Rcpt Data LMTPData Reset Logout Auth SASLNext AuthMechanisms
	Phase    string // "", "begin", "end"
	Xfer     int    // transfer number for Data/LMTPData
	From, To string
	MailOpts *smtp.MailOptions
	RcptOpts *smtp.RcptOptions
	Hostname string
	TLS      bool
	Data     []byte // Data end: octets read; SASLNext: response octets
	NilData  bool   // SASLNext: response was nil
	ReadErr  string // Data end: terminal read result: "EOF", "" (stopped reading) or error text
	Err      string // returned error ("" = nil)
	Mech     string
}

func (c Call) Short() string {
	s := fmt.Sprintf("s%d.%s", c.Sess, c.Name)
	if c.Phase != "" {
		s += "." + c.Phase
	}
	switch c.Name {
	case "Mail":
		s += "(" + c.From + ")"
	case "Rcpt":
		s += "(" + c.To + ")"
	}
	if c.Phase == "end" {
		s += fmt.Sprintf("[%d octets,%s]", len(c.Data), c.ReadErr)
	}
	if c.Err != "" {
		s += "!" + c.Err
	}
	return s
}

const (
	ReadAll = iota
	ReadK
	ReadNone
)

// StatusOp is one SetStatus call of an LMTP per-recipient backend program.
type StatusOp struct {
	Addr  string
	Err   error
	After bool // issue after the message has been consumed (else before)
}

// DataPlan scripts one Data/LMTPData callback.
type DataPlan struct {
	ReadMode int
	K        int
	Buf      int   // read buffer size (default 4096)
	Err      error // verdict returned
	// Propagate: when the reader fails with a non-EOF error, return that error
	// instead of Err (what a well-behaved backend does).
	Propagate bool
	// Gates: names of harness gates to wait on (""=none).
	GateBegin  string
	GateReturn string
	Status     []StatusOp
	Panic      bool // panic instead of returning
	PanicEarly bool // panic before reading
	// ReadOn: a backend that goes on reading after a reader error (as one that
	// drains r before returning does): everything it is handed is recorded, the
	// reader result stays that of the FIRST failure, "+EOF" appended if the
	// reader later reports end-of-file after all
	ReadOn bool
}

// ClearScript drops every pending scripted decision.
func (b *Backend) ClearScript() {
	b.mu.Lock()
	defer b.mu.Unlock()
	b.NewSessionErrs, b.MailErrs, b.RcptErrs, b.DataPlans, b.AuthPlans = nil, nil, nil, nil, nil
	b.PanicIn = ""
	b.AuthErr = nil
}

// AuthStep scripts one sasl.Server.Next call.
type AuthStep struct {
	Challenge []byte
	Done      bool
	Err       error
}

type Backend struct {
	mu    sync.Mutex
	cond  *sync.Cond
	calls []Call
	nsess int
	nxfer int
	busy  int                // Data callbacks in flight
	inRd  int                // of those, how many are inside r.Read right now
	rdG   map[int64]int      // goroutine ids currently inside r.Read
	begun map[*smtp.Conn]int // Data/LMTPData callbacks begun, per connection

	// Static shape of the sessions handed out.
	AuthCapable bool
	LMTPCapable bool
	Mechs       []string

	// Script for the next callbacks: one queue per callback kind, consumed in
	// call order; an empty queue means "accept".
	NewSessionErrs   []error
	MailErrs         []error
	RcptErrs         []error
	NewSessionGate   string     // gate NewSession waits at before it returns its session
	LogoutGate       string     // gate Logout waits at before it returns (a slow Logout)
	NewSessionReject bool       // NewSession calls Conn.Reject and returns a session nevertheless
	PanicIn          string     // "Mail", "Rcpt", "NewSession": the next such call panics (one shot)
	DataPlans        []DataPlan // consumed in order by Data begin; default plan when empty
	DefaultPlan      DataPlan
	AuthErr          error        // returned by Auth(mech)
	AuthPlans        [][]AuthStep // one plan per Auth(mech) call; default: done at once

	gates map[string]chan struct{}
	// Waiting lists the gates some callback is currently blocked on.
	waiting map[string]int
}

func New() *Backend {
	b := &Backend{gates: map[string]chan struct{}{}, waiting: map[string]int{}, Mechs: []string{"PLAIN"}}
	b.cond = sync.NewCond(&b.mu)
	return b
}

// ---- harness side ----

func (b *Backend) Lock()   { b.mu.Lock() }
func (b *Backend) Unlock() { b.mu.Unlock() }

// Calls returns a copy of the log.
func (b *Backend) Calls() []Call {
	b.mu.Lock()
	defer b.mu.Unlock()
	return append([]Call(nil), b.calls...)
}

// Since returns the calls logged at index >= n.
func (b *Backend) Since(n int) []Call {
	b.mu.Lock()
	defer b.mu.Unlock()
	if n > len(b.calls) {
		n = len(b.calls)
	}
	return append([]Call(nil), b.calls[n:]...)
}

// DebugState describes the in-flight callbacks.
func (b *Backend) DebugState() string {
	b.mu.Lock()
	defer b.mu.Unlock()
	return fmt.Sprintf("busy=%d inRead=%d waiting=%v plans=%d", b.busy, b.inRd, b.waiting, len(b.DataPlans))
}

// NumSessions is the number of sessions created so far.
func (b *Backend) NumSessions() int {
	b.mu.Lock()
	defer b.mu.Unlock()
	return b.nsess
}

func (b *Backend) NumCalls() int {
	b.mu.Lock()
	defer b.mu.Unlock()
	return len(b.calls)
}

// Busy is the number of Data/LMTPData callbacks in flight that are not parked
// at a gate. Must not be called with the lock held.
func (b *Backend) Busy() int {
	b.mu.Lock()
	defer b.mu.Unlock()
	return b.busyLocked()
}

func (b *Backend) busyLocked() int {
	w := 0
	for _, n := range b.waiting {
		w += n
	}
	return b.busy - w
}

// Quiet reports that no scripted callback can make progress without new
// input: every Data callback in flight is parked at a gate or blocked inside
// its reader (checked on a goroutine dump, so a reader that has been woken up
// but has not run yet does not count as blocked). It is used inside
// pipe.WaitIdle's extra predicate (which runs under the pipe lock, not this
// lock).
func (b *Backend) Quiet() bool {
	b.mu.Lock()
	active := b.busyLocked()
	inRd := b.inRd
	ids := make(map[int64]bool, len(b.rdG))
	for g := range b.rdG {
		ids[g] = true
	}
	b.mu.Unlock()
	if active == 0 {
		return true
	}
	if active > inRd {
		return false
	}
	return readersBlocked(ids)
}

func curGID() int64 {
	var buf [64]byte
	n := runtime.Stack(buf[:], false)
	// "goroutine 123 ["
	f := bytes.Fields(buf[:n])
	if len(f) < 2 {
		return 0
	}
	id, _ := strconv.ParseInt(string(f[1]), 10, 64)
	return id
}

var stackBuf = make([]byte, 4<<20)
var stackMu sync.Mutex

func readersBlocked(ids map[int64]bool) bool {
	stackMu.Lock()
	defer stackMu.Unlock()
	n := runtime.Stack(stackBuf, true)
	dump := stackBuf[:n]
	for len(dump) > 0 {
		end := bytes.Index(dump, []byte("\n\n"))
		var g []byte
		if end < 0 {
			g, dump = dump, nil
		} else {
			g, dump = dump[:end], dump[end+2:]
		}
		if !bytes.HasPrefix(g, []byte("goroutine ")) {
			continue
		}
		sp := bytes.IndexByte(g[10:], ' ')
		if sp < 0 {
			continue
		}
		id, _ := strconv.ParseInt(string(g[10:10+sp]), 10, 64)
		if !ids[id] {
			continue
		}
		// goroutine 12 [select]:  /  [sync.Cond.Wait, 2 minutes]:
		i := bytes.IndexByte(g, '[')
		j := bytes.IndexByte(g, ']')
		if i < 0 || j < i {
			return false
		}
		state := string(g[i+1 : j])
		if k := strings.IndexByte(state, ','); k >= 0 {
			state = state[:k]
		}
		switch state {
		case "select", "sync.Cond.Wait", "chan receive", "IO wait":
		default:
			return false
		}
	}
	return true
}

// InFlight is the number of Data callbacks that have begun and not ended.
func (b *Backend) InFlight() int {
	b.mu.Lock()
	defer b.mu.Unlock()
	return b.busy
}

// Hold creates (closed=false) a gate that callbacks naming it will block on.
func (b *Backend) Hold(name string) {
	b.mu.Lock()
	defer b.mu.Unlock()
	if _, ok := b.gates[name]; !ok {
		b.gates[name] = make(chan struct{})
	}
}

// Release opens a gate.
func (b *Backend) Release(name string) {
	b.mu.Lock()
	defer b.mu.Unlock()
	if ch, ok := b.gates[name]; ok {
		close(ch)
		delete(b.gates, name)
	}
}

// ReleaseAll opens every gate.
func (b *Backend) ReleaseAll() {
	b.mu.Lock()
	defer b.mu.Unlock()
	for n, ch := range b.gates {
		close(ch)
		delete(b.gates, n)
	}
}

// WaitParked waits until some callback is parked on gate name.
func (b *Backend) WaitParked(name string) {
	b.mu.Lock()
	defer b.mu.Unlock()
	for b.waiting[name] == 0 {
		b.cond.Wait()
	}
}

// Parked reports how many callbacks are parked on the gate.
func (b *Backend) Parked(name string) int {
	b.mu.Lock()
	defer b.mu.Unlock()
	return b.waiting[name]
}

func (b *Backend) gate(name string) {
	if name == "" {
		return
	}
	b.mu.Lock()
	ch, ok := b.gates[name]
	if !ok {
		b.mu.Unlock()
		return
	}
	b.waiting[name]++
	b.cond.Broadcast()
	b.mu.Unlock()
	<-ch
	b.mu.Lock()
	b.waiting[name]--
	b.cond.Broadcast()
	b.mu.Unlock()
}

func (b *Backend) log(c Call) int {
	c.Seq = len(b.calls)
	b.calls = append(b.calls, c)
	b.cond.Broadcast()
	return c.Seq
}

func errStr(err error) string {
	if err == nil {
		return ""
	}
	if se, ok := err.(*smtp.SMTPError); ok {
		return fmt.Sprintf("SMTP %d %v %q", se.Code, se.EnhancedCode, se.Message)
	}
	return err.Error()
}

// ---- smtp.Backend ----

func (b *Backend) NewSession(c *smtp.Conn) (smtp.Session, error) {
	b.mu.Lock()
	_, isTLS := c.TLSConnectionState()
	host := c.Hostname()
	if b.PanicIn == "NewSession" {
		b.PanicIn = ""
		b.log(Call{Name: "NewSession", Hostname: host, TLS: isTLS, Err: "panic"})
		b.mu.Unlock()
		panic("scripted panic in NewSession")
	}
	var nserr error
	if len(b.NewSessionErrs) > 0 {
		nserr = b.NewSessionErrs[0]
		b.NewSessionErrs = b.NewSessionErrs[1:]
	}
	if err := nserr; err != nil {
		b.log(Call{Name: "NewSession", Hostname: host, TLS: isTLS, Err: errStr(err)})
		b.mu.Unlock()
		return nil, err
	}
	b.nsess++
	s := &sess{b: b, id: b.nsess, conn: c}
	if b.begun == nil {
		b.begun = map[*smtp.Conn]int{}
	}
	if _, ok := b.begun[c]; !ok {
		b.begun[c] = 0
	}
	b.log(Call{Name: "NewSession", Sess: s.id, Hostname: host, TLS: isTLS})
	auth, lmtp := b.AuthCapable, b.LMTPCapable
	ng, rej := b.NewSessionGate, b.NewSessionReject
	b.mu.Unlock()
	if rej {
		c.Reject() // the backend turns the connection away itself ... and returns a session all the same
	}
	b.gate(ng) // (a slow NewSession: the harness decides when it returns)
	switch {
	case auth && lmtp:
		return &sessAL{sessA{s}}, nil
	case auth:
		return &sessA{s}, nil
	case lmtp:
		return &sessL{s}, nil
	}
	return s, nil
}

type sess struct {
	b    *Backend
	id   int
	conn *smtp.Conn
}

// Begun returns how many Data/LMTPData callbacks have begun on sessions of
// connection c, and whether c has had a session of this backend at all.
func (b *Backend) Begun(c *smtp.Conn) (int, bool) {
	b.mu.Lock()
	defer b.mu.Unlock()
	n, ok := b.begun[c]
	return n, ok
}

func (s *sess) Reset() {
	s.b.mu.Lock()
	s.b.log(Call{Name: "Reset", Sess: s.id})
	if s.b.PanicIn == "Reset" {
		s.b.PanicIn = ""
		s.b.mu.Unlock()
		panic("scripted panic in Reset")
	}
	s.b.mu.Unlock()
}

func (s *sess) Logout() error {
	s.b.mu.Lock()
	s.b.log(Call{Name: "Logout", Sess: s.id})
	if s.b.PanicIn == "Logout" {
		s.b.PanicIn = ""
		s.b.mu.Unlock()
		panic("scripted panic in Logout")
	}
	lg := s.b.LogoutGate
	s.b.mu.Unlock()
	s.b.gate(lg)
	return nil
}

func cloneMailOpts(o *smtp.MailOptions) *smtp.MailOptions {
	if o == nil {
		return nil
	}
	c := *o
	if o.Auth != nil {
		a := *o.Auth
		c.Auth = &a
	}
	return &c
}

func cloneRcptOpts(o *smtp.RcptOptions) *smtp.RcptOptions {
	if o == nil {
		return nil
	}
	c := *o
	if o.Notify != nil {
		c.Notify = append([]smtp.DSNNotify{}, o.Notify...)
	}
	return &c
}

func (s *sess) Mail(from string, opts *smtp.MailOptions) error {
	s.b.mu.Lock()
	if s.b.PanicIn == "Mail" {
		s.b.PanicIn = ""
		s.b.log(Call{Name: "Mail", Sess: s.id, From: from, MailOpts: cloneMailOpts(opts), Err: "panic"})
		s.b.mu.Unlock()
		panic("scripted panic in Mail")
	}
	var err error
	if len(s.b.MailErrs) > 0 {
		err = s.b.MailErrs[0]
		s.b.MailErrs = s.b.MailErrs[1:]
	}
	s.b.log(Call{Name: "Mail", Sess: s.id, From: from, MailOpts: cloneMailOpts(opts), Err: errStr(err)})
	s.b.mu.Unlock()
	return err
}

func (s *sess) Rcpt(to string, opts *smtp.RcptOptions) error {
	s.b.mu.Lock()
	if s.b.PanicIn == "Rcpt" {
		s.b.PanicIn = ""
		s.b.log(Call{Name: "Rcpt", Sess: s.id, To: to, RcptOpts: cloneRcptOpts(opts), Err: "panic"})
		s.b.mu.Unlock()
		panic("scripted panic in Rcpt")
	}
	var err error
	if len(s.b.RcptErrs) > 0 {
		err = s.b.RcptErrs[0]
		s.b.RcptErrs = s.b.RcptErrs[1:]
	}
	s.b.log(Call{Name: "Rcpt", Sess: s.id, To: to, RcptOpts: cloneRcptOpts(opts), Err: errStr(err)})
	s.b.mu.Unlock()
	return err
}

func (s *sess) popPlan() (DataPlan, int) {
	p := s.b.DefaultPlan
	if len(s.b.DataPlans) > 0 {
		p = s.b.DataPlans[0]
		s.b.DataPlans = s.b.DataPlans[1:]
	}
	s.b.nxfer++
	return p, s.b.nxfer
}

func readPlan(r io.Reader, p DataPlan) (got []byte, rerr string, raw error) {
	bs := p.Buf
	if bs <= 0 {
		bs = 4096
	}
	buf := make([]byte, bs)
	switch p.ReadMode {
	case ReadNone:
		return nil, "", nil
	case ReadK:
		for len(got) < p.K {
			want := p.K - len(got)
			if want > bs {
				want = bs
			}
			n, err := r.Read(buf[:want])
			got = append(got, buf[:n]...)
			if err != nil {
				if err == io.EOF {
					return got, "EOF", nil
				}
				return got, err.Error(), err
			}
		}
		return got, "", nil
	default:
		for {
			n, err := r.Read(buf)
			got = append(got, buf[:n]...)
			if err != nil {
				if err == io.EOF {
					return got, "EOF", nil
				}
				first, firstS := err, err.Error()
				if errors.Is(err, io.ErrUnexpectedEOF) {
					firstS = "unexpected EOF"
				}
				if p.ReadOn {
					for tries := 0; tries < 64; tries++ {
						n, err := r.Read(buf)
						got = append(got, buf[:n]...)
						if err == io.EOF {
							firstS += "+EOF"
							break
						}
						if err != nil && n == 0 && tries >= 3 {
							break
						}
					}
				}
				return got, firstS, first
			}
		}
	}
}

func (s *sess) data(name string, r io.Reader, st smtp.StatusCollector) error {
	s.b.mu.Lock()
	plan, x := s.popPlan()
	s.b.busy++
	s.b.log(Call{Name: name, Phase: "begin", Sess: s.id, Xfer: x})
	s.b.begun[s.conn]++
	s.b.mu.Unlock()
	ended := false
	end := func(got []byte, rerr string, err string) {
		s.b.mu.Lock()
		if !ended {
			ended = true
			s.b.busy--
			s.b.log(Call{Name: name, Phase: "end", Sess: s.id, Xfer: x, Data: got, ReadErr: rerr, Err: err})
		}
		s.b.mu.Unlock()
	}
	s.b.gate(plan.GateBegin)
	if plan.PanicEarly {
		end(nil, "", "panic")
		panic("scripted panic in " + name)
	}
	if st != nil {
		for _, op := range plan.Status {
			if !op.After {
				st.SetStatus(op.Addr, op.Err)
			}
		}
	}
	got, rerr, raw := readPlan(&countingReader{r: r, b: s.b}, plan)
	ret := plan.Err
	if plan.Propagate && raw != nil {
		ret = raw
	}
	if st != nil {
		for _, op := range plan.Status {
			if op.After {
				st.SetStatus(op.Addr, op.Err)
			}
		}
	}
	s.b.gate(plan.GateReturn)
	if plan.Panic {
		end(got, rerr, "panic")
		panic("scripted panic in " + name)
	}
	end(got, rerr, errStr(ret))
	return ret
}

type countingReader struct {
	r io.Reader
	b *Backend
}

func (c *countingReader) Read(p []byte) (int, error) {
	gid := curGID()
	c.b.mu.Lock()
	c.b.inRd++
	if c.b.rdG == nil {
		c.b.rdG = map[int64]int{}
	}
	c.b.rdG[gid]++
	c.b.mu.Unlock()
	n, err := c.r.Read(p)
	c.b.mu.Lock()
	c.b.inRd--
	if c.b.rdG[gid]--; c.b.rdG[gid] <= 0 {
		delete(c.b.rdG, gid)
	}
	c.b.mu.Unlock()
	return n, err
}

func (s *sess) Data(r io.Reader) error { return s.data("Data", r, nil) }

// ---- AuthSession ----

type sessA struct{ *sess }

func (s *sessA) AuthMechanisms() []string {
	s.b.mu.Lock()
	defer s.b.mu.Unlock()
	return append([]string{}, s.b.Mechs...) // (never nil: an empty list stays an empty list)
}

func (s *sessA) Auth(mech string) (sasl.Server, error) {
	s.b.mu.Lock()
	defer s.b.mu.Unlock()
	err := s.b.AuthErr
	known := false
	for _, m := range s.b.Mechs {
		if m == mech {
			known = true
		}
	}
	if err == nil && !known {
		err = smtp.ErrAuthUnknownMechanism
	}
	s.b.log(Call{Name: "Auth", Sess: s.id, Mech: mech, Err: errStr(err)})
	if err != nil {
		return nil, err
	}
	var plan []AuthStep
	if len(s.b.AuthPlans) > 0 {
		plan = s.b.AuthPlans[0]
		s.b.AuthPlans = s.b.AuthPlans[1:]
	}
	return &saslServer{s: s.sess, plan: plan}, nil
}

type saslServer struct {
	s    *sess
	i    int
	plan []AuthStep
}

func (m *saslServer) Next(response []byte) (challenge []byte, done bool, err error) {
	b := m.s.b
	b.mu.Lock()
	defer b.mu.Unlock()
	step := AuthStep{Done: true}
	if m.i < len(m.plan) {
		step = m.plan[m.i]
	}
	m.i++
	b.log(Call{Name: "SASLNext", Sess: m.s.id, Data: append([]byte(nil), response...), NilData: response == nil, Err: errStr(step.Err)})
	return step.Challenge, step.Done, step.Err
}

// ---- LMTPSession ----

type sessL struct{ *sess }

func (s *sessL) LMTPData(r io.Reader, st smtp.StatusCollector) error {
	return s.data("LMTPData", r, st)
}

type sessAL struct{ sessA }

func (s *sessAL) LMTPData(r io.Reader, st smtp.StatusCollector) error {
	return s.data("LMTPData", r, st)
}
