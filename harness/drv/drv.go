// Package drv starts real go-smtp servers (built from /repo with -tags verif)
// on the in-memory transport and drives conversations step by step.
package drv

import (
	"bytes"
	"crypto/ecdsa"
	"crypto/elliptic"
	"crypto/rand"
	"crypto/tls"
	"crypto/x509"
	"crypto/x509/pkix"
	"fmt"
	"log"
	"math/big"
	"net"
	"runtime"
	"strings"
	"sync"
	"sync/atomic"
	"time"

	smtp "github.com/emersion/go-smtp"

	"verifharness/pipe"
	"verifharness/rec"
	"verifharness/wire"
)

// Cfg is the server configuration space the specification ranges over.
type Cfg struct {
	LMTP         bool
	MaxRcpt      int
	MaxBytes     int64
	MaxLine      int // 0 = library default (2000)
	TLSAvail     bool
	ImplicitTLS  bool
	ExternalTLS  bool // with ImplicitTLS: the TLS layer is the caller's own, Server.TLSConfig stays nil
	InsecureAuth bool
	AuthBackend  bool
	NoMechs      bool // the auth-capable session offers an empty (non-nil) mechanism list
	LMTPBackend  bool
	UTF8         bool
	RequireTLS   bool
	Binarymime   bool
	DSN          bool
	RRVS         bool
	ReadTimeout  time.Duration
	NoTracer     bool
}

var (
	certOnce sync.Once
	srvCert  tls.Certificate
	certPool *x509.CertPool
)

// TLSMaterial returns a self-signed server certificate for "verif.test" and a
// pool trusting it.
func TLSMaterial() (tls.Certificate, *x509.CertPool) {
	certOnce.Do(func() {
		key, err := ecdsa.GenerateKey(elliptic.P256(), rand.Reader)
		if err != nil {
			panic(err)
		}
		tmpl := &x509.Certificate{
			SerialNumber:          big.NewInt(1),
			Subject:               pkix.Name{CommonName: "verif.test"},
			DNSNames:              []string{"verif.test", "localhost"},
			IPAddresses:           []net.IP{net.ParseIP("127.0.0.1")},
			NotBefore:             time.Now().Add(-time.Hour),
			NotAfter:              time.Now().Add(24 * time.Hour * 365),
			KeyUsage:              x509.KeyUsageDigitalSignature | x509.KeyUsageCertSign,
			ExtKeyUsage:           []x509.ExtKeyUsage{x509.ExtKeyUsageServerAuth},
			IsCA:                  true,
			BasicConstraintsValid: true,
		}
		der, err := x509.CreateCertificate(rand.Reader, tmpl, tmpl, &key.PublicKey, key)
		if err != nil {
			panic(err)
		}
		srvCert = tls.Certificate{Certificate: [][]byte{der}, PrivateKey: key}
		c, _ := x509.ParseCertificate(der)
		certPool = x509.NewCertPool()
		certPool.AddCert(c)
	})
	return srvCert, certPool
}

type lockedBuf struct {
	mu sync.Mutex
	b  bytes.Buffer
}

func (l *lockedBuf) Write(p []byte) (int, error) {
	l.mu.Lock()
	defer l.mu.Unlock()
	return l.b.Write(p)
}
func (l *lockedBuf) String() string {
	l.mu.Lock()
	defer l.mu.Unlock()
	return l.b.String()
}

// Server is a running go-smtp server on an in-memory listener.
type Server struct {
	Cfg      Cfg
	S        *smtp.Server
	L        *pipe.Listener
	BE       *rec.Backend
	ErrLog   *lockedBuf
	ServeErr chan error
	extTLS   *tls.Config
}

func (s *Server) tlsConfig() *tls.Config {
	if s.extTLS != nil {
		return s.extTLS
	}
	return s.S.TLSConfig
}

func Start(cfg Cfg) *Server {
	be := rec.New()
	be.AuthCapable = cfg.AuthBackend
	if cfg.NoMechs {
		be.Mechs = []string{}
	}
	be.LMTPCapable = cfg.LMTPBackend
	return StartWith(cfg, be, be)
}

// StartWith starts a server with an arbitrary smtp.Backend (rb may be nil when
// the backend is not the recording one).
func StartWith(cfg Cfg, backend smtp.Backend, rb *rec.Backend) *Server {
	s := smtp.NewServer(backend)
	s.Domain = "verif.test"
	s.LMTP = cfg.LMTP
	s.MaxRecipients = cfg.MaxRcpt
	s.MaxMessageBytes = cfg.MaxBytes
	if cfg.MaxLine != 0 {
		s.MaxLineLength = cfg.MaxLine
	}
	s.AllowInsecureAuth = cfg.InsecureAuth
	s.EnableSMTPUTF8 = cfg.UTF8
	s.EnableREQUIRETLS = cfg.RequireTLS
	s.EnableBINARYMIME = cfg.Binarymime
	s.EnableDSN = cfg.DSN
	s.EnableRRVS = cfg.RRVS
	s.ReadTimeout = cfg.ReadTimeout
	var extTLS *tls.Config
	if cfg.TLSAvail || cfg.ImplicitTLS {
		cert, _ := TLSMaterial()
		tc := &tls.Config{Certificates: []tls.Certificate{cert}}
		if cfg.ExternalTLS {
			extTLS = tc
		} else {
			s.TLSConfig = tc
		}
	}
	el := &lockedBuf{}
	s.ErrorLog = log.New(el, "", 0)
	srv := &Server{Cfg: cfg, S: s, L: pipe.NewListener(), BE: rb, ErrLog: el, ServeErr: make(chan error, 1), extTLS: extTLS}
	go func() { srv.ServeErr <- s.Serve(srv.L) }()
	return srv
}

// Stop closes the server and waits for Serve to return.
func (s *Server) Stop() {
	if s.BE != nil {
		s.BE.ReleaseAll()
	}
	// Server.Close may itself be wedged by a defect under test: never wait
	// for it unboundedly
	done := make(chan struct{})
	go func() { s.S.Close(); close(done) }()
	select {
	case <-done:
	case <-time.After(3 * time.Second):
		return
	}
	select {
	case <-s.ServeErr:
	case <-time.After(3 * time.Second):
	}
}

// Conn is the harness (client) side of one connection.
type Conn struct {
	Srv    *Server
	Raw    *pipe.End // client end
	SrvEnd *pipe.End // server end
	tlsC   *tls.Conn
	mu     sync.Mutex
	tlsOut []byte
	tlsEOF bool
	out    []byte // everything the server sent so far (decrypted), unconsumed part
	EOF    bool
	// SC is the library's Conn once the tracer has seen it.
	SC *smtp.Conn
	// Last projected state at the last "handled"/"open" event.
	lastState *smtp.VerifState
	events    []Event
	ended     bool          // the "end" hook fired: handleConn is returning
	spawned   int           // BDAT delivery goroutines launched on this connection
	lateHold  chan struct{} // non-nil: deliveries are held before their Data callback until it is closed
}

// Ended reports whether the server's handler for this connection returned.
func (c *Conn) Ended() bool {
	c.mu.Lock()
	defer c.mu.Unlock()
	return c.ended
}

type Event struct {
	Ev   string
	St   *smtp.VerifState
	Args []string
}

var (
	regMu    sync.Mutex
	byEnd    = map[*pipe.End]*Conn{}
	bySC     = map[*smtp.Conn]*Conn{}
	traceOn  bool
	traceSet sync.Once
)

// The gates.  By default the command loop is held, right after it launched a
// BDAT delivery goroutine, until that goroutine's Data callback has begun:
// the schedule "the goroutine is not scheduled for a long time" is taken out
// of every ordinary engine (where it would make outcomes depend on the load
// of the machine) and explored on purpose, with HoldDeliveryStart, by the
// late-start schedules of C03/C08.
var (
	gateMu    sync.Mutex
	extraGate func(*smtp.Conn, string)
)

// SetExtraGate installs f for the gate sites the driver does not handle itself.
func SetExtraGate(f func(*smtp.Conn, string)) {
	gateMu.Lock()
	extraGate = f
	gateMu.Unlock()
}

// HoldDeliveryStart makes BDAT delivery goroutines of this connection wait
// before they call the backend; ReleaseDeliveryStart lets them go.
func (c *Conn) HoldDeliveryStart() {
	c.mu.Lock()
	c.lateHold = make(chan struct{})
	c.mu.Unlock()
}

func (c *Conn) ReleaseDeliveryStart() {
	c.mu.Lock()
	if c.lateHold != nil {
		close(c.lateHold)
		c.lateHold = nil
	}
	c.mu.Unlock()
}

func connOf(sc *smtp.Conn) *Conn {
	if sc == nil {
		return nil
	}
	regMu.Lock()
	defer regMu.Unlock()
	return bySC[sc]
}

func dispatchGate(sc *smtp.Conn, name string) {
	switch name {
	case "bdat-spawned":
		c := connOf(sc)
		if c == nil || c.Srv == nil || c.Srv.BE == nil {
			return
		}
		c.mu.Lock()
		c.spawned++
		want, held := c.spawned, c.lateHold != nil
		c.mu.Unlock()
		if held {
			return
		}
		for dl := time.Now().Add(3 * time.Second); time.Now().Before(dl); {
			n, ok := c.Srv.BE.Begun(sc)
			if !ok || n >= want {
				return
			}
			time.Sleep(20 * time.Microsecond)
		}
	case "bdat-deliver-start":
		c := connOf(sc)
		if c == nil {
			return
		}
		c.mu.Lock()
		h := c.lateHold
		c.mu.Unlock()
		if h != nil {
			select {
			case <-h:
			case <-time.After(20 * time.Second):
			}
		}
	default:
		gateMu.Lock()
		f := extraGate
		gateMu.Unlock()
		if f != nil {
			f(sc, name)
		}
	}
}

// InstallHooks installs the tracer and the gate dispatcher (idempotent).
func InstallHooks() { installTracer() }

func installTracer() {
	traceSet.Do(func() {
		smtp.VerifGate = dispatchGate
		smtp.VerifTracer = func(sc *smtp.Conn, ev string, st *smtp.VerifState, args []interface{}) {
			regMu.Lock()
			c := bySC[sc]
			if c == nil {
				nc := sc.Conn()
				if tc, ok := nc.(*tls.Conn); ok {
					nc = tc.NetConn()
				}
				if pe, ok := nc.(*pipe.End); ok {
					c = byEnd[pe]
					if c != nil {
						bySC[sc] = c
						c.SC = sc
					}
				}
			}
			regMu.Unlock()
			if c == nil {
				return
			}
			sargs := make([]string, len(args))
			for i, a := range args {
				sargs[i] = fmt.Sprint(a)
			}
			c.mu.Lock()
			c.events = append(c.events, Event{Ev: ev, St: st, Args: sargs})
			if st != nil {
				c.lastState = st
			}
			if ev == "end" {
				c.ended = true
			}
			c.mu.Unlock()
		}
	})
}

// Dial opens a connection (with implicit TLS if configured) and waits for the
// server to be idle (greeting written).
func (s *Server) Dial() (*Conn, error) {
	if !s.Cfg.NoTracer {
		installTracer()
	}
	cl, sv := pipe.New()
	c := &Conn{Srv: s, Raw: cl, SrvEnd: sv}
	regMu.Lock()
	byEnd[sv] = c
	regMu.Unlock()
	if s.Cfg.ImplicitTLS {
		s.L.DialConn(tls.Server(sv, s.tlsConfig()))
		if err := c.clientTLS(); err != nil {
			return c, err
		}
	} else {
		s.L.DialConn(sv)
	}
	if !c.WaitIdle() {
		return c, fmt.Errorf("server not idle after connect")
	}
	return c, nil
}

// Forget drops the registry entries of c.
func (c *Conn) Forget() {
	regMu.Lock()
	delete(byEnd, c.SrvEnd)
	if c.SC != nil {
		delete(bySC, c.SC)
	}
	regMu.Unlock()
}

func (c *Conn) clientTLS() error {
	_, pool := TLSMaterial()
	tc := tls.Client(c.Raw, &tls.Config{RootCAs: pool, ServerName: "verif.test"})
	c.Raw.SetDeadline(time.Now().Add(5 * time.Second))
	err := tc.Handshake()
	c.Raw.SetDeadline(time.Time{})
	if err != nil {
		return err
	}
	c.tlsC = tc
	go func() {
		buf := make([]byte, 8192)
		for {
			n, err := tc.Read(buf)
			c.mu.Lock()
			c.tlsOut = append(c.tlsOut, buf[:n]...)
			if err != nil {
				c.tlsEOF = true
				c.mu.Unlock()
				return
			}
			c.mu.Unlock()
		}
	}()
	return nil
}

// StartTLSClient performs the client side of the TLS handshake after a 220
// reply to STARTTLS has been received.
func (c *Conn) StartTLSClient() error { return c.clientTLS() }

// ClientConn returns the net.Conn a real client should use on the harness
// side: the TLS connection when TLS is active, else the raw pipe end. The
// harness's own decrypting reader must not be running (implicit TLS servers
// started with DialForClient).
func (c *Conn) ClientConn() net.Conn {
	if c.tlsC != nil {
		return c.tlsC
	}
	return c.Raw
}

// DialForClient opens a connection for use by a real go-smtp client: with
// implicit TLS the handshake is done but no reader goroutine consumes the
// stream.
func (s *Server) DialForClient() (*Conn, error) {
	if !s.Cfg.NoTracer {
		installTracer()
	}
	cl, sv := pipe.New()
	c := &Conn{Srv: s, Raw: cl, SrvEnd: sv}
	regMu.Lock()
	byEnd[sv] = c
	regMu.Unlock()
	if s.Cfg.ImplicitTLS {
		s.L.DialConn(tls.Server(sv, s.tlsConfig()))
		_, pool := TLSMaterial()
		tc := tls.Client(c.Raw, &tls.Config{RootCAs: pool, ServerName: "verif.test"})
		c.Raw.SetDeadline(time.Now().Add(5 * time.Second))
		err := tc.Handshake()
		c.Raw.SetDeadline(time.Time{})
		if err != nil {
			return c, err
		}
		c.tlsC = tc
		return c, nil
	}
	s.L.DialConn(sv)
	return c, nil
}

// IsTLS reports whether the harness side speaks TLS.
func (c *Conn) IsTLS() bool { return c.tlsC != nil }

// Send writes b as a single segment.
func (c *Conn) Send(b []byte) error {
	if c.tlsC != nil {
		_, err := c.tlsC.Write(b)
		return err
	}
	_, err := c.Raw.Write(b)
	return err
}

// SendSegs writes the segments atomically (plaintext mode) so that the server
// finds them all queued, each one its own raw read.
func (c *Conn) SendSegs(segs [][]byte) error {
	if c.tlsC != nil {
		for _, s := range segs {
			if _, err := c.tlsC.Write(s); err != nil {
				return err
			}
		}
		return nil
	}
	return c.Raw.WriteSegments(segs)
}

// IdleTimeout bounds every wait for the server to become idle.
var IdleTimeout = 10 * time.Second

// WaitIdle waits until the server end is parked in Read with nothing to read
// (or closed), the scripted backend has no un-gated callback in flight, and
// (TLS) the client-side decrypting reader has caught up.
func (c *Conn) WaitIdle() bool {
	var extra func() bool
	if c.Srv.BE != nil {
		extra = c.Srv.BE.Quiet
	}
	if !c.SrvEnd.WaitIdle(IdleTimeout, extra) {
		return false
	}
	if c.SrvEnd.Closed() && !c.Srv.Cfg.NoTracer {
		// The server closed its socket; its handler may still be executing
		// buffered commands. Wait for the "end" hook.
		dl := time.Now().Add(IdleTimeout)
		for !c.Ended() {
			if time.Now().After(dl) {
				return false
			}
			time.Sleep(50 * time.Microsecond)
		}
		if c.Srv.BE != nil {
			for !c.Srv.BE.Quiet() {
				if time.Now().After(dl) {
					return false
				}
				time.Sleep(50 * time.Microsecond)
			}
		}
	}
	if c.tlsC != nil {
		// the decrypting reader must have caught up: it is either parked on an
		// empty queue or has seen the end of the stream
		dl := time.Now().Add(IdleTimeout)
		for {
			c.mu.Lock()
			eof := c.tlsEOF
			c.mu.Unlock()
			if eof {
				return true
			}
			if c.Raw.WaitIdle(5*time.Millisecond, nil) {
				break
			}
			if time.Now().After(dl) {
				return false
			}
		}
		// Once more for the server: decrypting may have produced alerts.
		return c.SrvEnd.WaitIdle(IdleTimeout, extra)
	}
	return true
}

// Output returns (and consumes) everything the server has sent since the
// last call, and whether the server side has closed.
func (c *Conn) Output() ([]byte, bool) {
	if c.tlsC != nil {
		c.mu.Lock()
		defer c.mu.Unlock()
		o := c.tlsOut
		c.tlsOut = nil
		return o, c.tlsEOF
	}
	return c.Raw.Drain()
}

// Step sends b, waits for idleness and returns the raw output.
func (c *Conn) Step(b []byte) ([]byte, bool, error) {
	if err := c.Send(b); err != nil {
		// server already closed: still collect what is there
		c.WaitIdle()
		o, eof := c.Output()
		return o, eof, nil
	}
	if !c.WaitIdle() {
		o, eof := c.Output()
		return o, eof, c.NotIdleError(fmt.Sprintf("after %q", trunc(b)))
	}
	o, eof := c.Output()
	return o, eof, nil
}

// Replies sends b and parses the output strictly.
func (c *Conn) Replies(b []byte) ([]wire.Reply, bool, error) {
	o, eof, err := c.Step(b)
	if err != nil {
		return nil, eof, err
	}
	rs, rest, syn := wire.ParseAll(o)
	if syn != "" {
		return rs, eof, fmt.Errorf("reply syntax: %s", syn)
	}
	if len(rest) != 0 {
		return rs, eof, fmt.Errorf("reply syntax: incomplete reply %q", rest)
	}
	return rs, eof, nil
}

var hangs int32

// TooManyHangs tells the engines to stop early: the server under test has
// been proven to hang several times, every further occurrence costs a full
// timeout and establishes nothing new.
func TooManyHangs() bool { return atomic.LoadInt32(&hangs) >= 3 }

// StuckError reports that the server's handler for a connection is blocked
// inside the library (not waiting for input, not parked at a harness gate)
// and stayed so for the whole idle timeout: a proven hang, not a slow run.
type StuckError struct {
	Where string
	Dump  string
}

func (e *StuckError) Error() string {
	return "server handler is blocked at " + e.Where
}

// NotIdleError classifies an idle timeout: a *StuckError if the handler
// goroutine of this connection is blocked inside go-smtp, a plain error
// (inconclusive) otherwise.
func (c *Conn) NotIdleError(ctx string) error {
	ptr := ""
	if c.SC != nil {
		ptr = fmt.Sprintf("%p", c.SC)
	}
	buf := make([]byte, 8<<20)
	n := runtime.Stack(buf, true)
	for _, g := range strings.Split(string(buf[:n]), "\n\n") {
		if ptr == "" || !strings.Contains(g, "handleConn(") || !strings.Contains(g, ptr) {
			continue
		}
		lines := strings.Split(g, "\n")
		state := ""
		if i, j := strings.IndexByte(lines[0], '['), strings.IndexByte(lines[0], ']'); i >= 0 && j > i {
			state = lines[0][i+1 : j]
		}
		blocked := false
		for _, st := range []string{"chan receive", "chan send", "select", "semacquire", "sync.Mutex.Lock", "sync.WaitGroup.Wait", "sync.Cond.Wait"} {
			if strings.HasPrefix(state, st) {
				blocked = true
			}
		}
		// first frame that is not runtime / sync / io internals
		where := ""
		for _, l := range lines[1:] {
			l = strings.TrimSpace(l)
			if strings.HasPrefix(l, "/") || l == "" {
				continue
			}
			if strings.HasPrefix(l, "runtime.") || strings.HasPrefix(l, "sync.") || strings.HasPrefix(l, "io.") || strings.HasPrefix(l, "internal/") {
				continue
			}
			where = l
			break
		}
		if blocked && strings.HasPrefix(where, "github.com/emersion/go-smtp.") {
			if i := strings.IndexByte(where, '('); i > 0 {
				// keep the function name, drop argument values
				j := strings.LastIndexByte(where, '(')
				where = where[:j]
			}
			IdleTimeout = 3 * time.Second // the server is wedged: do not wait long again
			atomic.AddInt32(&hangs, 1)
			return &StuckError{Where: where + " [" + state + "]", Dump: g}
		}
	}
	// two goroutines inside the message reader at once: the command loop reads the
	// message while the backend is still reading it (never legitimate: the reader
	// is not made for it, and each of them loses what the other takes)
	// (the same reader: the receiver pointer of the frame is the same)
	perReader := map[string]int{}
	all := string(buf[:n])
	for _, g := range strings.Split(all, "\n\n") {
		seen := map[string]bool{}
		for _, l := range strings.Split(g, "\n") {
			if i := strings.Index(l, "go-smtp.(*dataReader).Read("); i >= 0 {
				arg := l[i+len("go-smtp.(*dataReader).Read("):]
				if j := strings.IndexAny(arg, ",)"); j > 0 {
					arg = arg[:j]
				}
				if strings.HasPrefix(arg, "0x") && !seen[arg] {
					seen[arg] = true
					perReader[arg]++
				}
			}
		}
	}
	readers := 0
	for _, k := range perReader {
		if k > readers {
			readers = k
		}
	}
	if readers >= 2 {
		atomic.AddInt32(&hangs, 1)
		return &StuckError{Where: "two goroutines inside (*dataReader).Read at once", Dump: GoroutineDump("dataReader")}
	}
	return fmt.Errorf("server did not become idle within %v %s (backend: %s)\n%s", IdleTimeout, ctx, c.beState(), GoroutineDump("go-smtp"))
}

func (c *Conn) beState() string {
	if c.Srv.BE == nil {
		return "-"
	}
	return c.Srv.BE.DebugState()
}

// GoroutineDump returns the stacks of all goroutines whose stack mentions
// substr.
func GoroutineDump(substr string) string {
	buf := make([]byte, 8<<20)
	n := runtime.Stack(buf, true)
	var sb strings.Builder
	for _, g := range strings.Split(string(buf[:n]), "\n\n") {
		if strings.Contains(g, substr) {
			sb.WriteString(g)
			sb.WriteString("\n\n")
		}
	}
	return sb.String()
}

func trunc(b []byte) string {
	if len(b) > 80 {
		return string(b[:80]) + "..."
	}
	return string(b)
}

// State returns the last state projection seen by the tracer.
func (c *Conn) State() *smtp.VerifState {
	c.mu.Lock()
	defer c.mu.Unlock()
	return c.lastState
}

// AuthReadErrors counts the reads of a SASL response that failed so far
// (hook event "authline" with an error).
func (c *Conn) AuthReadErrors() int {
	c.mu.Lock()
	defer c.mu.Unlock()
	n := 0
	for _, e := range c.events {
		if e.Ev == "authline" && len(e.Args) == 2 && e.Args[1] != "<nil>" {
			n++
		}
	}
	return n
}

// Events returns (and clears) the hook events recorded so far.
func (c *Conn) Events() []Event {
	c.mu.Lock()
	defer c.mu.Unlock()
	e := c.events
	c.events = nil
	return e
}

// Close closes the harness side and waits for the server to finish the
// connection.
func (c *Conn) Close() {
	if c.tlsC != nil {
		c.tlsC.Close()
	}
	c.Raw.Close()
	c.SrvEnd.WaitIdle(IdleTimeout, nil)
	c.Forget()
}

// Abort tears the transport down in both directions without any TLS
// close_notify: the peer has vanished, the server's writes fail from now on.
func (c *Conn) Abort() {
	c.Raw.Close()
}

// CloseWrite half-closes the harness side (the server reads EOF).
func (c *Conn) CloseWrite() {
	if c.tlsC != nil {
		c.tlsC.CloseWrite()
		return
	}
	c.Raw.CloseWrite()
}
