package sessrep

import (
	"errors"
	"fmt"
	"math/rand"
	"strings"
	"time"

	"verifharness/drv"
	"verifharness/evid"
	"verifharness/rec"
	"verifharness/wire"
)

// RandomPath picks a random path of the graph from the initial node that can
// be sent without waiting for the server (no TLS upgrade, no scripted panic).
func (g *Graph) RandomPath(rng *rand.Rand, maxLen int) []*Edge {
	var path []*Edge
	cur := g.Init
	for len(path) < maxLen {
		var cands []*Edge
		for _, e := range g.Out[cur] {
			c := e.Lbl.Cmd
			if c.C == "AFTER" || (c.C == "EOF" && c.A == "abort") || (c.C == "MAIL" && c.A == "panic") || (c.C == "RSET" && c.A == "panic") || strings.Contains(c.P, "panic") || (c.C == "STARTTLS" && e.Dst.Tls != e.Src.Tls) {
				continue
			}
			// keep walks productive: favour edges that change the state
			if e.DstKey == e.SrcKey && rng.Intn(4) != 0 {
				continue
			}
			cands = append(cands, e)
		}
		if len(cands) == 0 {
			break
		}
		e := cands[rng.Intn(len(cands))]
		path = append(path, e)
		cur = e.DstKey
		if e.Dst.Closed {
			break
		}
	}
	return path
}

// Pipelined sends a whole path in one go (mode "pipelined": one segment;
// "segmented": cut at random points) and compares the complete reply stream
// and callback sequence with what the specification says for the path.
func Pipelined(g *Graph, srv *drv.Server, path []*Edge, mode string, rng *rand.Rand) (divs []evid.Div, transcript map[string]interface{}, err error) {
	return RunPath(g, srv, path, nil, mode, rng)
}

// RunPath sends either the rendering of path or, when override is non-nil,
// exactly override followed by a half-close, and compares the whole reply
// stream and callback sequence with the labels of path.
func RunPath(g *Graph, srv *drv.Server, path []*Edge, override []byte, mode string, rng *rand.Rand) (divs []evid.Div, transcript map[string]interface{}, err error) {
	c, err := srv.Dial()
	if err != nil {
		return nil, nil, err
	}
	defer func() {
		srv.BE.ReleaseAll()
		c.Close()
	}()
	c.Output()
	be := srv.BE
	sessBase := be.NumSessions()
	var wireOut []byte
	var expReplies []ReplyRec
	var expLoop []string
	expData := map[string]int{}
	var nsErrs, mailErrs, rcptErrs []error
	var authPlans [][]rec.AuthStep
	var labels []Label
	var cmds []string
	eof := false
	for i, e := range path {
		k := Concretize(e, i+1)
		labels = append(labels, e.Lbl)
		cmds = append(cmds, e.Lbl.Cmd.String())
		if k.Setup != nil {
			// every Setup scripts exactly one decision: collect it, in path
			// order, into the per-callback queues
			tmp := rec.New()
			k.Setup(tmp)
			nsErrs = append(nsErrs, tmp.NewSessionErrs...)
			mailErrs = append(mailErrs, tmp.MailErrs...)
			rcptErrs = append(rcptErrs, tmp.RcptErrs...)
			authPlans = append(authPlans, tmp.AuthPlans...)
		}
		if k.EOF || k.ThenEOF {
			eof = true
		}
		for _, ph := range k.Phases {
			wireOut = append(wireOut, ph...)
		}
		expReplies = append(expReplies, e.Lbl.Replies...)
		for _, cb := range e.Lbl.Cbs {
			if isDataCb(cb.N) {
				expData[cb.String()]++
			} else {
				expLoop = append(expLoop, cb.String())
			}
		}
	}
	if override != nil {
		wireOut = override
		eof = true
	}
	be.Lock()
	be.NewSessionErrs, be.MailErrs, be.RcptErrs, be.DataPlans, be.AuthPlans, be.PanicIn = nil, nil, nil, nil, nil, ""
	// decisions are consumed per callback, so only those whose callback the
	// specification expects were queued by Concretize
	be.NewSessionErrs = alignErrs(path, "NewSession", nsErrs)
	be.MailErrs = alignErrs(path, "Mail", mailErrs)
	be.RcptErrs = alignErrs(path, "Rcpt", rcptErrs)
	be.DataPlans = alignPlans(path)
	be.AuthPlans = authPlans
	be.Unlock()
	mark := be.NumCalls()
	var segs [][]byte
	if mode == "segmented" && len(wireOut) > 1 {
		n := 1 + rng.Intn(6)
		cuts := map[int]bool{}
		for i := 0; i < n; i++ {
			cuts[1+rng.Intn(len(wireOut)-1)] = true
		}
		last := 0
		for i := 1; i < len(wireOut); i++ {
			if cuts[i] {
				segs = append(segs, wireOut[last:i])
				last = i
			}
		}
		segs = append(segs, wireOut[last:])
	} else {
		segs = [][]byte{wireOut}
	}
	if len(wireOut) > 0 {
		if err := c.SendSegs(segs); err != nil {
			return nil, nil, err
		}
	}
	if eof {
		c.CloseWrite()
	}
	if !c.WaitIdle() {
		err := c.NotIdleError(fmt.Sprintf("after pipelined path %v", cmds))
		var stuck *drv.StuckError
		if errors.As(err, &stuck) {
			return []evid.Div{{Prop: "C04", Key: "hang:pipelined:" + stuck.Where,
				Msg:    fmt.Sprintf("%s path %v: the server stopped replying - %v\n%s", mode, cmds, stuck, stuck.Dump),
				Replay: map[string]interface{}{"engine": "session-pipelined", "cfg": g.Cfg, "mode": mode, "path": labels, "commands": cmds, "sent": string(wireOut)}}}, nil, nil
		}
		return nil, nil, err
	}
	out, _ := c.Output()
	calls := be.Since(mark)
	// a delivery goroutine spawned for an empty chunk may not have run yet
	wantData := 0
	for _, v := range expData {
		wantData += v
	}
	for dl := time.Now().Add(time.Second); ; {
		have := 0
		for _, cl := range calls {
			if cl.Name == "Data" || cl.Name == "LMTPData" {
				have++
			}
		}
		if have >= wantData || time.Now().After(dl) {
			break
		}
		time.Sleep(100 * time.Microsecond)
		calls = be.Since(mark)
	}
	rs, rest, syn := wire.ParseAll(out)
	var gotReplies []string
	for _, r := range rs {
		gotReplies = append(gotReplies, strings.TrimRight(r.Raw, "\r\n"))
	}
	var gotLoop, gotCalls []string
	gotData := map[string]int{}
	for _, cl := range calls {
		if cl.Sess != 0 {
			cl.Sess -= sessBase
		}
		cb := CallName(cl)
		gotCalls = append(gotCalls, cl.Short())
		if isDataCb(cb.N) {
			gotData[cb.String()]++
		} else {
			gotLoop = append(gotLoop, cb.String())
		}
	}
	var seglens []int
	for _, s := range segs {
		seglens = append(seglens, len(s))
	}
	transcript = map[string]interface{}{"engine": "session-pipelined", "cfg": g.Cfg, "mode": mode, "path": labels, "commands": cmds,
		"sent": string(wireOut), "segments": seglens, "replies": gotReplies, "callbacks": gotCalls}
	ctx := fmt.Sprintf("%s path %v", mode, cmds)
	if syn != "" || len(rest) > 0 {
		divs = append(divs, evid.Div{Prop: "C04", Key: "pipelined-syntax:" + cmds[len(cmds)-1], Msg: ctx + ": malformed reply stream: " + syn, Replay: transcript})
	}
	mism := len(rs) != len(expReplies)
	firstBad := -1
	if !mism {
		for i := range rs {
			if rs[i].Code != expReplies[i].Code || rs[i].Enh != expReplies[i].EnhStr() {
				mism = true
				firstBad = i
				break
			}
		}
	}
	if mism {
		prop := "C04"
		closing := len(path) > 0 && path[len(path)-1].Dst.Closed
		if closing && len(rs) > len(expReplies) {
			prop = "C08"
		}
		divs = append(divs, evid.Div{Prop: prop, Key: fmt.Sprintf("pipelined-replies:%s:%s", mode, offendingCmd(path, expReplies, rs, firstBad)),
			Msg: fmt.Sprintf("%s: expected replies %v, got %v", ctx, expReplies, gotReplies), Replay: transcript})
	}
	if strings.Join(expLoop, ",") != strings.Join(gotLoop, ",") || fmt.Sprint(expData) != fmt.Sprint(gotData) {
		prop := "C03"
		closing := len(path) > 0 && path[len(path)-1].Dst.Closed
		if closing && strings.HasPrefix(strings.Join(gotLoop, ",")+",", strings.Join(expLoop, ",")+",") {
			prop = "C08"
		} else if mism {
			prop = "C04"
		}
		divs = append(divs, evid.Div{Prop: prop, Key: fmt.Sprintf("pipelined-callbacks:%s:%s", mode, cmds[len(cmds)-1]),
			Msg: fmt.Sprintf("%s: expected callbacks %v %v, got %v", ctx, expLoop, expData, gotCalls), Replay: transcript})
	}
	return divs, transcript, nil
}

// offendingCmd names the command of the path whose reply is the first that
// differs.
func offendingCmd(path []*Edge, exp []ReplyRec, got []wire.Reply, firstBad int) string {
	idx := firstBad
	if idx < 0 {
		idx = len(exp)
		if len(got) < idx {
			idx = len(got)
		}
	}
	n := 0
	for _, e := range path {
		n += len(e.Lbl.Replies)
		if idx < n {
			return e.Lbl.Cmd.String()
		}
	}
	if len(path) > 0 {
		return "after:" + path[len(path)-1].Lbl.Cmd.String()
	}
	return "?"
}

func hasCbPrefix(e *Edge, name string) bool {
	for _, cb := range e.Lbl.Cbs {
		if cb.N == name || strings.HasPrefix(cb.N, name+".") {
			return true
		}
	}
	return false
}

// alignErrs builds the per-callback decision queue for callback name along
// the path: nil (accept) for steps whose callback is expected without a
// scripted refusal, the scripted error where Concretize queued one.
func alignErrs(path []*Edge, name string, scripted []error) []error {
	var q []error
	si := 0
	for _, e := range path {
		if !hasCbPrefix(e, name) {
			// Concretize may have queued a refusal that the state makes moot
			if wantsRefusal(e, name) && si < len(scripted) {
				si++
			}
			continue
		}
		if wantsRefusal(e, name) && si < len(scripted) {
			q = append(q, scripted[si])
			si++
		} else {
			q = append(q, nil)
		}
	}
	return q
}

func wantsRefusal(e *Edge, name string) bool {
	c := e.Lbl.Cmd
	switch name {
	case "NewSession":
		return c.A == "nsfail"
	case "Mail":
		return c.C == "MAIL" && (c.A == "rej" || c.A == "rej5")
	case "Rcpt":
		return c.C == "RCPT" && (c.A == "rej" || c.A == "rej5")
	}
	return false
}

// alignPlans builds the Data plan queue: one plan per expected Data begin.
func alignPlans(path []*Edge) []rec.DataPlan {
	var q []rec.DataPlan
	for i, e := range path {
		if !hasCbPrefix(e, "Data") && !hasCbPrefix(e, "LMTPData") {
			continue
		}
		begins := false
		for _, cb := range e.Lbl.Cbs {
			if strings.HasSuffix(cb.N, ".begin") {
				begins = true
			}
		}
		if !begins {
			continue
		}
		tmp := rec.New()
		k := Concretize(e, i+1)
		if k.Setup != nil {
			k.Setup(tmp)
		}
		if len(tmp.DataPlans) > 0 {
			q = append(q, tmp.DataPlans[0])
		} else {
			q = append(q, rec.DataPlan{})
		}
	}
	return q
}
