package sessrep

import (
	"encoding/json"
	"fmt"
	"math/rand"
	"strings"
	"time"

	"verifharness/drv"
	"verifharness/rec"
	"verifharness/wire"
)

// ProjRec is the hook's state projection in the shape Trace_SmtpServer!Proj
// produces.
type ProjRec struct {
	Helo       bool `json:"helo"`
	Session    bool `json:"session"`
	From       bool `json:"from"`
	Rcpts      int  `json:"rcpts"`
	Bdat       bool `json:"bdat"`
	Binarymime bool `json:"binarymime"`
	DidAuth    bool `json:"didAuth"`
	ErrCount   int  `json:"errCount"`
	Tls        bool `json:"tls"`
}

// TraceEvent is one line of the ndjson trace TLC validates.
type TraceEvent struct {
	Ev      string     `json:"ev"`
	Cfg     *CfgRec    `json:"cfg,omitempty"`
	Cmd     *CmdRec    `json:"cmd,omitempty"`
	Replies []ReplyRec `json:"replies"`
	Cbs     []CbRec    `json:"cbs"`
	St      *ProjRec   `json:"st,omitempty"`
	Closed  bool       `json:"closed,omitempty"`
	NoSt    bool       `json:"nost"` // the state projection was not observed for this step
	Note    string     `json:"note,omitempty"`
}

func parseEnh(s string) []int {
	if s == "" {
		return []int{}
	}
	var a, b, c int
	fmt.Sscanf(s, "%d.%d.%d", &a, &b, &c)
	return []int{a, b, c}
}

// walkCmds is the abstract alphabet a random walk draws from.
func walkCmds(cfg CfgRec) []CmdRec {
	var out []CmdRec
	add := func(c CmdRec) { out = append(out, c) }
	for _, verb := range []string{"HELO", "EHLO", "LHLO"} {
		for _, a := range []string{"ok", "noarg", "nsfail"} {
			add(CmdRec{C: verb, A: a})
		}
	}
	for _, v := range []string{"ok", "rej", "rej5", "nofrom", "badpath", "unkparam", "badsize", "sizeok", "sizeover", "binarymime", "ret", "panic"} {
		add(CmdRec{C: "MAIL", A: v})
	}
	for _, v := range []string{"ok", "rej", "rej5", "noto", "badpath", "unkparam", "notify"} {
		add(CmdRec{C: "RCPT", A: v})
	}
	add(CmdRec{C: "DATA", A: "arg"})
	add(CmdRec{C: "DATA", A: "small", P: "all-panic"})
	add(CmdRec{C: "DATA", A: "small", P: "none-panic"})
	for _, size := range []string{"small", "big"} {
		if size == "big" && cfg.MaxBytes == 0 {
			continue
		}
		for _, p := range []string{"all-acc", "all-rej", "none-acc", "none-rej", "some-acc", "some-rej"} {
			add(CmdRec{C: "DATA", A: size, P: p})
		}
	}
	add(CmdRec{C: "BDAT", A: "noarg"})
	add(CmdRec{C: "BDAT", A: "badsize"})
	for _, n := range []int{0, 6, 12} {
		for _, l := range []bool{false, true} {
			if n > 0 {
				add(CmdRec{C: "BDAT", A: "3args", N: n, L: l})
				if !l {
					add(CmdRec{C: "BDAT", A: "badlast", N: n})
				}
			}
			for _, p := range []string{"acc", "rej", "early", "panic", "mid1", "mid4", "eacc", "eacc1", "eacc4"} {
				add(CmdRec{C: "BDAT", N: n, L: l, P: p})
			}
		}
	}
	for _, c := range []string{"RSET", "NOOP", "VRFY", "HELP", "QUIT", "EOF", "LONG"} {
		add(CmdRec{C: c})
	}
	for _, v := range []string{"unknown", "empty", "short", "nospace"} {
		add(CmdRec{C: "BAD", A: v})
	}
	add(CmdRec{C: "EOF", A: "abort"})
	add(CmdRec{C: "AUTH", A: "noarg"})
	add(CmdRec{C: "AUTH", A: "badir"})
	add(CmdRec{C: "AUTH", A: "unkmech"})
	for _, ir := range []string{"none", "empty", "bytes"} {
		for n := 0; n <= 2; n++ {
			for _, f := range []string{"ok", "fail"} {
				add(CmdRec{C: "AUTH", A: ir, N: n, P: f})
			}
		}
	}
	add(CmdRec{C: "STARTTLS", A: "ok"})
	add(CmdRec{C: "STARTTLS", A: "inject"})
	add(CmdRec{C: "STARTTLS", A: "badhs"})
	return out
}

// sensible proposes a command that makes progress from the observed state.
func sensible(cfg CfgRec, st *ProjRec, rng *rand.Rand) CmdRec {
	greet := "EHLO"
	if cfg.Lmtp {
		greet = "LHLO"
	}
	switch {
	case st == nil || !st.Helo:
		return CmdRec{C: greet, A: "ok"}
	case !st.From:
		return CmdRec{C: "MAIL", A: []string{"ok", "ok", "binarymime", "sizeok"}[rng.Intn(4)]}
	case st.Rcpts == 0 || rng.Intn(3) == 0 && !st.Bdat:
		return CmdRec{C: "RCPT", A: "ok"}
	default:
		if rng.Intn(2) == 0 && !st.Bdat {
			return CmdRec{C: "DATA", A: "small", P: []string{"all-acc", "all-rej", "none-acc"}[rng.Intn(3)]}
		}
		return CmdRec{C: "BDAT", N: []int{0, 6}[rng.Intn(2)], L: rng.Intn(2) == 0, P: []string{"acc", "rej", "early"}[rng.Intn(3)]}
	}
}

// Walk drives one connection with random abstract commands and records what
// the real server did as trace events. Nothing here consults the specification.
func Walk(srv *drv.Server, cfg CfgRec, rng *rand.Rand, maxSteps int) ([]TraceEvent, []StepRec, error) {
	c, err := srv.Dial()
	if err != nil {
		return nil, nil, err
	}
	defer func() {
		srv.BE.ReleaseAll()
		c.Close()
	}()
	out0, _ := c.Output()
	if rs, _, _ := wire.ParseAll(out0); len(rs) != 1 || rs[0].Code != 220 {
		return nil, nil, fmt.Errorf("bad greeting %q", out0)
	}
	be := srv.BE
	sessBase := be.NumSessions()
	events := []TraceEvent{{Ev: "reset", Cfg: &cfg, Replies: []ReplyRec{}, Cbs: []CbRec{}}}
	var hist []StepRec
	alphabet := walkCmds(cfg)
	inAuth := false
	var proj *ProjRec
	for n := 1; n <= maxSteps; n++ {
		var cmd CmdRec
		switch {
		case inAuth:
			cmd = CmdRec{C: "ARESP", A: []string{"bytes", "bytes", "empty", "emptyline", "cancel", "bad"}[rng.Intn(6)]}
			if rng.Intn(12) == 0 {
				cmd = CmdRec{C: "EOF", A: []string{"", "abort"}[rng.Intn(2)]}
			}
		case rng.Intn(100) < 55:
			cmd = sensible(cfg, proj, rng)
		default:
			cmd = alphabet[rng.Intn(len(alphabet))]
		}
		if cmd.C == "MAIL" && cmd.A == "panic" && (proj == nil || !proj.Helo || proj.Bdat) {
			cmd.A = "ok" // the specification has no panic label there (Mail is not reached)
		}
		if cmd.C == "STARTTLS" && (cmd.A == "inject" || cmd.A == "badhs") && (!cfg.TlsAvail || cfg.ImplicitTLS || proj != nil && proj.Tls) {
			cmd.A = "ok" // no upgrade will happen: injected lines would be ordinary commands
		}
		closingGuess := cmd.C == "QUIT" || cmd.C == "LONG" || (cmd.C == "MAIL" && cmd.A == "panic") ||
			(cmd.C == "BAD" && proj != nil && proj.ErrCount >= 3)
		e := &Edge{Cfg: cfg}
		e.Lbl.Cmd = cmd
		if closingGuess {
			e.Dst.Closed = true
		}
		// pretend the callbacks happen so that plans are installed
		e.Lbl.Cbs = []CbRec{{N: "Data.begin"}}
		k := Concretize(e, n)
		be.Lock()
		be.NewSessionErrs, be.MailErrs, be.RcptErrs, be.DataPlans, be.AuthPlans, be.PanicIn = nil, nil, nil, nil, nil, ""
		if k.Setup != nil {
			k.Setup(be)
		}
		be.Unlock()
		mark := be.NumCalls()
		var out []byte
		var sent []string
		if k.EOF {
			if k.Abort {
				c.Abort()
			} else {
				c.CloseWrite()
			}
			if !c.WaitIdle() {
				return nil, hist, fmt.Errorf("server not idle after EOF")
			}
			o, _ := c.Output()
			out = append(out, o...)
			sent = append(sent, "<EOF>")
		}
		for i, ph := range k.Phases {
			o, _, err := c.Step(ph)
			out = append(out, o...)
			sent = append(sent, string(ph))
			if err != nil {
				hist = append(hist, StepRec{Cmd: cmd.String(), Sent: sent})
				return nil, hist, err
			}
			if i+1 < len(k.Phases) {
				rs, _, _ := wire.ParseAll(o)
				if len(rs) < 1 || rs[0].Code/100 != 3 {
					break
				}
			}
		}
		rs, rest, syn := wire.ParseAll(out)
		if cmd.C == "STARTTLS" && cmd.A == "badhs" && len(rs) >= 1 && rs[0].Code == 220 {
			o, _, err := c.Step([]byte("HELLO"))
			if err != nil {
				return nil, hist, err
			}
			out = append(out, o...)
			sent = append(sent, "HELLO")
			rs, rest, syn = wire.ParseAll(out)
		} else if cmd.C == "STARTTLS" && len(rs) >= 1 && rs[0].Code == 220 {
			if err := c.StartTLSClient(); err != nil {
				return nil, hist, fmt.Errorf("TLS handshake after 220 failed: %v", err)
			}
			if !c.WaitIdle() {
				return nil, hist, fmt.Errorf("server not idle after handshake")
			}
			o, _ := c.Output()
			out = append(out, o...)
			rs, rest, syn = wire.ParseAll(out)
		}
		// A chunk that opened a transfer spawned the delivery goroutine; with an
		// empty chunk nothing waits for it, so wait here until its Data
		// callback has begun (observed state: transfer open now, not before).
		calls := be.Since(mark)
		if s := c.State(); cmd.C == "BDAT" && s != nil && s.Bdat && (proj == nil || !proj.Bdat) {
			for dl := time.Now().Add(2 * time.Second); time.Now().Before(dl); {
				began := false
				for _, cl := range calls {
					if cl.Phase == "begin" {
						began = true
					}
				}
				if began {
					break
				}
				time.Sleep(50 * time.Microsecond)
				calls = be.Since(mark)
			}
			c.WaitIdle()
			calls = be.Since(mark)
		}
		ev := TraceEvent{Ev: "step", Replies: []ReplyRec{}, Cbs: []CbRec{}}
		st := StepRec{Cmd: cmd.String(), Sent: sent}
		for _, r := range rs {
			ev.Replies = append(ev.Replies, ReplyRec{Code: r.Code, Enh: parseEnh(r.Enh)})
			st.Replies = append(st.Replies, strings.TrimRight(r.Raw, "\r\n"))
		}
		if syn != "" || len(rest) > 0 {
			ev.Note = "reply syntax: " + syn
			ev.Replies = append(ev.Replies, ReplyRec{Code: 0, Enh: []int{}})
		}
		sawBegin, sawNSFail, sawAuth := false, false, false
		for _, cl := range calls {
			if cl.Sess != 0 {
				cl.Sess -= sessBase
			}
			cb := CallName(cl)
			ev.Cbs = append(ev.Cbs, cb)
			st.Cbs = append(st.Cbs, cl.Short())
			switch {
			case strings.HasSuffix(cb.N, ".begin"):
				sawBegin = true
			case cb.N == "NewSession.fail":
				sawNSFail = true
			case cb.N == "Auth":
				sawAuth = true
			}
		}
		// labels that depend on what the state allowed
		got354 := len(rs) > 0 && rs[0].Code == 354
		switch {
		case cmd.C == "DATA" && cmd.A != "arg" && !got354:
			cmd = CmdRec{C: "DATA", A: "refused"}
		case cmd.C == "BDAT" && cmd.A == "" && !sawBegin:
			cmd.P = ""
		case (cmd.C == "HELO" || cmd.C == "EHLO" || cmd.C == "LHLO") && cmd.A == "nsfail" && !sawNSFail:
			cmd.A = "ok"
		case cmd.C == "AUTH" && (cmd.A == "none" || cmd.A == "empty" || cmd.A == "bytes") && !sawAuth:
			cmd = CmdRec{C: "AUTH", A: "refused"}
		case cmd.C == "STARTTLS" && !(len(rs) > 0 && rs[0].Code == 220):
			cmd.A = "ok"
		}
		ev.Cmd = &cmd
		st.Cmd = cmd.String()
		hist = append(hist, st)
		closed := c.SrvEnd.Closed() || c.Ended()
		ev.St = &ProjRec{}
		if s := c.State(); s != nil && !closed {
			proj = &ProjRec{Helo: s.Helo != "", Session: s.Session, From: s.From, Rcpts: s.Rcpts, Bdat: s.Bdat,
				Binarymime: s.Binarymime, DidAuth: s.DidAuth, ErrCount: s.ErrCount, Tls: s.TLS}
			ev.St = proj
		}
		events = append(events, ev)
		if closed || k.EOF {
			break
		}
		inAuth = len(rs) > 0 && rs[len(rs)-1].Code == 334
	}
	return events, hist, nil
}

// EncodeTrace renders events as ndjson.
func EncodeTrace(evs []TraceEvent) []byte {
	var sb strings.Builder
	for _, e := range evs {
		b, _ := json.Marshal(e)
		sb.Write(b)
		sb.WriteByte('\n')
	}
	return []byte(sb.String())
}

var _ = rec.ReadAll
