// Package sessrep binds SmtpServer.tla to the real server: it loads the
// labelled transition graph TLC dumps, turns every edge into a concrete
// conversation step with a backend script, runs it on the real server and
// compares replies, callbacks and the projected connection state with the
// specification (spec -> code direction); and it renders executions of the
// real server as abstract event traces for TLC to validate (code -> spec).
package sessrep

import (
	"encoding/json"
	"fmt"
	"sort"
)

type CfgRec struct {
	Lmtp         bool `json:"lmtp"`
	MaxRcpt      int  `json:"maxRcpt"`
	MaxBytes     int  `json:"maxBytes"`
	TlsAvail     bool `json:"tlsAvail"`
	ImplicitTLS  bool `json:"implicitTLS"`
	InsecureAuth bool `json:"insecureAuth"`
	AuthBackend  bool `json:"authBackend"`
	LmtpBackend  bool `json:"lmtpBackend"`
	Binarymime   bool `json:"binarymime"`
	Dsn          bool `json:"dsn"`
}

type StRec struct {
	Binarymime bool   `json:"binarymime"`
	Tls        bool   `json:"tls"`
	Helo       bool   `json:"helo"`
	Sess       int    `json:"sess"`
	Nsess      int    `json:"nsess"`
	From       bool   `json:"from"`
	Nrcpt      int    `json:"nrcpt"`
	Bdat       string `json:"bdat"`
	Bplan      string `json:"bplan"`
	Bytes      int    `json:"bytes"`
	DidAuth    bool   `json:"didAuth"`
	ErrCount   int    `json:"errCount"`
	Closed     bool   `json:"closed"`
	AuthLeft   int    `json:"authLeft"`
	AuthFinal  string `json:"authFinal"`
}

type ObsRec struct {
	Sess    int   `json:"sess"`
	From    bool  `json:"from"`
	Nrcpt   int   `json:"nrcpt"`
	Greeted bool  `json:"greeted"`
	Logouts []int `json:"logouts"`
	Live    []int `json:"live"`
}

type CmdRec struct {
	C string `json:"c"`
	A string `json:"a"`
	N int    `json:"n"`
	L bool   `json:"l"`
	P string `json:"p"`
}

func (c CmdRec) String() string {
	s := c.C
	if c.A != "" {
		s += "_" + c.A
	}
	if c.C == "BDAT" {
		s += fmt.Sprintf("(%d", c.N)
		if c.L {
			s += ",LAST"
		}
		s += ")"
	}
	if c.C == "AUTH" && c.A != "refused" && c.A != "noarg" && c.A != "badir" && c.A != "unkmech" {
		s += fmt.Sprintf("(chal=%d)", c.N)
	}
	if c.P != "" {
		s += "[" + c.P + "]"
	}
	return s
}

type ReplyRec struct {
	Code int   `json:"code"`
	Enh  []int `json:"enh"`
}

func (r ReplyRec) String() string {
	if len(r.Enh) == 3 {
		return fmt.Sprintf("%d %d.%d.%d", r.Code, r.Enh[0], r.Enh[1], r.Enh[2])
	}
	return fmt.Sprint(r.Code)
}

func (r ReplyRec) EnhStr() string {
	if len(r.Enh) == 3 {
		return fmt.Sprintf("%d.%d.%d", r.Enh[0], r.Enh[1], r.Enh[2])
	}
	return ""
}

type CbRec struct {
	N string `json:"n"`
	S int    `json:"s"`
}

func (c CbRec) String() string { return fmt.Sprintf("s%d.%s", c.S, c.N) }

type Label struct {
	Cmd     CmdRec     `json:"cmd"`
	Replies []ReplyRec `json:"replies"`
	Cbs     []CbRec    `json:"cbs"`
}

type Edge struct {
	Cfg  CfgRec `json:"cfg"`
	Src  StRec  `json:"src"`
	Osrc ObsRec `json:"osrc"`
	Lbl  Label  `json:"lbl"`
	Dst  StRec  `json:"dst"`
	Odst ObsRec `json:"odst"`

	SrcKey, DstKey string `json:"-"`
	ID             int    `json:"-"`
}

func key(s StRec, o ObsRec) string { return fmt.Sprintf("%+v|%+v", s, o) }

// Graph is the transition graph of one configuration.
type Graph struct {
	Cfg   CfgRec
	Init  string
	Out   map[string][]*Edge
	Edges []*Edge
}

// Load parses the EDGE payloads and groups them by configuration.
func Load(payloads []string) ([]*Graph, error) {
	by := map[CfgRec]*Graph{}
	var order []CfgRec
	for _, p := range payloads {
		e := &Edge{}
		if err := json.Unmarshal([]byte(p), e); err != nil {
			return nil, fmt.Errorf("edge: %v: %.200s", err, p)
		}
		e.SrcKey, e.DstKey = key(e.Src, e.Osrc), key(e.Dst, e.Odst)
		g := by[e.Cfg]
		if g == nil {
			g = &Graph{Cfg: e.Cfg, Out: map[string][]*Edge{}}
			by[e.Cfg] = g
			order = append(order, e.Cfg)
		}
		e.ID = len(g.Edges)
		g.Edges = append(g.Edges, e)
		g.Out[e.SrcKey] = append(g.Out[e.SrcKey], e)
	}
	var gs []*Graph
	for _, c := range order {
		g := by[c]
		init := StRec{Tls: c.ImplicitTLS, Bdat: "none"}
		found := false
		for _, e := range g.Edges {
			if e.Src == init && len(e.Osrc.Live) == 0 && !e.Osrc.Greeted && e.Osrc.Logouts[0] == 0 && e.Osrc.Logouts[1] == 0 {
				g.Init = e.SrcKey
				found = true
				break
			}
		}
		if !found {
			return nil, fmt.Errorf("no initial state found for cfg %+v", c)
		}
		gs = append(gs, g)
	}
	sort.SliceStable(gs, func(i, j int) bool { return fmt.Sprint(gs[i].Cfg) < fmt.Sprint(gs[j].Cfg) })
	return gs, nil
}

// pathTo returns a shortest edge path from node `from` to a node that has an
// uncovered outgoing edge (possibly empty), or nil,false if none is reachable.
func (g *Graph) pathToUncovered(from string, covered []bool) ([]*Edge, bool) {
	type item struct {
		node string
		via  *Edge
		prev *item
	}
	seen := map[string]bool{from: true}
	q := []*item{{node: from}}
	for len(q) > 0 {
		it := q[0]
		q = q[1:]
		for _, e := range g.Out[it.node] {
			if !covered[e.ID] {
				var path []*Edge
				for p := it; p.via != nil; p = p.prev {
					path = append([]*Edge{p.via}, path...)
				}
				return path, true
			}
		}
		for _, e := range g.Out[it.node] {
			if !seen[e.DstKey] {
				seen[e.DstKey] = true
				q = append(q, &item{node: e.DstKey, via: e, prev: it})
			}
		}
	}
	return nil, false
}

// ShortestPath returns a shortest edge path from the initial node to node.
func (g *Graph) ShortestPath(node string) []*Edge {
	type item struct {
		node string
		via  *Edge
		prev *item
	}
	seen := map[string]bool{g.Init: true}
	q := []*item{{node: g.Init}}
	for len(q) > 0 {
		it := q[0]
		q = q[1:]
		if it.node == node {
			var path []*Edge
			for p := it; p.via != nil; p = p.prev {
				path = append([]*Edge{p.via}, path...)
			}
			return path
		}
		for _, e := range g.Out[it.node] {
			if !seen[e.DstKey] {
				seen[e.DstKey] = true
				q = append(q, &item{node: e.DstKey, via: e, prev: it})
			}
		}
	}
	return nil
}
