package sessrep

import (
	"bytes"
	"encoding/base64"
	"errors"
	"fmt"
	"math/rand"
	"strings"
	"time"

	smtp "github.com/emersion/go-smtp"

	"verifharness/drv"
	"verifharness/evid"
	"verifharness/rec"
	"verifharness/wire"
)

// IdleReadTimeout is the ReadTimeout of servers whose graph has IDLE edges.
const IdleReadTimeout = 400 * time.Millisecond

const (
	MaxLine  = 200 // configured MaxLineLength of the servers under test
	SmallMsg = "hi\r\n"
	BigMsg   = "MAIL FROM:<bait@x>\r\n" // 20 octets, looks like a command
	Chunk6   = "NOOP\r\n"               // 6 octets, looks like a command
	// what is pipelined behind every step that closes the connection
	AfterSuffix = "EHLO after.test\r\nMAIL FROM:<after@x.test>\r\nNOOP\r\n"
)

// Concrete is one abstract command made concrete.
type Concrete struct {
	Phases    [][]byte
	Setup     func(be *rec.Backend)
	EOF       bool
	Abort     bool   // with EOF: tear the transport down instead of an orderly close
	IdleAuth  bool   // nothing is sent until the read of the SASL response has timed out
	Idle      bool   // send nothing: wait for the server's read timeout
	ThenEOF   bool   // close the write side after the phases
	StallThen []byte // after the phases: stay silent until the server has reacted to its read timeout, then send this
	Handshake bool
	Hostname  string
	MailFrom  string
	RcptTo    string
	Body      []byte // expected octets at the backend (nil: not checked)
	CheckBody bool
	SASL      []byte // expected response octets of the SASLNext in this step
	CheckSASL bool
}

func b64(b []byte) string { return base64.StdEncoding.EncodeToString(b) }

// Concretize renders the label of e as octets and a backend script. n is the
// step number (used to make names unique), closing tells that the
// specification says the connection ends in this step.
func Concretize(e *Edge, n int) Concrete {
	c := e.Lbl.Cmd
	var k Concrete
	line := func(s string) { k.Phases = append(k.Phases, []byte(s+"\r\n")) }
	hasCb := func(name string) bool {
		for _, cb := range e.Lbl.Cbs {
			if strings.HasPrefix(cb.N, name) {
				return true
			}
		}
		return false
	}
	switch c.C {
	case "HELO", "EHLO", "LHLO":
		switch c.A {
		case "noarg":
			line(c.C)
		default:
			k.Hostname = fmt.Sprintf("h%d.test", n)
			line(c.C + " " + k.Hostname)
			if c.A == "nsfail" {
				k.Setup = func(be *rec.Backend) { be.NewSessionErrs = []error{errors.New("no session today")} }
			}
		}
	case "MAIL":
		k.MailFrom = fmt.Sprintf("s%d@x.test", n)
		base := "MAIL FROM:<" + k.MailFrom + ">"
		switch c.A {
		case "ok":
			line(base)
		case "rej":
			line(base)
			k.Setup = func(be *rec.Backend) { be.MailErrs = []error{errors.New("sender refused")} }
		case "rej5":
			line(base)
			k.Setup = func(be *rec.Backend) {
				be.MailErrs = []error{&smtp.SMTPError{Code: 550, Message: "sender refused for good"}}
			}
		case "panic":
			line(base)
			k.Setup = func(be *rec.Backend) { be.PanicIn = "Mail" }
		case "nofrom":
			line("MAIL TO:<" + k.MailFrom + ">")
		case "badpath":
			line("MAIL FROM:<bad")
		case "unkparam":
			line(base + " FOO=1")
		case "badsize":
			line(base + " SIZE=abc")
		case "sizeok":
			line(base + " SIZE=5")
		case "sizeover":
			line(base + " SIZE=100")
		case "binarymime":
			line(base + " BODY=BINARYMIME")
		case "ret":
			line(base + " RET=FULL")
		}
	case "RCPT":
		k.RcptTo = fmt.Sprintf("r%d@x.test", n)
		base := "RCPT TO:<" + k.RcptTo + ">"
		switch c.A {
		case "ok":
			line(base)
		case "rej":
			line(base)
			k.Setup = func(be *rec.Backend) { be.RcptErrs = []error{errors.New("recipient refused")} }
		case "rej5":
			line(base)
			k.Setup = func(be *rec.Backend) { be.RcptErrs = []error{&smtp.SMTPError{Code: 550, Message: "no such user here"}} }
		case "noto":
			line("RCPT FROM:<" + k.RcptTo + ">")
		case "badpath":
			line("RCPT TO:<bad")
		case "unkparam":
			line(base + " FOO=1")
		case "notify":
			line(base + " NOTIFY=SUCCESS")
		}
	case "DATA":
		switch c.A {
		case "arg":
			line("DATA x")
		case "refused":
			line("DATA")
		default:
			line("DATA")
			body := SmallMsg
			if c.A == "big" {
				body = BigMsg
			}
			k.Phases = append(k.Phases, []byte(body+".\r\n"))
			plan := rec.DataPlan{Propagate: true}
			parts := strings.Split(c.P, "-")
			if parts[0] == "none" {
				plan.ReadMode = rec.ReadNone
			}
			if parts[0] == "some" {
				plan.ReadMode = rec.ReadK
				plan.K = 2
			}
			if parts[1] == "rej" {
				plan.Err = fmt.Errorf("verdict-%d", n)
			}
			if parts[1] == "panic" {
				plan.Panic = true
			}
			k.Setup = func(be *rec.Backend) { be.DataPlans = []rec.DataPlan{plan} }
			if parts[0] == "all" {
				k.CheckBody = true
				k.Body = []byte(body)
				if e.Cfg.MaxBytes > 0 && len(body) > e.Cfg.MaxBytes {
					k.Body = []byte(body[:e.Cfg.MaxBytes])
				}
			}
		}
	case "DATACUT":
		line("DATA")
		parts := []string{"", "h", "hi\r\n", "hi\r\n.", "hi\r\n.\r", "NOOP\r\n"}
		part := parts[n%len(parts)]
		if c.A == "over" {
			part = "0123456789ab\r\n.\r"[:e.Cfg.MaxBytes+1+n%4]
		}
		if part != "" {
			k.Phases = append(k.Phases, []byte(part))
		}
		k.ThenEOF = true
		k.Setup = func(be *rec.Backend) { be.DataPlans = []rec.DataPlan{{Propagate: true}} }
	case "DATASTALL":
		line("DATA")
		k.Phases = append(k.Phases, []byte("hi\r\n"))
		// the rest of the message arrives after the silence: message text that looks like commands
		k.StallThen = []byte(fmt.Sprintf("MAIL FROM:<bait%d@x.test>\r\n.\r\nNOOP\r\n", n))
		k.Setup = func(be *rec.Backend) { be.DataPlans = []rec.DataPlan{{Propagate: true}} }
	case "BDATSTALL":
		l := ""
		if c.L {
			l = " LAST"
		}
		k.Phases = append(k.Phases, []byte(fmt.Sprintf("BDAT %d%s\r\nab", c.N, l)))
		k.StallThen = []byte("\r\n\r\nNOOP\r\nNOOP\r\n") // the 4 missing octets of the chunk, then commands
		if c.P != "" {
			k.Setup = func(be *rec.Backend) { be.DataPlans = []rec.DataPlan{{Propagate: true}} }
		}
	case "BDATCUT":
		l := ""
		if c.L {
			l = " LAST"
		}
		payload := ""
		if c.A == "some" {
			payload = (Chunk6 + Chunk6)[:1+n%(c.N-1)]
		}
		k.Phases = append(k.Phases, []byte(fmt.Sprintf("BDAT %d%s\r\n%s", c.N, l, payload)))
		k.ThenEOF = true
		if c.P != "" {
			plan := rec.DataPlan{}
			switch c.P {
			case "rej":
				plan.Err = fmt.Errorf("verdict-%d", n)
			case "early":
				plan.ReadMode = rec.ReadNone
				plan.Err = fmt.Errorf("verdict-%d", n)
			case "panic":
				plan.Panic = true
			case "eacc":
				plan.ReadMode = rec.ReadNone // returns nil at once
			}
			k.Setup = func(be *rec.Backend) { be.DataPlans = []rec.DataPlan{plan} }
		}
	case "BDAT":
		payload := ""
		if c.N == 6 {
			payload = Chunk6
		} else if c.N == 12 {
			payload = Chunk6 + Chunk6
		} else if c.N == 3 {
			payload = "a\r\n"
		} else if c.N > 0 {
			payload = strings.Repeat("x", c.N)
		}
		switch c.A {
		case "noarg":
			line("BDAT")
		case "badsize":
			// not 1*DIGIT: must be refused, never framed with a guessed length
			// (nor a size no chunk can have: the widths an implementation may parse it with)
			vs := []string{"abc", "0x6", "+6", "-6", "6.0", "1_0", "4294967296", "0b11", "0o6",
				"9223372036854775808", "9223372036854775808 LAST", "18446744073709551615 LAST", "18446744073709551616", "4294967296 LAST", "99999999999999999999 LAST"}
			line("BDAT " + vs[n%len(vs)])
		case "3args":
			if c.L {
				k.Phases = append(k.Phases, []byte(fmt.Sprintf("BDAT %d LAST X\r\n%s", c.N, payload)))
			} else {
				k.Phases = append(k.Phases, []byte(fmt.Sprintf("BDAT %d X Y\r\n%s", c.N, payload)))
			}
		case "badlast":
			k.Phases = append(k.Phases, []byte(fmt.Sprintf("BDAT %d FOO\r\n%s", c.N, payload)))
		default:
			l := ""
			if c.L {
				l = " LAST"
			}
			k.Phases = append(k.Phases, []byte(fmt.Sprintf("BDAT %d%s\r\n%s", c.N, l, payload)))
			if c.P != "" {
				plan := rec.DataPlan{Propagate: false}
				switch c.P {
				case "rej":
					plan.Err = fmt.Errorf("verdict-%d", n)
				case "early":
					plan.ReadMode = rec.ReadNone
					plan.Err = fmt.Errorf("verdict-%d", n)
				case "panic":
					plan.Panic = true
				case "eacc":
					plan.ReadMode = rec.ReadNone // returns nil at once
				case "eacc1", "eacc4":
					plan.ReadMode = rec.ReadK // returns nil after 1 / 4 octets
					plan.K = map[string]int{"eacc1": 1, "eacc4": 4}[c.P]
				case "mid1", "mid4":
					plan.ReadMode = rec.ReadK
					plan.K = map[string]int{"mid1": 1, "mid4": 4}[c.P]
					plan.Err = fmt.Errorf("verdict-%d", n)
				}
				if hasCb("Data.begin") || hasCb("LMTPData.begin") {
					k.Setup = func(be *rec.Backend) { be.DataPlans = []rec.DataPlan{plan} }
				}
			}
		}
	case "RSET", "NOOP", "VRFY", "HELP", "QUIT":
		if c.C == "VRFY" {
			line("VRFY someone")
		} else {
			line(c.C)
		}
		if c.C == "RSET" && c.A == "panic" {
			k.Setup = func(be *rec.Backend) { be.PanicIn = "Reset" }
		}
	case "BAD":
		switch c.A {
		case "unknown":
			line("XYZW foo")
		case "empty":
			line("")
		case "short":
			line("AB")
		case "nospace":
			line("NOOPX")
		}
	case "EOF":
		k.EOF = true
		k.Abort = c.A == "abort"
	case "IDLE":
		k.Idle = c.A != "auth"
		k.IdleAuth = c.A == "auth"
	case "LONG":
		line(strings.Repeat("A", MaxLine+100))
	case "AFTER":
		// nothing: already sent behind the closing step
	case "AUTH":
		switch c.A {
		case "noarg":
			line("AUTH")
		case "refused":
			line("AUTH PLAIN")
		case "badir":
			line("AUTH PLAIN !!!")
		case "unkmech":
			line("AUTH FOO")
		default:
			resp := []byte(fmt.Sprintf("\x00user%d\x00p\xffss", n))
			switch c.A {
			case "none":
				line("AUTH PLAIN")
				k.SASL = nil
			case "empty":
				line("AUTH PLAIN =")
				k.SASL = []byte{}
			case "bytes":
				line("AUTH PLAIN " + b64(resp))
				k.SASL = resp
			}
			k.CheckSASL = true
			var plan []rec.AuthStep
			for i := 0; i < c.N; i++ {
				plan = append(plan, rec.AuthStep{Challenge: []byte(fmt.Sprintf("chal-%d-%d\x00\xfe", n, i))})
			}
			if c.P == "ok" {
				plan = append(plan, rec.AuthStep{Done: true})
			} else {
				// (mechanisms differ in what they report along with a failure: go-sasl's PLAIN
				// and LOGIN servers say "done" together with the error, others do not)
				plan = append(plan, rec.AuthStep{Err: errors.New("credentials refused"), Done: n%2 == 0})
			}
			k.Setup = func(be *rec.Backend) { be.AuthPlans = [][]rec.AuthStep{plan} }
		}
	case "ARESP":
		resp := []byte(fmt.Sprintf("resp%d\x00\xff", n))
		switch c.A {
		case "bytes":
			line(b64(resp))
			k.SASL, k.CheckSASL = resp, true
		case "empty":
			line("=")
			k.SASL, k.CheckSASL = []byte{}, true
		case "emptyline":
			line("")
			k.SASL, k.CheckSASL = []byte{}, true
		case "cancel":
			line("*")
		case "bad":
			line("!!!not-base64!!!")
		}
	case "STARTTLS":
		if c.A == "badhs" {
			line("STARTTLS")
			if len(e.Lbl.Replies) > 0 && e.Lbl.Replies[0].Code == 220 {
				k.Phases = append(k.Phases, []byte("HELLO")) // five octets that are no TLS record header
			}
		} else if c.A == "inject" {
			k.Phases = append(k.Phases, []byte("STARTTLS\r\nNOOP\r\nMAIL FROM:<injected@x.test>\r\n"))
		} else {
			line("STARTTLS")
		}
		k.Handshake = c.A != "badhs" && len(e.Lbl.Replies) > 0 && e.Lbl.Replies[0].Code == 220
	default:
		panic("unknown abstract command " + c.C)
	}
	// command verbs and keywords are case-insensitive (RFC 5321 section 2.4):
	// the spelling rotates with the step number
	if len(k.Phases) > 0 {
		switch c.C {
		case "HELO", "EHLO", "LHLO", "MAIL", "RCPT", "DATA", "BDAT", "RSET", "NOOP", "VRFY", "HELP", "QUIT", "STARTTLS", "AUTH",
			"DATACUT", "BDATCUT", "DATASTALL", "BDATSTALL":
			if c.A != "badsize" && c.A != "badpath" {
				k.Phases[0] = recaseCommand(k.Phases[0], n%3)
			}
		}
	}
	if e.Dst.Closed && !e.Src.Closed && !k.EOF && !k.ThenEOF && k.StallThen == nil && len(k.Phases) > 0 {
		// pipeline the suffix behind the closing command, in the same segment
		last := len(k.Phases) - 1
		k.Phases[last] = append(append([]byte{}, k.Phases[last]...), AfterSuffix...)
	}
	return k
}

// CallName maps a logged backend call to the callback name of the spec.
func CallName(c rec.Call) CbRec {
	switch c.Name {
	case "NewSession":
		if c.Err != "" {
			return CbRec{"NewSession.fail", 0}
		}
		return CbRec{"NewSession", c.Sess}
	case "Data", "LMTPData":
		if c.Phase == "begin" {
			return CbRec{c.Name + ".begin", c.Sess}
		}
		k := "err"
		switch {
		case c.ReadErr == "EOF":
			k = "eof"
		case c.ReadErr == "":
			k = "none"
		case c.ReadErr == smtp.ErrDataReset.Error():
			k = "abort"
		}
		return CbRec{c.Name + ".end:" + k, c.Sess}
	case "SASLNext":
		k := "bytes"
		if c.NilData {
			k = "none"
		} else if len(c.Data) == 0 {
			k = "empty"
		}
		return CbRec{"SASLNext:" + k, c.Sess}
	}
	return CbRec{c.Name, c.Sess}
}

func isDataCb(n string) bool {
	return strings.HasPrefix(n, "Data.") || strings.HasPrefix(n, "LMTPData.")
}

// StepRec is one executed step, kept for replay files and samples.
type StepRec struct {
	Cmd     string   `json:"cmd"`
	Sent    []string `json:"sent"`
	Replies []string `json:"replies"`
	Cbs     []string `json:"callbacks"`
	Expect  string   `json:"expected,omitempty"`
}

// Conv is one connection being driven along a path of the graph.
type Conv struct {
	G        *Graph
	Srv      *drv.Server
	C        *drv.Conn
	N        int
	Hist     []StepRec
	Labels   []Label
	accepted []string
	dead     bool
	sessBase int // backend session counter when the connection was opened
}

func DrvCfg(c CfgRec) drv.Cfg {
	return drv.Cfg{LMTP: c.Lmtp, MaxRcpt: c.MaxRcpt, MaxBytes: int64(c.MaxBytes), MaxLine: MaxLine,
		TLSAvail: c.TlsAvail, ImplicitTLS: c.ImplicitTLS, InsecureAuth: c.InsecureAuth,
		AuthBackend: c.AuthBackend, LMTPBackend: c.LmtpBackend, Binarymime: c.Binarymime, DSN: c.Dsn}
}

func NewConv(g *Graph, srv *drv.Server) (*Conv, error) {
	c, err := srv.Dial()
	if err != nil {
		return nil, err
	}
	cv := &Conv{G: g, Srv: srv, C: c, sessBase: srv.BE.NumSessions()}
	out, _ := c.Output()
	rs, rest, syn := wire.ParseAll(out)
	if syn != "" || len(rest) > 0 || len(rs) != 1 || rs[0].Code != 220 {
		return cv, fmt.Errorf("bad greeting %q", out)
	}
	c.Events()
	return cv, nil
}

func (cv *Conv) Close() {
	cv.Srv.BE.ReleaseAll()
	cv.C.Close()
}

func replayOf(cv *Conv, e *Edge) interface{} {
	labels := append(append([]Label{}, cv.Labels...), e.Lbl)
	return map[string]interface{}{"engine": "session", "cfg": cv.G.Cfg, "path": labels, "transcript": cv.Hist}
}

// Exec runs edge e lock-step and returns the divergences it shows.
func (cv *Conv) Exec(e *Edge) (divs []evid.Div, fatal error) {
	cv.N++
	k := Concretize(e, cv.N)
	be := cv.Srv.BE
	be.Lock()
	be.NewSessionErrs, be.MailErrs, be.RcptErrs, be.DataPlans, be.AuthPlans, be.PanicIn = nil, nil, nil, nil, nil, ""
	if k.Setup != nil {
		k.Setup(be)
	}
	be.Unlock()
	mark := be.NumCalls()
	var out []byte
	var sent []string
	if e.Lbl.Cmd.C == "AFTER" {
		// covered by the step that closed the connection
		cv.Labels = append(cv.Labels, e.Lbl)
		return nil, nil
	}
	if k.EOF {
		if k.Abort {
			cv.C.Abort()
		} else {
			cv.C.CloseWrite()
		}
		if !cv.C.WaitIdle() {
			return nil, fmt.Errorf("server not idle after EOF")
		}
		o, _ := cv.C.Output()
		out = append(out, o...)
		sent = append(sent, "<EOF>")
	}
	if k.IdleAuth {
		// nothing is sent until the server's read of the SASL response has failed
		// (observed through the hook event, not by sleeping: the next step has
		// to arrive before the idle timeout of the command loop)
		n0 := cv.C.AuthReadErrors()
		for dl := time.Now().Add(IdleReadTimeout*4 + 2*time.Second); cv.C.AuthReadErrors() == n0 && !cv.C.SrvEnd.Closed() && time.Now().Before(dl); {
			time.Sleep(200 * time.Microsecond)
		}
		time.Sleep(2 * time.Millisecond) // anything the server writes at this point
		o, _ := cv.C.Output()
		out = append(out, o...)
		sent = append(sent, "<idle during AUTH>")
	}
	if k.Idle {
		// nothing is sent: the server's ReadTimeout must end the connection
		for dl := time.Now().Add(IdleReadTimeout*4 + 2*time.Second); !cv.C.SrvEnd.Closed() && time.Now().Before(dl); {
			time.Sleep(2 * time.Millisecond)
		}
		cv.C.WaitIdle()
		o, _ := cv.C.Output()
		out = append(out, o...)
		sent = append(sent, "<idle>")
	}
	for i, ph := range k.Phases {
		o, _, err := cv.C.Step(ph)
		out = append(out, o...)
		sent = append(sent, string(ph))
		if err != nil {
			var stuck *drv.StuckError
			if errors.As(err, &stuck) {
				cv.dead = true
				cv.Hist = append(cv.Hist, StepRec{Cmd: e.Lbl.Cmd.String(), Sent: sent, Expect: "HANG: " + stuck.Where})
				hp := "C04" // no reply
				if e.Dst.Closed || strings.Contains(stuck.Where, "(*Conn).Close") {
					hp = "C08" // the connection never ends: no Logout, goroutine left behind
				}
				d := evid.Div{Prop: hp, Key: "hang:" + e.Lbl.Cmd.String() + ":" + stuck.Where,
					Msg: fmt.Sprintf("%s in state %s: no reply - %v\n%s", e.Lbl.Cmd, stShort(e.Src), stuck, stuck.Dump), Replay: replayOf(cv, e)}
				cv.Labels = append(cv.Labels, e.Lbl)
				out := []evid.Div{d}
				if strings.HasPrefix(e.Lbl.Cmd.C, "BDAT") && hp != "C05" {
					// "each BDAT command gets exactly one reply" is C05's clause as well
					d5 := d
					d5.Prop = "C05"
					out = append(out, d5)
				}
				if cc := e.Lbl.Cmd.C; e.Cfg.Lmtp && hp != "C13" && (strings.HasPrefix(cc, "DATA") || strings.HasPrefix(cc, "BDAT") && e.Lbl.Cmd.L) {
					// LMTP: the final response "never deadlocks" and has one reply per recipient
					d13 := d
					d13.Prop = "C13"
					out = append(out, d13)
				}
				if hp != "C08" {
					// does the wedged connection at least end when its peer goes away?
					cv.C.Abort()
					for dl := time.Now().Add(700 * time.Millisecond); time.Now().Before(dl) && !cv.C.Ended(); {
						time.Sleep(time.Millisecond)
					}
					if !cv.C.Ended() {
						out = append(out, evid.Div{Prop: "C08", Key: "hang-outlives-peer:" + e.Lbl.Cmd.String() + ":" + stuck.Where,
							Msg: fmt.Sprintf("%s in state %s: the server is stuck (%v) and the goroutine serving the connection does not end when the peer disconnects: no Logout, goroutine left behind", e.Lbl.Cmd, stShort(e.Src), stuck), Replay: replayOf(cv, e)})
					}
				}
				return out, nil
			}
			return nil, err
		}
		if i+1 < len(k.Phases) {
			// continue only after an intermediate reply
			// (LMTP backends may answer before the message has been sent)
			rs, _, _ := wire.ParseAll(o)
			if len(rs) < 1 || (rs[0].Code/100 != 3 && !(e.Lbl.Cmd.C == "STARTTLS" && rs[0].Code == 220)) {
				break
			}
		}
	}
	if k.StallThen != nil {
		// silence until the server has reacted (a reply, or the connection ended)
		n0 := len(out)
		for dl := time.Now().Add(IdleReadTimeout*4 + 2*time.Second); time.Now().Before(dl) && !cv.C.SrvEnd.Closed(); {
			o, _ := cv.C.Output()
			out = append(out, o...)
			if len(out) > n0 {
				break
			}
			time.Sleep(time.Millisecond)
		}
		cv.C.WaitIdle()
		sent = append(sent, "<silence>")
		cv.C.Send(k.StallThen) // (fails when the server has closed: that is the intended outcome)
		cv.C.WaitIdle()
		o, _ := cv.C.Output()
		out = append(out, o...)
		sent = append(sent, string(k.StallThen))
	}
	if k.ThenEOF {
		cv.C.CloseWrite()
		if !cv.C.WaitIdle() {
			return nil, fmt.Errorf("server not idle after cut")
		}
		o, _ := cv.C.Output()
		out = append(out, o...)
		sent = append(sent, "<EOF>")
	}
	if k.Handshake {
		rs, _, _ := wire.ParseAll(out)
		if len(rs) >= 1 && rs[0].Code == 220 {
			if err := cv.C.StartTLSClient(); err != nil {
				divs = append(divs, evid.Div{Prop: "C10", Key: "starttls-handshake-failed:" + e.Lbl.Cmd.String(),
					Msg: fmt.Sprintf("TLS handshake after 220 failed: %v", err), Replay: replayOf(cv, e)})
				cv.dead = true
				return divs, nil
			}
			if !cv.C.WaitIdle() {
				return nil, fmt.Errorf("server not idle after TLS handshake")
			}
			o, _ := cv.C.Output()
			out = append(out, o...)
		}
	}
	calls := be.Since(mark)
	// A delivery goroutine that was just spawned (BDAT 0) or just woken up is
	// not covered by the idleness detector: give the data callbacks the
	// specification expects a moment to show up.
	wantData := 0
	for _, cb := range e.Lbl.Cbs {
		if isDataCb(cb.N) {
			wantData++
		}
	}
	for dl := time.Now().Add(time.Second); ; {
		have := 0
		for _, c := range calls {
			if c.Name == "Data" || c.Name == "LMTPData" {
				have++
			}
		}
		if have >= wantData || time.Now().After(dl) {
			break
		}
		time.Sleep(100 * time.Microsecond)
		calls = be.Since(mark)
	}
	st := StepRec{Cmd: e.Lbl.Cmd.String(), Sent: sent}
	// ---- replies ----
	rs, rest, syn := wire.ParseAll(out)
	for _, r := range rs {
		st.Replies = append(st.Replies, strings.TrimRight(r.Raw, "\r\n"))
	}
	var gotCbs []CbRec
	for _, c := range calls {
		if c.Sess != 0 {
			c.Sess -= cv.sessBase
		}
		cb := CallName(c)
		gotCbs = append(gotCbs, cb)
		st.Cbs = append(st.Cbs, c.Short())
	}
	st.Expect = fmt.Sprintf("replies %v callbacks %v", e.Lbl.Replies, e.Lbl.Cbs)
	cv.Hist = append(cv.Hist, st)
	defer func() { cv.Labels = append(cv.Labels, e.Lbl) }()
	rp := func() interface{} {
		labels := append(append([]Label{}, cv.Labels...), e.Lbl)
		return map[string]interface{}{"engine": "session", "cfg": cv.G.Cfg, "path": labels, "transcript": cv.Hist}
	}
	closing := e.Dst.Closed
	ctx := fmt.Sprintf("%s in state %s", e.Lbl.Cmd, stShort(e.Src))
	if syn != "" || len(rest) > 0 {
		divs = append(divs, evid.Div{Prop: "C04", Key: "reply-syntax:" + e.Lbl.Cmd.String(),
			Msg: fmt.Sprintf("%s: malformed reply stream: %s rest=%q out=%q", ctx, syn, rest, out), Replay: rp()})
	}
	exp := e.Lbl.Replies
	mism := len(rs) != len(exp)
	if !mism {
		for i := range exp {
			if rs[i].Code != exp[i].Code || rs[i].Enh != exp[i].EnhStr() {
				mism = true
			}
		}
	}
	if mism {
		prop := "C04"
		if e.Lbl.Cmd.C == "IDLE" && !closing && len(rs) > 0 && rs[len(rs)-1].Code == 421 {
			prop = "C08" // the server says it gives up the connection, and goes on serving it
		} else if closing && len(rs) > len(exp) && prefixOK(rs, exp) {
			prop = "C08" // something ran after the connection was given up
		} else if e.Lbl.Cmd.C == "STARTTLS" {
			prop = "C10" // offered and accepted only when TLS is configured and not yet active
		} else if e.Lbl.Cmd.C == "LONG" || e.Lbl.Cmd.C == "BAD" {
			prop = "C19"
		} else if cc := e.Lbl.Cmd.C; e.Cfg.Lmtp && len(rs) != len(exp) && (cc == "DATA" || cc == "DATASTALL" || (cc == "BDAT" || cc == "BDATSTALL") && e.Lbl.Cmd.L) && len(rs) <= len(exp) {
			prop = "C13" // LMTP: one final reply per accepted recipient
		}
		divs = append(divs, evid.Div{Prop: prop, Key: fmt.Sprintf("replies:%s:%s", e.Lbl.Cmd.String(), srcClass(e)),
			Msg: fmt.Sprintf("%s: expected replies %v, got %v", ctx, exp, st.Replies), Replay: rp()})
		if prop != "C04" && len(rs) != len(exp) {
			// whatever else it is, the NUMBER of replies is C04's ("exactly one reply per command ... until it closes")
			divs = append(divs, evid.Div{Prop: "C04", Key: fmt.Sprintf("reply-count:%s:%s", e.Lbl.Cmd.String(), srcClass(e)),
				Msg: fmt.Sprintf("%s: expected %d replies %v, got %d: %v", ctx, len(exp), exp, len(rs), st.Replies), Replay: rp()})
		}
		if prop != "C05" && strings.HasPrefix(e.Lbl.Cmd.C, "BDAT") && len(rs) != len(exp) && !(e.Cfg.Lmtp && e.Lbl.Cmd.L) {
			// "each BDAT command gets exactly one reply" is C05's clause as well
			divs = append(divs, evid.Div{Prop: "C05", Key: fmt.Sprintf("bdat-reply-count:%s:%s", e.Lbl.Cmd.String(), srcClass(e)),
				Msg: fmt.Sprintf("%s: expected %d replies %v, got %d: %v", ctx, len(exp), exp, len(rs), st.Replies), Replay: rp()})
		}
		if cc := e.Lbl.Cmd.C; prop != "C07" && (strings.HasPrefix(cc, "BDAT") || strings.HasPrefix(cc, "DATA")) {
			// a positive reply where the specification has none: something was
			// reported as received that did not arrive
			pos := func(codes []int) bool {
				for _, c := range codes {
					if c == 250 {
						return true
					}
				}
				return false
			}
			var gc, ec []int
			for _, r := range rs {
				gc = append(gc, r.Code)
			}
			for _, r := range exp {
				ec = append(ec, r.Code)
			}
			if pos(gc) && !pos(ec) {
				divs = append(divs, evid.Div{Prop: "C07", Key: fmt.Sprintf("positive-unexpected:%s:%s", e.Lbl.Cmd.String(), srcClass(e)),
					Msg: fmt.Sprintf("%s: a positive reply where the specification has none: expected %v, got %v", ctx, exp, st.Replies), Replay: rp()})
			}
		}
	} else {
		for i, r := range rs {
			exempt := r.Code == 250 && (e.Lbl.Cmd.C == "EHLO" || e.Lbl.Cmd.C == "LHLO")
			if m := wire.CheckEnhanced(r, exempt); m != "" {
				divs = append(divs, evid.Div{Prop: "C04", Key: "enhanced:" + e.Lbl.Cmd.String(), Msg: ctx + ": " + m, Replay: rp()})
			}
			// LMTP finals name their recipient, in RCPT order
			// (the 421 of a recovered backend panic ends the connection and is not judged)
			if e.Cfg.Lmtp && r.Code != 421 && len(exp) > 1 && (e.Lbl.Cmd.C == "DATA" && i >= 1 || e.Lbl.Cmd.C == "BDAT") {
				idx := i
				if e.Lbl.Cmd.C == "DATA" {
					idx = i - 1
				}
				if idx < len(cv.accepted) {
					want := "<" + cv.accepted[idx] + "> "
					if !strings.HasPrefix(r.Text(), want) {
						divs = append(divs, evid.Div{Prop: "C13", Key: "lmtp-rcpt-name:" + e.Lbl.Cmd.String(),
							Msg: fmt.Sprintf("%s: final reply %d should name %s, got %q", ctx, idx, want, r.Text()), Replay: rp()})
					}
				}
			}
		}
	}
	// ---- callbacks: loop callbacks in order, data callbacks as a multiset ----
	var expSeq, gotSeq []string
	expData, gotData := map[string]int{}, map[string]int{}
	for _, cb := range e.Lbl.Cbs {
		if isDataCb(cb.N) {
			expData[cb.String()]++
		} else {
			expSeq = append(expSeq, cb.String())
		}
	}
	for _, cb := range gotCbs {
		if isDataCb(cb.N) {
			gotData[cb.String()]++
		} else {
			gotSeq = append(gotSeq, cb.String())
		}
	}
	cbMism := strings.Join(expSeq, ",") != strings.Join(gotSeq, ",")
	for k, v := range expData {
		if gotData[k] != v {
			cbMism = true
		}
	}
	for k, v := range gotData {
		if expData[k] != v {
			cbMism = true
		}
	}
	if cbMism {
		prop := "C03"
		all := strings.Join(expSeq, ",") + "|" + strings.Join(gotSeq, ",")
		switch {
		case strings.Join(expSeq, ",") == strings.Join(gotSeq, ",") && strings.Contains(fmt.Sprint(gotData), "end:eof") && !strings.Contains(fmt.Sprint(expData), "end:eof"):
			// only the way the transfer ended differs, and the backend saw end-of-file
			// where the specification says an error: an incomplete message passed off as complete
			prop = "C07"
		case closing && len(gotSeq) >= len(expSeq) && strings.HasPrefix(strings.Join(gotSeq, ",")+",", strings.Join(expSeq, ",")+","):
			prop = "C08"
		case strings.Count(strings.Join(expSeq, ","), "Logout") != strings.Count(strings.Join(gotSeq, ","), "Logout"):
			prop = "C08"
			if e.Lbl.Cmd.C == "STARTTLS" {
				prop = "C10"
			}
		case strings.Contains(all, "SASLNext") || strings.Contains(all, ".Auth"):
			prop = "C09"
		case e.Lbl.Cmd.C == "STARTTLS":
			prop = "C10"
		case fmt.Sprint(expData) != fmt.Sprint(gotData) && strings.Join(expSeq, ",") == strings.Join(gotSeq, ","):
			// only the data callbacks differ: how the transfer ended
			if strings.Contains(fmt.Sprint(gotData), "end:eof") && !strings.Contains(fmt.Sprint(expData), "end:eof") {
				prop = "C07"
			}
		}
		divs = append(divs, evid.Div{Prop: prop, Key: fmt.Sprintf("callbacks:%s:%s", e.Lbl.Cmd.String(), srcClass(e)),
			Msg: fmt.Sprintf("%s: expected callbacks %v, got %v", ctx, e.Lbl.Cbs, st.Cbs), Replay: rp()})
		afterRan := closing && strings.Contains(fmt.Sprint(st.Cbs), "after@")
		if afterRan && prop != "C08" {
			// a command pipelined behind the step that gave the connection up reached the backend
			divs = append(divs, evid.Div{Prop: "C08", Key: fmt.Sprintf("after-ran:%s:%s", e.Lbl.Cmd.String(), srcClass(e)),
				Msg: fmt.Sprintf("%s: a command sent behind the closing step was executed: expected callbacks %v, got %v", ctx, e.Lbl.Cbs, st.Cbs), Replay: rp()})
		}
		if (afterRan || prop == "C08" && closing && len(gotSeq) > len(expSeq)) && (e.Lbl.Cmd.C == "DATA" || strings.HasPrefix(e.Lbl.Cmd.C, "BDAT")) {
			// the connection was given up in the middle of a transfer and the server read on:
			// what it read on into is the unread rest of the message (C02 / C05)
			tp := "C02"
			if strings.HasPrefix(e.Lbl.Cmd.C, "BDAT") {
				tp = "C05"
			}
			divs = append(divs, evid.Div{Prop: tp, Key: fmt.Sprintf("read-on-after-giving-up:%s:%s", e.Lbl.Cmd.String(), srcClass(e)),
				Msg: fmt.Sprintf("%s: the server went on reading commands after it had given up the connection inside a transfer: expected callbacks %v, got %v", ctx, e.Lbl.Cbs, st.Cbs), Replay: rp()})
		}
		if prop == "C10" && strings.Count(strings.Join(expSeq, ","), "Logout") != strings.Count(strings.Join(gotSeq, ","), "Logout") {
			// a session logged out too often, too early or not at all is C08's business whatever the command
			divs = append(divs, evid.Div{Prop: "C08", Key: fmt.Sprintf("logout:%s:%s", e.Lbl.Cmd.String(), srcClass(e)),
				Msg: fmt.Sprintf("%s: expected callbacks %v, got %v", ctx, e.Lbl.Cbs, st.Cbs), Replay: rp()})
		}
		if prop == "C07" && e.Src.Bdat != "none" {
			// a chunked transfer: "end-of-file only after the LAST chunk" is C05's clause as well
			divs = append(divs, evid.Div{Prop: "C05", Key: fmt.Sprintf("eof-without-last:%s:%s", e.Lbl.Cmd.String(), srcClass(e)),
				Msg: fmt.Sprintf("%s: the backend's reader reported end-of-file although no LAST chunk was received: expected callbacks %v, got %v", ctx, e.Lbl.Cbs, st.Cbs), Replay: rp()})
		}
	}
	// ---- concretisation-level oracles ----
	firstSeen := map[string]bool{}
	for _, c := range calls {
		if firstSeen[c.Name+c.Phase] {
			continue // only the first call of a kind belongs to this command
		}
		firstSeen[c.Name+c.Phase] = true
		switch {
		case c.Name == "NewSession" && k.Hostname != "":
			if c.Hostname != k.Hostname || c.TLS != e.Src.Tls {
				divs = append(divs, evid.Div{Prop: "C03", Key: "newsession-view:" + e.Lbl.Cmd.String(),
					Msg: fmt.Sprintf("%s: NewSession saw Hostname=%q TLS=%v, greeting was %q TLS=%v", ctx, c.Hostname, c.TLS, k.Hostname, e.Src.Tls), Replay: rp()})
			}
		case c.Name == "Mail" && k.MailFrom != "" && c.From != k.MailFrom:
			divs = append(divs, evid.Div{Prop: "C11", Key: "mail-from:" + e.Lbl.Cmd.String(),
				Msg: fmt.Sprintf("%s: Mail got %q, sent %q", ctx, c.From, k.MailFrom), Replay: rp()})
		case c.Name == "Rcpt" && k.RcptTo != "" && c.To != k.RcptTo:
			divs = append(divs, evid.Div{Prop: "C11", Key: "rcpt-to:" + e.Lbl.Cmd.String(),
				Msg: fmt.Sprintf("%s: Rcpt got %q, sent %q", ctx, c.To, k.RcptTo), Replay: rp()})
		case (c.Name == "Data" || c.Name == "LMTPData") && c.Phase == "end" && k.CheckBody:
			if string(c.Data) != string(k.Body) {
				divs = append(divs, evid.Div{Prop: "C01", Key: "data-octets:" + e.Lbl.Cmd.String(),
					Msg: fmt.Sprintf("%s: backend read %q, expected %q", ctx, c.Data, k.Body), Replay: rp()})
			}
		case c.Name == "SASLNext" && k.CheckSASL:
			if string(c.Data) != string(k.SASL) || (k.SASL == nil) != c.NilData {
				divs = append(divs, evid.Div{Prop: "C09", Key: "sasl-octets:" + e.Lbl.Cmd.String(),
					Msg: fmt.Sprintf("%s: mechanism got %q (nil=%v), client sent %q", ctx, c.Data, c.NilData, k.SASL), Replay: rp()})
			}
		}
	}
	// ---- projected state ----
	if !closing {
		if s := cv.C.State(); s != nil {
			var diffs []string
			chk := func(name string, got, want interface{}) {
				if got != want {
					diffs = append(diffs, fmt.Sprintf("%s=%v (spec %v)", name, got, want))
				}
			}
			d := e.Dst
			chk("helo", s.Helo != "", d.Helo)
			chk("session", s.Session, d.Sess != 0)
			chk("from", s.From, d.From)
			chk("rcpts", s.Rcpts, d.Nrcpt)
			chk("bdat", s.Bdat, d.Bdat != "none")
			chk("binarymime", s.Binarymime, d.Binarymime)
			chk("didAuth", s.DidAuth, d.DidAuth)
			chk("errCount", s.ErrCount, d.ErrCount)
			chk("tls", s.TLS, d.Tls)
			if e.Cfg.MaxBytes > 0 {
				chk("bytes", int(s.Bytes), d.Bytes)
			}
			if d.AuthLeft == 0 && d.Bdat == "none" {
				chk("lineLimit", s.LineLimit, MaxLine)
			}
			if !d.Closed {
				// the LMTP status collector lives exactly as long as the chunked transfer
				chk("collector", s.Collector, e.Cfg.Lmtp && d.Bdat != "none")
				// an over-long line ends the connection: the condition is never left standing
				chk("tooLong", s.TooLong, false)
			}
			if len(diffs) > 0 {
				j := strings.Join(diffs, " ")
				// every field belongs to a property; a step may break several
				props := map[string]bool{}
				for _, d := range diffs {
					switch name := d[:strings.IndexByte(d, '=')]; name {
					case "tls":
						props["C10"] = true
						props["C09"] = true // what counts as a protected connection decides whether AUTH is allowed
						props["C03"] = true // and it is what the backend is shown while its session is created
					case "didAuth":
						props["C09"] = true
					case "errCount", "lineLimit", "tooLong":
						props["C19"] = true
					case "bytes":
						props["C06"] = true // the size accounting of the chunked transfer
					case "collector":
						props["C13"] = true
					default: // greeting, session, envelope, transfer
						props["C03"] = true
					}
				}
				if e.Lbl.Cmd.C == "STARTTLS" {
					props["C10"] = true // nothing learned in plaintext survives the upgrade
				}
				for _, prop := range []string{"C03", "C06", "C09", "C10", "C13", "C19"} {
					if props[prop] {
						divs = append(divs, evid.Div{Prop: prop, Key: fmt.Sprintf("state:%s:%s", e.Lbl.Cmd.String(), srcClass(e)),
							Msg: fmt.Sprintf("%s: connection state after the step differs: %s", ctx, j), Replay: rp()})
					}
				}
			}
		}
	}
	// harness-level envelope tracking for the LMTP name check
	for _, cb := range e.Lbl.Cbs {
		switch cb.N {
		case "Reset", "Logout":
			cv.accepted = nil
		case "Rcpt":
			if len(exp) > 0 && exp[len(exp)-1].Code/100 == 2 {
				cv.accepted = append(cv.accepted, k.RcptTo)
			}
		}
	}
	// A transfer step that produced MORE replies than specified, with the
	// specified ones as a prefix, executed message octets as commands: that is
	// the desynchronisation of C02 (DATA) / C05 (BDAT), whatever else it broke.
	if cc := e.Lbl.Cmd.C; (cc == "DATA" || cc == "BDAT" || cc == "DATASTALL" || cc == "BDATSTALL") && len(rs) > len(exp) && prefixOK(rs, exp) {
		prop := "C02"
		if strings.HasPrefix(cc, "BDAT") {
			prop = "C05"
		}
		var also []evid.Div
		for i := range divs {
			if strings.HasPrefix(divs[i].Key, "replies:") {
				c := divs[i]
				c.Prop = "C04" // "exactly one reply per command" is broken whatever caused it
				c.Key = "extra-replies:" + c.Key
				also = append(also, c)
			}
			divs[i].Prop = prop
			divs[i].Key = "desync:" + divs[i].Key
		}
		divs = append(divs, also...)
	}
	if e.Lbl.Cmd.C == "DATACUT" || e.Lbl.Cmd.C == "BDATCUT" {
		for i := range divs {
			divs[i].Prop = "C07"
		}
	}
	if cc := e.Lbl.Cmd.C; (cc == "DATASTALL" || cc == "BDATSTALL") && len(rs) < len(exp) {
		// the backend's error (here: the reader's, passed on) is owed to the client as a
		// reply even when the connection is given up afterwards
		divs = append(divs, evid.Div{Prop: "C17", Key: fmt.Sprintf("error-reply-missing:%s:%s", e.Lbl.Cmd.String(), srcClass(e)),
			Msg: fmt.Sprintf("%s: the backend returned an error and the client was not told: expected replies %v, got %v", ctx, exp, st.Replies), Replay: rp()})
	}
	if cc := e.Lbl.Cmd.C; cc == "DATASTALL" || cc == "BDATSTALL" {
		// a positive reply, or end-of-file at the backend, for a message that stopped arriving
		pos := false
		for _, r := range rs {
			if r.Code == 250 {
				pos = true
			}
		}
		eof := false
		for _, c := range calls {
			if c.Phase == "end" && c.ReadErr == "EOF" {
				eof = true
			}
		}
		if pos || eof {
			divs = append(divs, evid.Div{Prop: "C07", Key: fmt.Sprintf("stalled-complete:%s:%s", e.Lbl.Cmd.String(), srcClass(e)),
				Msg: fmt.Sprintf("%s: the message stopped arriving, yet the backend saw end-of-file (%v) / the reply was positive (%v): replies %v", ctx, eof, pos, st.Replies), Replay: rp()})
		}
	}
	if closing || len(divs) > 0 {
		cv.dead = true
	}
	return divs, nil
}

func prefixOK(rs []wire.Reply, exp []ReplyRec) bool {
	for i := range exp {
		if rs[i].Code != exp[i].Code {
			return false
		}
	}
	return true
}

func stShort(s StRec) string {
	return fmt.Sprintf("{helo=%v sess=%d from=%v rcpt=%d bdat=%s bytes=%d bin=%v auth=%v err=%d tls=%v closed=%v authLeft=%d}",
		s.Helo, s.Sess, s.From, s.Nrcpt, s.Bdat, s.Bytes, s.Binarymime, s.DidAuth, s.ErrCount, s.Tls, s.Closed, s.AuthLeft)
}

// srcClass is a coarse class of the source state used in divergence keys, so
// that the same defect seen from many states collapses to a few keys.
func srcClass(e *Edge) string {
	s := e.Src
	return fmt.Sprintf("lmtp=%v,greeted=%v,from=%v,rcpt=%v,bdat=%s", e.Cfg.Lmtp, s.Sess != 0, s.From, s.Nrcpt > 0, s.Bdat)
}

var Debug = false

// Stats of a replay run.
type Stats struct {
	Edges, Covered, Steps, Convs, Blocked, Walked, Hangs int
	Samples                                              []interface{}
}

// Tour covers every edge of g with greedy transition tours.
func Tour(g *Graph, run *evid.Run, rng *rand.Rand, maxEdges int) (Stats, error) {
	return TourFiltered(g, run, rng, maxEdges, nil)
}

// TourFiltered covers the edges selected by want (nil: all); other edges are
// only walked to reach them (and are still compared when walked).
func TourFiltered(g *Graph, run *evid.Run, rng *rand.Rand, maxEdges int, want func(*Edge) bool) (Stats, error) {
	var st Stats
	divSteps := 0
	covered := make([]bool, len(g.Edges))
	hasIdle := false
	for _, e := range g.Edges {
		if e.Lbl.Cmd.C == "IDLE" {
			hasIdle = true
		}
		if want != nil && !want(e) {
			covered[e.ID] = true
		} else {
			st.Edges++
		}
	}
	dcfg := DrvCfg(g.Cfg)
	if hasIdle {
		dcfg.ReadTimeout = IdleReadTimeout
	}
	srv := drv.Start(dcfg)
	defer srv.Stop()
	var cv *Conv
	cur := g.Init
	fresh := func() error {
		if cv != nil {
			cv.Close()
		}
		var err error
		cv, err = NewConv(g, srv)
		cur = g.Init
		st.Convs++
		return err
	}
	if err := fresh(); err != nil {
		return st, err
	}
	defer func() {
		if cv != nil {
			cv.Close()
		}
	}()
	for iter := 0; ; iter++ {
		if maxEdges > 0 && st.Covered >= maxEdges {
			break
		}
		if drv.TooManyHangs() {
			break
		}
		if Debug && iter%200 == 0 {
			fmt.Printf("tour cfg=%+v iter=%d covered=%d/%d steps=%d convs=%d\n", g.Cfg, iter, st.Covered, st.Edges, st.Steps, st.Convs)
		}
		path, ok := g.pathToUncovered(cur, covered)
		if !ok {
			if cur == g.Init {
				break
			}
			// nothing reachable from here: restart
			if err := fresh(); err != nil {
				return st, err
			}
			if _, ok := g.pathToUncovered(cur, covered); !ok {
				break
			}
			continue
		}
		// choose an uncovered edge at the end of the path
		node := cur
		if len(path) > 0 {
			node = path[len(path)-1].DstKey
		}
		var cands []*Edge
		for _, e := range g.Out[node] {
			if !covered[e.ID] {
				cands = append(cands, e)
			}
		}
		target := cands[rng.Intn(len(cands))]
		steps := append(path, target)
		for _, e := range steps {
			divs, err := cv.Exec(e)
			if err != nil {
				return st, fmt.Errorf("cfg %+v after %v: %v", g.Cfg, cv.Hist, err)
			}
			st.Steps++
			if !covered[e.ID] {
				covered[e.ID] = true
				st.Covered++
			}
			st.Walked++
			for _, d := range divs {
				if Debug {
					fmt.Printf("DIV %s %s: %.300s\n", d.Prop, d.Key, d.Msg)
				}
				run.Report(d)
				if strings.HasPrefix(d.Key, "hang:") {
					st.Hangs++
				}
			}
			if len(divs) > 0 {
				divSteps++
			}
			if divSteps >= 40 {
				// the code under test diverges all over this graph: what has been
				// reported is evidence enough, and every further target would have
				// to be reached through the same divergent steps again
				return st, nil
			}
			if st.Hangs >= 3 || drv.TooManyHangs() {
				// the server under test hangs: every further occurrence costs a
				// full timeout and proves nothing new
				return st, nil
			}
			if len(divs) > 0 && e != target {
				// a step on the way diverged: the target cannot be reached
				// through it this time; count it as blocked, not covered
				if !covered[target.ID] {
					covered[target.ID] = true
					st.Blocked++
				}
			}
			if len(st.Samples) < 2 && len(cv.Hist) >= 6 && len(cv.Hist) <= 12 && (cv.dead || e == target) {
				st.Samples = append(st.Samples, map[string]interface{}{"cfg": g.Cfg, "conversation": append([]StepRec{}, cv.Hist...)})
			}
			cur = e.DstKey
			if e.Dst.Closed {
				// the suffix pipelined behind the closing step exercised AFTER
				for _, a := range g.Out[e.DstKey] {
					if a.Lbl.Cmd.C == "AFTER" && !covered[a.ID] {
						covered[a.ID] = true
						st.Covered++
					}
				}
			}
			if cv.dead {
				if err := fresh(); err != nil {
					return st, err
				}
				break
			}
		}
	}
	return st, nil
}

var _ = time.Now

// recaseCommand changes the letter case of the verb and of the keywords of the
// command line that starts phase (style 0: as written, 1: lower case, 2:
// alternating); addresses, host names, sizes and base64 are left alone.
func recaseCommand(phase []byte, style int) []byte {
	if style == 0 {
		return phase
	}
	eol := bytes.Index(phase, []byte("\r\n"))
	if eol < 0 {
		return phase
	}
	conv := func(w string) string {
		if style == 1 {
			return strings.ToLower(w)
		}
		b := []byte(strings.ToLower(w))
		for i := 0; i < len(b); i += 2 {
			if b[i] >= 'a' && b[i] <= 'z' {
				b[i] -= 32
			}
		}
		return string(b)
	}
	lineS := string(phase[:eol])
	words := strings.Split(lineS, " ")
	verb := strings.ToUpper(words[0])
	words[0] = conv(words[0])
	inPath := false
	for i := 1; i < len(words); i++ {
		w := words[i]
		switch {
		case verb == "AUTH" && i == 1:
			words[i] = conv(w) // mechanism name
		case verb == "BDAT" && strings.EqualFold(w, "LAST"):
			words[i] = conv(w)
		case (verb == "MAIL" || verb == "RCPT") && !inPath:
			if j := strings.IndexByte(w, '<'); j >= 0 {
				words[i] = conv(w[:j]) + w[j:] // FROM: / TO:
				if !strings.Contains(w, ">") {
					inPath = true
				}
			} else if j := strings.IndexByte(w, '='); j > 0 && i > 1 {
				words[i] = conv(w[:j]) + w[j:] // parameter keyword
			} else if i > 1 && !strings.ContainsAny(w, "<>@") {
				words[i] = conv(w) // valueless parameter
			} else if i == 1 {
				words[i] = conv(w)
			}
		case inPath:
			if strings.Contains(w, ">") {
				inPath = false
			}
		}
	}
	out := append([]byte(strings.Join(words, " ")), phase[eol:]...)
	return out
}
