package sessrep

import (
	"bytes"
	"fmt"
	"math/rand"

	"verifharness/drv"
	"verifharness/evid"
)

// CutPath picks a random path suited for the cut-point sweep: it contains at
// least one accepted transfer, uses backends that read everything and pass
// reader errors on, and has no step whose outcome depends on partial input in
// a way the abstraction does not express (over-long lines, TLS).
func (g *Graph) CutPath(rng *rand.Rand, maxLen int) []*Edge {
	for try := 0; try < 200; try++ {
		var path []*Edge
		cur := g.Init
		transfers := 0
		for len(path) < maxLen {
			var cands []*Edge
			for _, e := range g.Out[cur] {
				c := e.Lbl.Cmd
				switch c.C {
				case "AFTER", "LONG", "EOF", "DATACUT", "BDATCUT", "STARTTLS", "QUIT":
					continue
				case "MAIL", "RSET":
					if c.A == "panic" {
						continue
					}
				case "BDAT":
					if c.P == "panic" {
						continue
					}
				case "DATA":
					if len(c.P) >= 4 && (c.P[:4] == "none" || c.P[:4] == "some") || c.P == "all-panic" || c.P == "none-panic" {
						continue
					}
				case "BAD":
					if e.Dst.Closed {
						continue
					}
				}
				if e.DstKey == e.SrcKey && rng.Intn(5) != 0 {
					continue
				}
				cands = append(cands, e)
			}
			if len(cands) == 0 {
				break
			}
			// bias towards progress: prefer edges with callbacks
			e := cands[rng.Intn(len(cands))]
			if len(e.Lbl.Cbs) == 0 && rng.Intn(2) == 0 {
				e = cands[rng.Intn(len(cands))]
			}
			path = append(path, e)
			cur = e.DstKey
			for _, cb := range e.Lbl.Cbs {
				if isDataCb(cb.N) && len(cb.N) > 6 && cb.N[len(cb.N)-6:] == ".begin" {
					transfers++
				}
			}
		}
		if transfers >= 1 {
			return path
		}
	}
	return nil
}

func (g *Graph) edgeByCmd(node string, c CmdRec) *Edge {
	for _, e := range g.Out[node] {
		if e.Lbl.Cmd == c {
			return e
		}
	}
	return nil
}

// CutSweep renders path, and for every octet offset sends that prefix and
// half-closes. What the specification expects for the prefix is found by
// following, in the graph, the labels of the complete steps, then the cut
// label for the step the offset falls into (inside a message: DATACUT /
// BDATCUT; inside a command line: the line is not a command), then EOF.
func CutSweep(g *Graph, srv *drv.Server, path []*Edge, rng *rand.Rand, every int) (n int, divs []evid.Div, err error) {
	type span struct{ start, lineEnd, end int }
	var wire []byte
	var spans []span
	for i, e := range path {
		k := Concretize(e, i+1)
		sp := span{start: len(wire)}
		for _, ph := range k.Phases {
			wire = append(wire, ph...)
		}
		sp.end = len(wire)
		sp.lineEnd = sp.start + bytes.Index(wire[sp.start:], []byte("\r\n")) + 2
		spans = append(spans, sp)
	}
	for off := 0; off <= len(wire) && !drv.TooManyHangs(); off += every {
		// labels for this prefix
		node := g.Init
		var exp []*Edge
		ok := true
		for i, e := range path {
			sp := spans[i]
			if off >= sp.end {
				exp = append(exp, e)
				node = e.DstKey
				continue
			}
			if off >= sp.lineEnd {
				// the command line is complete, the message / chunk is not
				c := e.Lbl.Cmd
				var cut CmdRec
				switch {
				case c.C == "DATA" && len(e.Lbl.Replies) > 0 && e.Lbl.Replies[0].Code == 354:
					cut = CmdRec{C: "DATACUT"}
					// (the corpus bodies contain no leading dots: octets = budget use)
					if g.Cfg.MaxBytes > 0 && off-sp.lineEnd > g.Cfg.MaxBytes {
						cut.A = "over"
					}
				case c.C == "BDAT" && (c.A == "" || c.A == "3args" || c.A == "badlast"):
					if c.A != "" || len(e.Lbl.Cbs) == 0 && e.Lbl.Replies[0].Code != 250 {
						// a refused BDAT: the payload is being discarded; the reply was
						// written before, nothing else happens
						exp = append(exp, e)
						node = e.DstKey
						break
					}
					some := "none"
					if off > sp.lineEnd {
						some = "some"
					}
					cut = CmdRec{C: "BDATCUT", A: some, N: c.N, L: c.L, P: c.P}
				default:
					ok = false
				}
				if cut.C != "" {
					ce := g.edgeByCmd(node, cut)
					if ce == nil {
						ok = false
					} else {
						exp = append(exp, ce)
						node = ce.DstKey
					}
				}
			}
			break
		}
		if !ok {
			continue
		}
		// the peer's EOF (unless a cut label already closed the connection)
		if len(exp) == 0 || !exp[len(exp)-1].Dst.Closed {
			ee := g.edgeByCmd(node, CmdRec{C: "EOF"})
			if ee == nil {
				continue
			}
			exp = append(exp, ee)
		}
		prefix := append([]byte{}, wire[:off]...)
		d, _, rerr := RunPath(g, srv, exp, prefix, "cut", rng)
		if rerr != nil {
			return n, divs, rerr
		}
		n++
		for i := range d {
			d[i].Key = fmt.Sprintf("cut:%s", d[i].Key)
			// classification: a truncated transfer presented as complete is
			// C07; Logout / after-close trouble C08
			if d[i].Prop == "C04" || d[i].Prop == "C03" {
				d[i].Prop = "C07"
			}
		}
		divs = append(divs, d...)
	}
	return n, divs, nil
}
