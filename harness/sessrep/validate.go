package sessrep

import (
	"encoding/json"
	"fmt"
	"strconv"
	"strings"

	"verifharness/evid"
	"verifharness/tlcrun"
)

// OneWalk is a recorded execution with its transcript.
type OneWalk struct {
	Events []TraceEvent
	Hist   []StepRec
	Cfg    CfgRec
	Seed   int64
}

type ValStats struct {
	Walks, Events, Accepted, Rejected int
	TLCStates, TLCGenerated           int64
	Runs                              int
}

// ValidateWalks lets TLC (Trace_SmtpServer) validate the concatenation of
// all walks. A rejected walk is diagnosed (TLC prints what the specification
// allows at the offending event), reported, removed, and the rest validated
// again, so one rejection does not leave later traces unexamined.
func ValidateWalks(run *evid.Run, walks []OneWalk, workers int) (ValStats, error) {
	var vs ValStats
	vs.Walks = len(walks)
	for _, w := range walks {
		vs.Events += len(w.Events)
	}
	remaining := walks
	for round := 0; round < 200 && len(remaining) > 0; round++ {
		var all []TraceEvent
		var startIdx []int
		for _, w := range remaining {
			startIdx = append(startIdx, len(all)+1) // 1-based index of the walk's reset event
			all = append(all, w.Events...)
		}
		res, err := tlcrun.Run("Trace_SmtpServer", "Trace_SmtpServer.cfg", tlcrun.Opts{
			Workers: 1, Tags: []string{"HWM"}, Files: map[string][]byte{"trace.ndjson": EncodeTrace(all)}})
		vs.Runs++
		if err != nil {
			return vs, err
		}
		vs.TLCStates += res.Distinct
		vs.TLCGenerated += res.Generated
		hwm := 0
		if h := res.Tagged["HWM"]; len(h) > 0 {
			hwm, _ = strconv.Atoi(h[len(h)-1])
		}
		invViolated := res.Violation != "" && !strings.Contains(res.Violation, "Postcondition") && !strings.Contains(res.Violation, "TraceAccepted")
		if hwm == len(all)+1 && !invViolated && res.OK {
			vs.Accepted += len(remaining)
			return vs, nil
		}
		if hwm == 0 {
			return vs, fmt.Errorf("trace validation did not run: %s\n%s", res.Violation, tailStr(res.Output, 2000))
		}
		// which walk holds event hwm (the first one that was not consumed)?
		bad := hwm
		if invViolated && hwm > 1 {
			// an invariant failed in the state reached by consuming event hwm-1
			bad = hwm - 1
		}
		wi := 0
		for i := range remaining {
			if startIdx[i] <= bad {
				wi = i
			}
		}
		w := remaining[wi]
		stepIdx := bad - startIdx[wi] // index into w.Events
		if stepIdx >= len(w.Events) {
			stepIdx = len(w.Events) - 1
		}
		vs.Accepted += wi
		vs.Rejected++
		d := diagnose(w, stepIdx, invViolated, res, run.Prop)
		run.Report(d)
		remaining = remaining[wi+1:]
	}
	return vs, nil
}

func tailStr(s string, n int) string {
	if len(s) > n {
		return s[len(s)-n:]
	}
	return s
}

type expectRec struct {
	Lbl    Label   `json:"lbl"`
	St     ProjRec `json:"st"`
	Closed bool    `json:"closed"`
}

// diagnose asks TLC what the specification allows at the rejected event and
// classifies the difference.
func diagnose(w OneWalk, stepIdx int, inv bool, res *tlcrun.Result, forProp string) evid.Div {
	ev := w.Events[stepIdx]
	hist := w.Hist
	if stepIdx <= len(hist) {
		hist = hist[:stepIdx]
	}
	rp := map[string]interface{}{"engine": "trace", "cfg": w.Cfg, "walk_seed": w.Seed, "events": w.Events[:stepIdx+1], "transcript": hist}
	cmd := "?"
	if ev.Cmd != nil {
		cmd = ev.Cmd.String()
	}
	if inv {
		return evid.Div{Prop: propOfInvariant(res.Violation), Key: "trace-invariant:" + res.Violation + ":" + cmd,
			Msg: fmt.Sprintf("recorded execution violates %s after %s; transcript tail %v", res.Violation, cmd, tailHist(hist)), Replay: rp}
	}
	dres, err := tlcrun.Run("Trace_SmtpServer", "Trace_SmtpServer_Diag.cfg", tlcrun.Opts{
		Workers: 1, Tags: []string{"EXPECT"}, Files: map[string][]byte{"trace.ndjson": EncodeTrace(w.Events[:stepIdx+1])}})
	var exps []expectRec
	if err == nil {
		for _, p := range dres.Tagged["EXPECT"] {
			var x expectRec
			if json.Unmarshal([]byte(p), &x) == nil {
				exps = append(exps, x)
			}
		}
	}
	if len(exps) == 0 {
		nprop := "C03"
		if ev.Cmd != nil && (ev.Cmd.C == "BDAT" && (forProp == "C05" || forProp == "C06") || ev.Cmd.C == "DATA" && (forProp == "C02" || forProp == "C06")) {
			nprop = forProp // a transfer step the specification has no counterpart for, seen by a transfer property's own check
		}
		return evid.Div{Prop: nprop, Key: "trace-nolabel:" + cmd,
			Msg: fmt.Sprintf("recorded step %s has no counterpart in the specification in the state reached; transcript tail %v", cmd, tailHist(hist)), Replay: rp}
	}
	x := exps[0]
	e := &Edge{Cfg: w.Cfg}
	e.Lbl = x.Lbl
	prop, what := classify(e, ev, x)
	if forProp == "C05" && ev.Cmd != nil && ev.Cmd.C == "BDAT" && prop != "C05" && dataCbsDiffer(ev, x) {
		// whatever else it is, the backend did not get the single Data call with
		// the concatenation of the chunks that C05 promises
		prop, what = "C05", "data-call"
	}
	if what == "state" && prop != "C03" && (ev.St.From != x.St.From || ev.St.Rcpts != x.St.Rcpts || ev.St.Helo != x.St.Helo || ev.St.Session != x.St.Session || ev.St.Bdat != x.St.Bdat) {
		// greeting / session / envelope fields are C03's whatever the command was
		// (only the first divergence of a trace is reported, so this one goes to
		// the property whose check is running when it is one of the two)
		if forProp == "C03" {
			prop = "C03"
		}
	}
	return evid.Div{Prop: prop, Key: fmt.Sprintf("trace:%s:%s:lmtp=%v", what, cmd, w.Cfg.Lmtp),
		Msg: fmt.Sprintf("recorded step %s rejected by the specification (%s): spec allows replies %v callbacks %v state %+v; recorded replies %v callbacks %v state %+v; transcript tail %v",
			cmd, what, x.Lbl.Replies, x.Lbl.Cbs, x.St, ev.Replies, ev.Cbs, ev.St, tailHist(hist)), Replay: rp}
}

func tailHist(h []StepRec) []StepRec {
	if len(h) > 6 {
		return h[len(h)-6:]
	}
	return h
}

func propOfInvariant(v string) string {
	for _, p := range []string{"C03", "C04", "C07", "C08", "C09", "C10", "C19"} {
		if strings.Contains(v, p+"_") {
			return p
		}
	}
	return "C03"
}

// classify attributes a mismatch between the specified label x and the
// recorded event ev to a property.
func classify(e *Edge, ev TraceEvent, x expectRec) (prop, what string) {
	c := ev.Cmd.C
	repEq := len(ev.Replies) == len(x.Lbl.Replies)
	if repEq {
		for i := range ev.Replies {
			if ev.Replies[i].Code != x.Lbl.Replies[i].Code || ev.Replies[i].EnhStr() != x.Lbl.Replies[i].EnhStr() {
				repEq = false
			}
		}
	}
	loop := func(cbs []CbRec) (s []string, d map[string]int) {
		d = map[string]int{}
		for _, cb := range cbs {
			if isDataCb(cb.N) {
				d[cb.String()]++
			} else {
				s = append(s, cb.String())
			}
		}
		return
	}
	es, ed := loop(x.Lbl.Cbs)
	gs, gd := loop(ev.Cbs)
	esj, gsj := strings.Join(es, ","), strings.Join(gs, ",")
	cbEq := esj == gsj && fmt.Sprint(ed) == fmt.Sprint(gd)
	prefix := len(ev.Replies) > len(x.Lbl.Replies)
	if prefix {
		for i := range x.Lbl.Replies {
			if ev.Replies[i].Code != x.Lbl.Replies[i].Code {
				prefix = false
			}
		}
	}
	switch {
	case (c == "DATA" || c == "BDAT") && prefix:
		if c == "DATA" {
			return "C02", "desync"
		}
		return "C05", "desync"
	case !repEq && x.Closed && prefix:
		return "C08", "replies-after-close"
	case !repEq && (c == "LONG" || c == "BAD"):
		return "C19", "replies"
	case !repEq && e.Cfg.Lmtp && (c == "DATA" || c == "BDAT") && len(ev.Replies) < len(x.Lbl.Replies):
		return "C13", "replies"
	case !repEq:
		return "C04", "replies"
	case !cbEq:
		switch {
		case x.Closed && strings.HasPrefix(gsj+",", esj+","):
			return "C08", "callbacks-after-close"
		case strings.Count(esj, "Logout") != strings.Count(gsj, "Logout"):
			if c == "STARTTLS" {
				return "C10", "callbacks"
			}
			return "C08", "callbacks"
		case strings.Contains(esj+gsj, "SASLNext") || strings.Contains(esj+gsj, ".Auth"):
			return "C09", "callbacks"
		case c == "STARTTLS":
			return "C10", "callbacks"
		case esj == gsj && strings.Contains(fmt.Sprint(gd), "end:eof") && !strings.Contains(fmt.Sprint(ed), "end:eof"):
			return "C07", "callbacks"
		}
		return "C03", "callbacks"
	default:
		// state projection
		switch {
		case c == "STARTTLS" || ev.St.Tls != x.St.Tls:
			return "C10", "state"
		case ev.St.DidAuth != x.St.DidAuth:
			return "C09", "state"
		case ev.St.ErrCount != x.St.ErrCount:
			return "C19", "state"
		}
		return "C03", "state"
	}
}

// dataCbsDiffer: the Data/LMTPData callbacks of the step are not the specified ones.
func dataCbsDiffer(ev TraceEvent, x expectRec) bool {
	count := func(cbs []CbRec) map[string]int {
		d := map[string]int{}
		for _, cb := range cbs {
			if isDataCb(cb.N) {
				d[cb.String()]++
			}
		}
		return d
	}
	return fmt.Sprint(count(ev.Cbs)) != fmt.Sprint(count(x.Lbl.Cbs))
}
