// Package datarep binds DataStream.tla to the real dataReader: the automaton
// table dumped by TLC is interpreted over concrete octet streams and compared
// with what the real reader (built from /repo) yields for every read size and
// segmentation.
package datarep

import (
	"bufio"
	"encoding/json"
	"fmt"
	"io"

	smtp "github.com/emersion/go-smtp"
)

type Cell struct {
	Next string   `json:"next"`
	Emit []string `json:"emit"`
}

type Table map[string]map[string]Cell

func ParseTable(s string) (Table, error) {
	var t Table
	err := json.Unmarshal([]byte(s), &t)
	if err == nil && len(t) != 5 {
		err = fmt.Errorf("step table has %d states, want 5", len(t))
	}
	return t, err
}

func Class(b byte) string {
	switch b {
	case '.':
		return "d"
	case '\r':
		return "c"
	case '\n':
		return "l"
	}
	return "o"
}

// Result of interpreting the specification automaton.
type Result struct {
	Out      []byte
	State    string
	Fail     bool // too large
	Consumed int  // octets consumed when the run stopped
}

// Interp runs the automaton over data with the given budget (0 = unlimited),
// stopping at EOF state or end of input.  After a failure (budget exhausted)
// the automaton keeps running with its output discarded: that is the drain.
func (t Table) Interp(data []byte, bud int) Result {
	r := Result{State: "BeginLine"}
	for i, b := range data {
		if r.State == "EOF" {
			break
		}
		cell := t[r.State][Class(b)]
		for k := range cell.Emit {
			if r.Fail {
				break
			}
			// every emitted octet but the last is a saved CR; the last is b
			o := byte('\r')
			if k == len(cell.Emit)-1 {
				o = b
			}
			if bud > 0 && len(r.Out) >= bud {
				r.Fail = true
				break
			}
			r.Out = append(r.Out, o)
		}
		r.State = cell.Next
		r.Consumed = i + 1
	}
	return r
}

// stateNames maps dataReader.state to the specification's names.
var stateNames = []string{"BeginLine", "Dot", "DotCR", "CR", "Data", "EOF"}

// segReader delivers data in the given segment lengths, then io.EOF.
type segReader struct {
	data []byte
	segs []int
	pos  int
	i    int
}

func (s *segReader) Read(p []byte) (int, error) {
	if s.pos >= len(s.data) {
		return 0, io.EOF
	}
	n := len(s.data) - s.pos
	if s.i < len(s.segs) && s.segs[s.i] < n {
		n = s.segs[s.i]
	}
	if n > len(p) {
		n = len(p)
		if s.i < len(s.segs) {
			s.segs[s.i] -= n
		}
	} else {
		s.i++
	}
	copy(p, s.data[s.pos:s.pos+n])
	s.pos += n
	return n, nil
}

// Real is what the real reader did.
type Real struct {
	Out      []byte
	Err      error
	State    string
	Consumed int
	States   []string // state after each Read
	// after ErrDataTooLarge the limit is lifted and the rest is drained, as
	// the server does
	DrainErr      error
	DrainState    string
	DrainConsumed int
	Again         string // what was wrong with further Reads after ErrDataTooLarge ("" = nothing)
}

// RunReal drives the real dataReader over data delivered in segments segs
// (nil: one segment) with read buffer size rb until it returns an error.
func RunReal(data []byte, segs []int, rb int, bud int) Real {
	src := &segReader{data: data, segs: append([]int(nil), segs...)}
	br := bufio.NewReaderSize(src, 16)
	dr := smtp.VerifNewDataReader(br, int64(bud))
	var r Real
	buf := make([]byte, rb)
	for iter := 0; iter < len(data)+10; iter++ {
		n, err := dr.Read(buf)
		r.Out = append(r.Out, buf[:n]...)
		r.States = append(r.States, stateNames[dr.State()])
		if err != nil {
			r.Err = err
			break
		}
	}
	r.State = stateNames[dr.State()]
	r.Consumed = src.pos - br.Buffered()
	if r.Err == smtp.ErrDataTooLarge {
		// a backend that reads on is handed nothing more, and never an end-of-file
		for k := 0; k < 3; k++ {
			n, err := dr.Read(buf)
			// (each further Read probes the stream again, so the error may change
			// when the stream runs out; what matters is that no octet is handed over)
			if n != 0 || err == nil {
				r.Again = fmt.Sprintf("Read number %d after ErrDataTooLarge returned %d octets and %v", k+2, n, err)
				break
			}
		}
		dr.Unlimit()
		for iter := 0; iter < len(data)+10; iter++ {
			if _, err := dr.Read(buf); err != nil {
				r.DrainErr = err
				break
			}
		}
		r.DrainState = stateNames[dr.State()]
		r.DrainConsumed = src.pos - br.Buffered()
	}
	return r
}

// Compare returns "" if the real run matches the specification.
func Compare(t Table, data []byte, segs []int, rb, bud int) string {
	exp := t.Interp(data, bud)
	got := RunReal(data, segs, rb, bud)
	if string(got.Out) != string(exp.Out) {
		return fmt.Sprintf("octets: spec %q, reader %q", exp.Out, got.Out)
	}
	switch {
	case exp.Fail:
		if got.Err != smtp.ErrDataTooLarge {
			return fmt.Sprintf("result: spec too-large, reader %v", got.Err)
		}
		if got.Again != "" {
			return "limit: " + got.Again
		}
		// the drain ends at the same end marker as without a limit
		if exp.State == "EOF" {
			if got.DrainErr != io.EOF {
				return fmt.Sprintf("drain: spec drains the over-long message through its end marker (%d octets), the drain ended with %v", exp.Consumed, got.DrainErr)
			}
			if got.DrainConsumed != exp.Consumed {
				return fmt.Sprintf("drain position: spec drains %d octets (through the end marker), the reader drained %d", exp.Consumed, got.DrainConsumed)
			}
		} else if got.DrainErr == nil || got.DrainErr == io.EOF {
			return fmt.Sprintf("drain: the stream has no end marker, the drain ended with %v after %d octets", got.DrainErr, got.DrainConsumed)
		}
	case exp.State == "EOF":
		if got.Err != io.EOF {
			return fmt.Sprintf("result: spec end-of-data (EOF), reader %v", got.Err)
		}
		if got.Consumed != exp.Consumed {
			return fmt.Sprintf("position: spec consumes %d octets (through the end marker), reader consumed %d", exp.Consumed, got.Consumed)
		}
	default:
		// input ran out before the end marker: must not look complete (C07)
		if got.Err == nil || got.Err == io.EOF {
			return fmt.Sprintf("result: stream cut before the end marker, reader reports %v", got.Err)
		}
		if got.Err == smtp.ErrDataTooLarge {
			return fmt.Sprintf("result: spec unexpected-EOF, reader too-large")
		}
		if got.State != exp.State {
			return fmt.Sprintf("state at end of input: spec %s, reader %s", exp.State, got.State)
		}
	}
	return ""
}
