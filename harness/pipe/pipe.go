// Package pipe is an in-memory full-duplex transport with explicit
// segmentation. A Write is never merged with another one and never blocks; a
// Read returns at most the rest of the head segment (and at most MaxRead
// octets), which makes "how the stream is split into network segments" a
// harness-controlled input instead of kernel behaviour. The pair can tell
// whether an end is parked in Read with nothing to read, which the harness
// uses as its step-completion and quiescence detector.
package pipe

import (
	"io"
	"net"
	"os"
	"sync"
	"time"
)

type shared struct {
	mu   sync.Mutex
	cond *sync.Cond
}

type dir struct {
	segs        [][]byte
	writeClosed bool // the writer closed: reader gets EOF after draining
	total       int64
	consumed    int64
}

// End is one end of the pair; it implements net.Conn.
type End struct {
	sh       *shared
	in, out  *dir
	name     string
	closed   bool
	rdl, wdl time.Time
	parked   bool // blocked in Read with nothing to read
	reads    int  // number of Read calls that returned data
	// MaxRead caps the number of octets one Read returns (0 = no cap).
	MaxRead int
	// RawLog, when non-nil, receives the size of every successful Read.
	RawLog func(n int)
	// Peer is the other end.
	Peer *End
}

// New returns the two ends of a fresh pair.
func New() (a, b *End) {
	sh := &shared{}
	sh.cond = sync.NewCond(&sh.mu)
	d1, d2 := &dir{}, &dir{}
	a = &End{sh: sh, in: d1, out: d2, name: "a"}
	b = &End{sh: sh, in: d2, out: d1, name: "b"}
	a.Peer, b.Peer = b, a
	return
}

type addr string

func (a addr) Network() string { return "verifpipe" }
func (a addr) String() string  { return string(a) }

func (e *End) LocalAddr() net.Addr  { return addr("pipe-" + e.name) }
func (e *End) RemoteAddr() net.Addr { return addr("pipe-" + e.Peer.name) }

func (e *End) Read(b []byte) (int, error) {
	e.sh.mu.Lock()
	defer e.sh.mu.Unlock()
	if len(b) == 0 {
		return 0, nil
	}
	var timer *time.Timer
	defer func() {
		if timer != nil {
			timer.Stop()
		}
	}()
	for {
		if e.closed {
			return 0, net.ErrClosed
		}
		if len(e.in.segs) > 0 {
			seg := e.in.segs[0]
			n := len(seg)
			if n > len(b) {
				n = len(b)
			}
			if e.MaxRead > 0 && n > e.MaxRead {
				n = e.MaxRead
			}
			copy(b, seg[:n])
			if n == len(seg) {
				e.in.segs = e.in.segs[1:]
			} else {
				e.in.segs[0] = seg[n:]
			}
			e.in.consumed += int64(n)
			e.reads++
			if e.RawLog != nil {
				e.RawLog(n)
			}
			e.sh.cond.Broadcast()
			return n, nil
		}
		if e.in.writeClosed {
			return 0, io.EOF
		}
		if !e.rdl.IsZero() {
			d := time.Until(e.rdl)
			if d <= 0 {
				return 0, os.ErrDeadlineExceeded
			}
			if timer == nil {
				timer = time.AfterFunc(d, func() {
					e.sh.mu.Lock()
					e.sh.cond.Broadcast()
					e.sh.mu.Unlock()
				})
			} else {
				timer.Reset(d)
			}
		}
		e.parked = true
		e.sh.cond.Broadcast()
		e.sh.cond.Wait()
		e.parked = false
	}
}

// Write delivers b as one segment.
func (e *End) Write(b []byte) (int, error) {
	e.sh.mu.Lock()
	defer e.sh.mu.Unlock()
	if e.closed {
		return 0, net.ErrClosed
	}
	if e.out.writeClosed {
		return 0, io.ErrClosedPipe
	}
	if e.Peer.closed {
		// like a TCP peer that went away: the octets are lost
		return 0, io.ErrClosedPipe
	}
	if !e.wdl.IsZero() && !time.Now().Before(e.wdl) {
		// (a write never blocks here; an expired deadline fails it as on a socket)
		return 0, os.ErrDeadlineExceeded
	}
	if len(b) == 0 {
		return 0, nil
	}
	e.out.segs = append(e.out.segs, append([]byte(nil), b...))
	e.out.total += int64(len(b))
	e.sh.cond.Broadcast()
	return len(b), nil
}

// WriteSegments delivers every element as its own segment, atomically.
func (e *End) WriteSegments(segs [][]byte) error {
	e.sh.mu.Lock()
	defer e.sh.mu.Unlock()
	if e.closed || e.out.writeClosed || e.Peer.closed {
		return io.ErrClosedPipe
	}
	for _, s := range segs {
		if len(s) == 0 {
			continue
		}
		e.out.segs = append(e.out.segs, append([]byte(nil), s...))
		e.out.total += int64(len(s))
	}
	e.sh.cond.Broadcast()
	return nil
}

// Close closes both directions of this end.
func (e *End) Close() error {
	e.sh.mu.Lock()
	defer e.sh.mu.Unlock()
	if e.closed {
		return net.ErrClosed
	}
	e.closed = true
	e.out.writeClosed = true
	e.sh.cond.Broadcast()
	return nil
}

// CloseWrite half-closes: the peer reads EOF after draining.
func (e *End) CloseWrite() error {
	e.sh.mu.Lock()
	defer e.sh.mu.Unlock()
	e.out.writeClosed = true
	e.sh.cond.Broadcast()
	return nil
}

func (e *End) SetDeadline(t time.Time) error {
	e.SetReadDeadline(t)
	return e.SetWriteDeadline(t)
}

func (e *End) SetReadDeadline(t time.Time) error {
	e.sh.mu.Lock()
	defer e.sh.mu.Unlock()
	e.rdl = t
	e.sh.cond.Broadcast()
	return nil
}

func (e *End) SetWriteDeadline(t time.Time) error {
	e.sh.mu.Lock()
	defer e.sh.mu.Unlock()
	e.wdl = t
	return nil
}

// Closed reports whether this end has been closed locally.
func (e *End) Closed() bool {
	e.sh.mu.Lock()
	defer e.sh.mu.Unlock()
	return e.closed
}

// Pending is the number of octets written to this end and not yet read by it.
func (e *End) Pending() int {
	e.sh.mu.Lock()
	defer e.sh.mu.Unlock()
	return int(e.in.total - e.in.consumed)
}

// Consumed is the number of octets this end has read so far.
func (e *End) Consumed() int64 {
	e.sh.mu.Lock()
	defer e.sh.mu.Unlock()
	return e.in.consumed
}

// idleLocked: the end cannot make progress without new input.
func (e *End) idleLocked() bool {
	if e.closed {
		return true
	}
	return e.parked && len(e.in.segs) == 0 && !e.in.writeClosed
}

// WaitIdle waits until this end is parked in Read with an empty input queue,
// or has been closed. extra, if non-nil, must also hold (evaluated under the
// pipe lock; it must not touch the pipe). It returns false on timeout.
func (e *End) WaitIdle(timeout time.Duration, extra func() bool) bool {
	deadline := time.Now().Add(timeout)
	e.sh.mu.Lock()
	defer e.sh.mu.Unlock()
	stable := 0
	for {
		if e.idleLocked() && (extra == nil || extra()) {
			// Give goroutines that were just woken a chance to run: idleness
			// must be observed twice, a scheduler yield apart.
			stable++
			if stable >= 2 {
				return true
			}
			e.sh.mu.Unlock()
			time.Sleep(20 * time.Microsecond)
			e.sh.mu.Lock()
			continue
		}
		stable = 0
		if time.Now().After(deadline) {
			return false
		}
		t := time.AfterFunc(2*time.Millisecond, func() {
			e.sh.mu.Lock()
			e.sh.cond.Broadcast()
			e.sh.mu.Unlock()
		})
		e.sh.cond.Wait()
		t.Stop()
	}
}

// Drain returns everything currently readable by this end without blocking,
// and whether EOF has been reached (writer closed and queue empty).
func (e *End) Drain() (data []byte, eof bool) {
	e.sh.mu.Lock()
	defer e.sh.mu.Unlock()
	for _, s := range e.in.segs {
		data = append(data, s...)
		e.in.consumed += int64(len(s))
	}
	e.in.segs = nil
	return data, e.in.writeClosed
}

// Listener is an in-memory net.Listener whose Accept results are scripted.
type Listener struct {
	mu     sync.Mutex
	cond   *sync.Cond
	queue  []acceptResult
	closed bool
	// Accepts counts Accept calls that returned.
	Accepts int
}

type acceptResult struct {
	c   net.Conn
	err error
}

func NewListener() *Listener {
	l := &Listener{}
	l.cond = sync.NewCond(&l.mu)
	return l
}

// Dial creates a pair, queues the server end for Accept and returns the
// client end.
func (l *Listener) Dial() *End {
	c, s := New()
	c.name, s.name = "client", "server"
	l.mu.Lock()
	l.queue = append(l.queue, acceptResult{c: s})
	l.cond.Broadcast()
	l.mu.Unlock()
	return c
}

// DialConn queues an arbitrary server-side conn (e.g. wrapped in TLS).
func (l *Listener) DialConn(s net.Conn) {
	l.mu.Lock()
	l.queue = append(l.queue, acceptResult{c: s})
	l.cond.Broadcast()
	l.mu.Unlock()
}

// InjectError makes a future Accept return err.
func (l *Listener) InjectError(err error) {
	l.mu.Lock()
	l.queue = append(l.queue, acceptResult{err: err})
	l.cond.Broadcast()
	l.mu.Unlock()
}

func (l *Listener) Accept() (net.Conn, error) {
	l.mu.Lock()
	defer l.mu.Unlock()
	for {
		if len(l.queue) > 0 {
			r := l.queue[0]
			l.queue = l.queue[1:]
			l.Accepts++
			l.cond.Broadcast()
			return r.c, r.err
		}
		if l.closed {
			l.Accepts++
			return nil, net.ErrClosed
		}
		l.cond.Wait()
	}
}

// QueueLen is the number of Accept results not yet consumed.
func (l *Listener) QueueLen() int {
	l.mu.Lock()
	defer l.mu.Unlock()
	return len(l.queue)
}

func (l *Listener) Close() error {
	l.mu.Lock()
	defer l.mu.Unlock()
	if l.closed {
		return net.ErrClosed
	}
	l.closed = true
	l.cond.Broadcast()
	return nil
}

func (l *Listener) IsClosed() bool {
	l.mu.Lock()
	defer l.mu.Unlock()
	return l.closed
}

func (l *Listener) Addr() net.Addr { return addr("verif-listener") }

// TempError is a temporary net.Error for Accept fault injection.
type TempError struct{ Msg string }

func (e *TempError) Error() string   { return e.Msg }
func (e *TempError) Timeout() bool   { return false }
func (e *TempError) Temporary() bool { return true }
