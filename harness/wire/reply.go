// Package wire holds the strict RFC 5321 section 4.2 reply parser used as the
// oracle for reply syntax (property C04): it accepts exactly what Reply.tla's
// Valid() accepts.
package wire

import (
	"fmt"
	"strings"
)

// Reply is one parsed (possibly multi-line) reply.
type Reply struct {
	Code  int
	Enh   string   // enhanced status code of the last line ("" if none)
	Enhs  []string // enhanced status code per line ("" if none)
	Lines []string // text of each line, enhanced code stripped when present
	Raw   string
}

func (r Reply) String() string { return fmt.Sprintf("%d %s %q", r.Code, r.Enh, r.Lines) }

// Text joins the lines with LF.
func (r Reply) Text() string { return strings.Join(r.Lines, "\n") }

func isDigit(b byte) bool { return b >= '0' && b <= '9' }

// splitEnh splits a leading "c.x.y " enhanced code from text.
func splitEnh(text string) (enh, rest string) {
	i := strings.IndexByte(text, ' ')
	tok := text
	if i >= 0 {
		tok = text[:i]
	}
	parts := strings.Split(tok, ".")
	if len(parts) != 3 {
		return "", text
	}
	for k, p := range parts {
		if p == "" || len(p) > 3 {
			return "", text
		}
		for j := 0; j < len(p); j++ {
			if !isDigit(p[j]) {
				return "", text
			}
		}
		if k == 0 && (len(p) != 1 || (p[0] != '2' && p[0] != '4' && p[0] != '5')) {
			return "", text
		}
		if len(p) > 1 && p[0] == '0' {
			return "", text
		}
	}
	if i < 0 {
		return tok, ""
	}
	return tok, text[i+1:]
}

// ParseAll parses a complete server output stream into replies. It returns
// the replies parsed so far, the unparsed rest (an incomplete reply) and a
// syntax error description ("" if none). It is strict: CRLF line ends only, no
// bare CR or LF inside a line, three digits, same code on every line of a
// reply, '-' on all but the last line, text octets HT / 0x20-0x7E / >= 0x80.
func ParseAll(data []byte) (replies []Reply, rest []byte, synErr string) {
	pos := 0
	var cur *Reply
	for pos < len(data) {
		// find CRLF
		idx := -1
		for i := pos; i < len(data); i++ {
			if data[i] == '\n' {
				idx = i
				break
			}
		}
		if idx < 0 {
			// incomplete line
			break
		}
		if idx == pos || data[idx-1] != '\r' {
			return replies, data[pos:], fmt.Sprintf("line at offset %d ends with bare LF: %q", pos, data[pos:idx+1])
		}
		line := data[pos : idx-1]
		lineStart := pos
		pos = idx + 1
		for _, b := range line {
			if b == '\r' {
				return replies, data[lineStart:], fmt.Sprintf("bare CR inside reply line %q", line)
			}
			if b < 0x20 && b != '\t' || b == 0x7f {
				return replies, data[lineStart:], fmt.Sprintf("control octet 0x%02x inside reply line %q", b, line)
			}
		}
		if len(line) < 3 || !isDigit(line[0]) || !isDigit(line[1]) || !isDigit(line[2]) {
			return replies, data[lineStart:], fmt.Sprintf("reply line does not start with three digits: %q", line)
		}
		if line[0] < '2' || line[0] > '5' {
			return replies, data[lineStart:], fmt.Sprintf("reply code out of range: %q", line)
		}
		code := int(line[0]-'0')*100 + int(line[1]-'0')*10 + int(line[2]-'0')
		more := false
		text := ""
		if len(line) > 3 {
			switch line[3] {
			case '-':
				more = true
			case ' ':
			default:
				return replies, data[lineStart:], fmt.Sprintf("fourth octet is neither SP nor '-': %q", line)
			}
			text = string(line[4:])
		}
		if cur == nil {
			cur = &Reply{Code: code}
		} else if cur.Code != code {
			return replies, data[lineStart:], fmt.Sprintf("code changes inside multi-line reply: %d then %q", cur.Code, line)
		}
		enh, restText := splitEnh(text)
		cur.Enhs = append(cur.Enhs, enh)
		cur.Lines = append(cur.Lines, restText)
		cur.Raw += string(data[lineStart:pos])
		if !more {
			cur.Enh = enh
			replies = append(replies, *cur)
			cur = nil
		}
	}
	if cur != nil {
		// incomplete multi-line reply: hand back everything from its start
		return replies, []byte(cur.Raw + string(data[pos:])), ""
	}
	return replies, data[pos:], ""
}

// CheckEnhanced verifies the enhanced-status-code rule of C04 for one reply:
// replies other than greeting (220 as first reply), EHLO/LHLO success and 3xx
// carry an enhanced code whose class equals the first digit of the reply code.
// exempt tells that the reply is a greeting or an EHLO reply.
func CheckEnhanced(r Reply, exempt bool) string {
	if r.Code/100 == 3 || exempt {
		return ""
	}
	if r.Enh == "" {
		return fmt.Sprintf("reply %d has no enhanced status code: %q", r.Code, r.Raw)
	}
	if int(r.Enh[0]-'0') != r.Code/100 {
		return fmt.Sprintf("enhanced code %s has a different class than reply code %d", r.Enh, r.Code)
	}
	return ""
}
