// Package lifecyc records life-cycle scenarios of a real go-smtp server
// (scripted Accept results, connections, Close/Shutdown calls, context expiry)
// as traces for Trace_Lifecycle.tla.
package lifecyc

import (
	"context"
	"crypto/tls"
	"os"
	"encoding/json"
	"errors"
	"fmt"
	"math/rand"
	"net"
	"strings"
	"sync"
	"time"

	smtp "github.com/emersion/go-smtp"

	"verifharness/drv"
	"verifharness/pipe"
	"verifharness/rec"
)

type Event map[string]interface{}

type Scenario struct {
	Events []Event
	Script []string
	Note   string // harness-level problem ("" if none)
	Panic  string
}

type closer struct {
	kind   string
	cancel context.CancelFunc
	ret    chan string
	called bool
	done   bool
	res    string
}

// Run executes one random scenario.
func Run(rng *rand.Rand, maxSteps int, gateMu *sync.Mutex, allowBoth bool) *Scenario {
	be := rec.New()
	s := smtp.NewServer(be)
	s.Domain = "lifecycle.test"
	var logbuf strings.Builder
	var logmu sync.Mutex
	s.ErrorLog = logger{&logbuf, &logmu}
	// half of the scenarios use implicit TLS; a connection may then stall in
	// the handshake (accepted, no ClientHello yet) when the server is closed
	// (a third: a plaintext listener with STARTTLS, where a connection may stall
	// in the handshake that follows the 220)
	mode := rng.Intn(3)
	implicit := mode == 0
	starttls := mode == 2
	var tcfg *tls.Config
	if implicit || starttls {
		cert, _ := drv.TLSMaterial()
		tcfg = &tls.Config{Certificates: []tls.Certificate{cert}}
		s.TLSConfig = tcfg
	}
	l := pipe.NewListener()
	serveRet := make(chan error, 1)
	go func() { serveRet <- s.Serve(l) }()
	kinds := map[string]string{"c1": []string{"close", "shutdown"}[rng.Intn(2)], "c2": []string{"close", "shutdown"}[rng.Intn(2)]}
	sc := &Scenario{}
	sc.Events = append(sc.Events, Event{"ev": "reset", "kinds": kinds})
	cl := map[string]*closer{"c1": {kind: kinds["c1"], ret: make(chan string, 1)}, "c2": {kind: kinds["c2"], ret: make(chan string, 1)}}
	var conns []*pipe.End
	open := map[int]bool{}
	served := true
	winner := false
	logServeRet := func(wait time.Duration) {
		if !served {
			return
		}
		select {
		case err := <-serveRet:
			served = false
			res := "nil"
			if err != nil {
				res = "perm"
			}
			sc.Events = append(sc.Events, Event{"ev": "serveret", "res": res})
		case <-time.After(wait):
		}
	}
	pollRet := func(c string, wait time.Duration) {
		k := cl[c]
		if !k.called || k.done {
			return
		}
		select {
		case r := <-k.ret:
			k.done = true
			if strings.HasPrefix(r, "panic:") {
				sc.Panic = r
				r = "panic"
			}
			k.res = r
			sc.Events = append(sc.Events, Event{"ev": "ret", "c": c, "res": r})
		case <-time.After(wait):
		}
	}
	call := func(c string) {
		k := cl[c]
		k.called = true
		ctx, cancel := context.WithCancel(context.Background())
		k.cancel = cancel
		go func() {
			defer func() {
				if p := recover(); p != nil {
					k.ret <- fmt.Sprintf("panic: %v", p)
				}
			}()
			var err error
			if k.kind == "close" {
				err = s.Close()
			} else {
				err = s.Shutdown(ctx)
			}
			switch {
			case err == nil:
				k.ret <- "nil"
			case errors.Is(err, smtp.ErrServerClosed):
				k.ret <- "closed"
			case errors.Is(err, context.Canceled):
				k.ret <- "ctx"
			case errors.Is(err, net.ErrClosed):
				// the listener had been closed already: its error is passed on
				k.ret <- "lerr"
			default:
				k.ret <- "err:" + err.Error()
			}
		}()
	}
	for step := 0; step < maxSteps; step++ {
		var cands []string
		if served && !winner {
			cands = append(cands, "dial", "dial", "temp")
			if rng.Intn(6) == 0 {
				cands = append(cands, "perm")
			}
			if rng.Intn(5) == 0 {
				cands = append(cands, "appclose")
			}
		}
		for k := range open {
			_ = k
			cands = append(cands, "connfinish")
			break
		}
		for _, c := range []string{"c1", "c2"} {
			if !cl[c].called {
				cands = append(cands, "call:"+c)
			} else if !cl[c].done && cl[c].kind == "shutdown" && len(open) > 0 {
				cands = append(cands, "ctx:"+c)
			}
		}
		if allowBoth && !cl["c1"].called && !cl["c2"].called {
			cands = append(cands, "both", "both")
		}
		if len(cands) == 0 {
			break
		}
		ev := cands[rng.Intn(len(cands))]
		sc.Script = append(sc.Script, ev)
		switch {
		case ev == "dial":
			c, sv := pipe.New()
			before := l.Accepts
			stall := implicit && rng.Intn(2) == 0
			if implicit {
				l.DialConn(tls.Server(sv, tcfg))
			} else {
				l.DialConn(sv)
			}
			waitUntil(func() bool { return l.QueueLen() == 0 && l.Accepts > before })
			buf := make([]byte, 256)
			switch {
			case stall:
				// no ClientHello: the handler sits in the handshake
				sc.Script[len(sc.Script)-1] = "dial(stalled-in-handshake)"
				time.Sleep(time.Millisecond)
			case implicit:
				_, pool := drv.TLSMaterial()
				tc := tls.Client(c, &tls.Config{RootCAs: pool, ServerName: "verif.test"})
				c.SetDeadline(time.Now().Add(2 * time.Second))
				tc.Handshake()
				tc.Read(buf)
				c.SetDeadline(time.Time{})
			default:
				// wait for the greeting so that the handler is registered
				c.SetReadDeadline(time.Now().Add(2 * time.Second))
				c.Read(buf)
				if starttls && rng.Intn(2) == 0 {
					// ask for the upgrade, get the 220, and never send a ClientHello
					sc.Script[len(sc.Script)-1] = "dial(stalled-in-starttls-handshake)"
					c.Write([]byte("EHLO stall.test\r\n"))
					c.Read(buf)
					c.Write([]byte("STARTTLS\r\n"))
					c.Read(buf)
					time.Sleep(time.Millisecond)
				}
				c.SetReadDeadline(time.Time{})
			}
			conns = append(conns, c)
			open[len(conns)] = true
			sc.Events = append(sc.Events, Event{"ev": "dial"})
		case ev == "temp":
			l.InjectError(&pipe.TempError{Msg: "too many open files"})
			waitUntil(func() bool { return l.QueueLen() == 0 })
			sc.Events = append(sc.Events, Event{"ev": "temp"})
		case ev == "perm":
			l.InjectError(errors.New("listener broke"))
			sc.Events = append(sc.Events, Event{"ev": "perm"})
			logServeRet(2 * time.Second)
			if served {
				sc.Note = "Serve did not return after a permanent Accept error"
				return sc
			}
			// the perm event itself is the return in the specification: drop the duplicate
			sc.Events = sc.Events[:len(sc.Events)-1]
		case ev == "appclose":
			// the application closes the listener itself; Serve ends with the
			// Accept error, and a later Close still has to do everything else
			l.Close()
			sc.Events = append(sc.Events, Event{"ev": "appclose"})
			logServeRet(2 * time.Second)
			if served {
				sc.Note = "Serve did not return after the listener was closed"
				return sc
			}
			sc.Events[len(sc.Events)-1]["ev"] = "serveret-appclosed"
			if sc.Events[len(sc.Events)-1]["res"] != "perm" {
				sc.Note = "Serve returned nil although the server was not closed"
				return sc
			}
		case ev == "connfinish":
			for k := range open {
				conns[k-1].Close()
				delete(open, k)
				// wait for the handler to end
				time.Sleep(2 * time.Millisecond)
				sc.Events = append(sc.Events, Event{"ev": "connfinish", "k": k})
				break
			}
			pollRet("c1", 20*time.Millisecond)
			pollRet("c2", 20*time.Millisecond)
		case strings.HasPrefix(ev, "call:"):
			c := ev[5:]
			sc.Events = append(sc.Events, Event{"ev": "call", "c": c, "kind": cl[c].kind})
			call(c)
			wasWinner := winner
			wait := 300 * time.Millisecond
			if cl[c].kind == "shutdown" && len(open) > 0 && !wasWinner {
				wait = 30 * time.Millisecond // will block until the connections finish
			}
			pollRet(c, wait)
			if !wasWinner {
				winner = true
				if cl[c].kind == "close" {
					if cl[c].res == "nil" || cl[c].res == "lerr" {
						// Close ends every connection accepted before it
						for k := range open {
							if !endedByServer(conns[k-1]) {
								sc.Note = fmt.Sprintf("connection %d was accepted before Close, and is still open after Close returned %s (script %v)", k, cl[c].res, sc.Script)
								return sc
							}
						}
					}
					open = map[int]bool{} // the server closed them
				}
				logServeRet(2 * time.Second)
			}
		case strings.HasPrefix(ev, "ctx:"):
			c := ev[4:]
			sc.Events = append(sc.Events, Event{"ev": "ctx", "c": c})
			cl[c].cancel()
			pollRet(c, time.Second)
		case ev == "both":
			// two closers at once: the first is held between its check of the
			// done flag and the closing of it, the second starts meanwhile
			gateMu.Lock()
			drv.InstallHooks()
			hold := make(chan struct{})
			arrived := make(chan struct{}, 2)
			drv.SetExtraGate(func(c *smtp.Conn, name string) {
				if name == "close-after-check" {
					arrived <- struct{}{}
					<-hold
				}
			})
			sc.Events = append(sc.Events, Event{"ev": "call", "c": "c1", "kind": cl["c1"].kind})
			call("c1")
			select {
			case <-arrived:
			case <-time.After(time.Second):
			}
			sc.Events = append(sc.Events, Event{"ev": "call", "c": "c2", "kind": cl["c2"].kind})
			call("c2")
			select {
			case <-arrived: // both passed the check
			case <-time.After(50 * time.Millisecond):
			}
			close(hold)
			drv.SetExtraGate(nil)
			gateMu.Unlock()
			winner = true
			// (with two concurrent closers the harness cannot know which one
			// closes the connections; results are what is recorded)
			pollRet("c1", 300*time.Millisecond)
			pollRet("c2", 300*time.Millisecond)
			// only a Close that won closes the connections
			for _, c := range []string{"c1", "c2"} {
				if cl[c].kind == "close" && (cl[c].res == "nil" || cl[c].res == "lerr") {
					open = map[int]bool{}
				}
			}
			logServeRet(2 * time.Second)
		}
		if sc.Panic != "" {
			return sc
		}
	}
	// wind down: finish everything so that no goroutine is left
	for k := range open {
		conns[k-1].Close()
		sc.Events = append(sc.Events, Event{"ev": "connfinish", "k": k})
	}
	open = map[int]bool{}
	time.Sleep(2 * time.Millisecond)
	pollRet("c1", 500*time.Millisecond)
	pollRet("c2", 500*time.Millisecond)
	for _, c := range []string{"c1", "c2"} {
		if cl[c].called && !cl[c].done {
			sc.Note = fmt.Sprintf("%s (%s) did not return although no connection is left", c, cl[c].kind)
		}
	}
	if !winner {
		for _, c := range []string{"c1", "c2"} {
			if !cl[c].called {
				sc.Events = append(sc.Events, Event{"ev": "call", "c": c, "kind": cl[c].kind})
				call(c)
				pollRet(c, time.Second)
				logServeRet(2 * time.Second)
				break
			}
		}
	}
	if served {
		logServeRet(time.Second)
	}
	for _, c := range conns {
		c.Close()
	}
	return sc
}

// endedByServer: the peer sees the end of the stream (not a timeout).
func endedByServer(c *pipe.End) bool {
	buf := make([]byte, 4096)
	c.SetReadDeadline(time.Now().Add(time.Second))
	defer c.SetReadDeadline(time.Time{})
	for {
		_, err := c.Read(buf)
		if err == nil {
			continue // replies / alerts still queued
		}
		return !errors.Is(err, os.ErrDeadlineExceeded)
	}
}

func waitUntil(f func() bool) {
	for dl := time.Now().Add(3 * time.Second); !f() && time.Now().Before(dl); {
		time.Sleep(200 * time.Microsecond)
	}
}

type logger struct {
	b  *strings.Builder
	mu *sync.Mutex
}

func (l logger) Printf(f string, v ...interface{}) {
	l.mu.Lock()
	fmt.Fprintf(l.b, f, v...)
	l.mu.Unlock()
}
func (l logger) Println(v ...interface{}) {
	l.mu.Lock()
	fmt.Fprintln(l.b, v...)
	l.mu.Unlock()
}

// Encode renders scenarios as one ndjson trace.
func Encode(scs []*Scenario) []byte {
	var sb strings.Builder
	for _, sc := range scs {
		for _, e := range sc.Events {
			b, _ := json.Marshal(e)
			sb.Write(b)
			sb.WriteByte('\n')
		}
	}
	return []byte(sb.String())
}
