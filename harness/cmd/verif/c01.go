package main

import (
	"encoding/json"
	"fmt"
	"math/rand"
	"strings"
	"sync"
	"sync/atomic"

	"verifharness/datarep"
	"verifharness/evid"
	"verifharness/tlcrun"
)

var others = []byte{0x00, 'a', 0x80, 0xFF, ' ', '\t', 'M', '-'}

// classStreams enumerates all streams over {d,c,l,o} of length <= maxLen.
func classStreams(maxLen int, f func(cls []byte)) {
	var rec func(cur []byte)
	rec = func(cur []byte) {
		f(cur)
		if len(cur) == maxLen {
			return
		}
		for _, c := range []byte("dclo") {
			rec(append(cur, c))
		}
	}
	rec(nil)
}

func concretise(cls []byte, rot int) []byte {
	out := make([]byte, len(cls))
	for i, c := range cls {
		switch c {
		case 'd':
			out[i] = '.'
		case 'c':
			out[i] = '\r'
		case 'l':
			out[i] = '\n'
		default:
			out[i] = others[(rot+i)%len(others)]
		}
	}
	return out
}

// loadDataTable runs the dump configuration of DataStream.tla and returns the
// automaton table and the runs TLC itself performed (for cross-checking the
// interpreter).
func loadDataTable() (datarep.Table, []string, *tlcrun.Result) {
	res, err := tlcrun.Run("DataStream", "Dump_DataStream.cfg", tlcrun.Opts{Workers: 1, Tags: []string{"TABLE", "RUN"}})
	if err != nil || !res.OK {
		evid.Inconclusive("TLC dump of DataStream failed: %v %s", err, res.Violation)
	}
	if len(res.Tagged["TABLE"]) < 1 {
		evid.Inconclusive("no TABLE in TLC output")
	}
	t, err := datarep.ParseTable(res.Tagged["TABLE"][0])
	if err != nil {
		evid.Inconclusive("table: %v", err)
	}
	return t, res.Tagged["RUN"], res
}

type runRec struct {
	S    []string `json:"s"`
	St   string   `json:"st"`
	Out  []string `json:"out"`
	Fail bool     `json:"fail"`
	Bud  int      `json:"bud"`
}

// crossCheck verifies that the Go interpretation of the dumped table agrees
// with every run TLC performed itself.
func crossCheck(t datarep.Table, runs []string) int {
	n := 0
	for _, r := range runs {
		var x runRec
		if err := json.Unmarshal([]byte(r), &x); err != nil {
			evid.Inconclusive("RUN: %v", err)
		}
		cls := make([]byte, len(x.S))
		for i, c := range x.S {
			cls[i] = c[0]
		}
		data := concretise(cls, 0)
		got := t.Interp(data, x.Bud)
		var outCls []byte
		for _, b := range got.Out {
			outCls = append(outCls, datarep.Class(b)[0])
		}
		var want []byte
		for _, c := range x.Out {
			want = append(want, c[0])
		}
		if string(outCls) != string(want) || got.State != x.St || got.Fail != x.Fail {
			evid.Inconclusive("interpreter disagrees with TLC on %q bud %d: TLC out=%s st=%s fail=%v, interpreter out=%s st=%s fail=%v",
				cls, x.Bud, want, x.St, x.Fail, outCls, got.State, got.Fail)
		}
		n++
	}
	return n
}

type sweepStats struct {
	streams, runs, nontrivial int64
}

// segmentations of a stream of length n.
func segmentations(n int, rng *rand.Rand) [][]int {
	segs := [][]int{nil}
	if n > 1 {
		ones := make([]int, n)
		for i := range ones {
			ones[i] = 1
		}
		segs = append(segs, ones)
		k := 1 + rng.Intn(n-1)
		segs = append(segs, []int{k, n - k})
	}
	return segs
}

// sweepData compares the real reader with the automaton on every class stream
// up to maxLen and on random octet streams. report is called for mismatches.
func sweepData(t datarep.Table, maxLen int, budgets []int, nRandom int, seed int64, report func(data []byte, segs []int, rb, bud int, msg string)) sweepStats {
	var st sweepStats
	var all [][]byte
	classStreams(maxLen, func(cls []byte) { all = append(all, append([]byte(nil), cls...)) })
	var wg sync.WaitGroup
	nw := 16
	for w := 0; w < nw; w++ {
		wg.Add(1)
		go func(w int) {
			defer wg.Done()
			rng := rand.New(rand.NewSource(seed*31 + int64(w)))
			for i := w; i < len(all); i += nw {
				cls := all[i]
				data := concretise(cls, i)
				atomic.AddInt64(&st.streams, 1)
				exp := t.Interp(data, 0)
				if exp.State == "EOF" || len(exp.Out) != len(data) {
					atomic.AddInt64(&st.nontrivial, 1)
				}
				for _, bud := range budgets {
					if bud > 0 && len(data) < bud-1 {
						continue
					}
					for _, rb := range []int{1, 2, 3, 7, 4096} {
						if rb > len(data)+1 && rb != 4096 {
							continue
						}
						for _, segs := range segmentations(len(data), rng) {
							atomic.AddInt64(&st.runs, 1)
							if m := datarep.Compare(t, data, segs, rb, bud); m != "" {
								report(data, segs, rb, bud, m)
							}
						}
					}
				}
			}
			// seeded random streams over all 256 octets, biased to the significant ones
			for j := 0; j < nRandom/nw; j++ {
				n := 1 + rng.Intn(1<<uint(2+rng.Intn(11)))
				data := make([]byte, n)
				for k := range data {
					switch rng.Intn(8) {
					case 0:
						data[k] = '.'
					case 1, 2:
						data[k] = '\r'
					case 3, 4:
						data[k] = '\n'
					default:
						data[k] = byte(rng.Intn(256))
					}
				}
				if rng.Intn(2) == 0 {
					data = append(data, "\r\n.\r\nNOOP\r\n"...)
				}
				bud := 0
				if rng.Intn(3) == 0 {
					bud = 1 + rng.Intn(n+2)
				}
				rb := []int{1, 2, 3, 5, 64, 4096}[rng.Intn(6)]
				var segs []int
				if rng.Intn(2) == 0 {
					for left := len(data); left > 0; {
						k := 1 + rng.Intn(left)
						segs = append(segs, k)
						left -= k
					}
				}
				atomic.AddInt64(&st.streams, 1)
				atomic.AddInt64(&st.runs, 1)
				atomic.AddInt64(&st.nontrivial, 1)
				if m := datarep.Compare(t, data, segs, rb, bud); m != "" {
					report(data, segs, rb, bud, m)
				}
			}
		}(w)
	}
	wg.Wait()
	return st
}

func dataKey(t datarep.Table, data []byte, msg string) string {
	// signature: the class string of a short stream, else the kind of mismatch
	kind := msg
	if i := indexByte(msg, ':'); i > 0 {
		kind = msg[:i]
	}
	if len(data) <= 6 {
		cls := make([]byte, len(data))
		for i, b := range data {
			cls[i] = datarep.Class(b)[0]
		}
		return fmt.Sprintf("reader:%s:%s", kind, cls)
	}
	return "reader:" + kind + ":long"
}

// dataProp attributes a reader mismatch: budget runs belong to C06, wrong
// end-of-data detection / resume position to C02, a stream cut short that
// looks complete to C07, wrong octets to C01.
func dataProp(msg string, bud int) string {
	switch {
	case strings.HasPrefix(msg, "drain"):
		// where an over-long message ends decides where commands resume
		return "C02"
	case bud > 0:
		return "C06"
	case strings.HasPrefix(msg, "result: stream cut"):
		return "C07"
	case strings.HasPrefix(msg, "result") || strings.HasPrefix(msg, "position"):
		return "C02"
	}
	return "C01"
}

func indexByte(s string, c byte) int {
	for i := 0; i < len(s); i++ {
		if s[i] == c {
			return i
		}
	}
	return -1
}

func init() {
	checks["C01"] = func(tier string) {
		run := evid.NewRun("C01", tier)
		cfg, maxLen, nRandom := "MC_DataStream.cfg", 7, 20000
		if tier == "thorough" {
			cfg, maxLen, nRandom = "MC_DataStream_thorough.cfg", 9, 400000
		}
		mc := modelCheck("DataStream", cfg, 16)
		t, runs, _ := loadDataTable()
		nx := crossCheck(t, runs)
		var mu sync.Mutex
		samples := []interface{}{}
		nrep := 0
		st := sweepData(t, maxLen, []int{0}, nRandom, run.Seed, func(data []byte, segs []int, rb, bud int, msg string) {
			mu.Lock()
			defer mu.Unlock()
			nrep++
			prop := dataProp(msg, bud)
			run.Report(evid.Div{Prop: prop, Key: dataKey(t, data, msg), Msg: fmt.Sprintf("stream %q segments %v read size %d budget %d: %s", data, segs, rb, bud, msg),
				Replay: map[string]interface{}{"engine": "datareader", "data": data, "segs": segs, "rb": rb, "bud": bud}})
		})
		samples = append(samples, map[string]interface{}{"stream": "a\r\n..b\r\n.\r\n", "expected_at_backend": string(t.Interp([]byte("a\r\n..b\r\n.\r\n"), 0).Out)})
		samples = append(samples, map[string]interface{}{"stream": ".\rx\r\r\n.\r\n", "expected_at_backend": string(t.Interp([]byte(".\rx\r\r\n.\r\n"), 0).Out)})
		nh := 240
		if tier == "thorough" {
			nh = 3000
		}
		hc, hm := c01Histories(run, t, nh)
		fmt.Printf("C01: TLC %d states (layers agree up to the bound); interpreter cross-checked on %d TLC runs; real reader driven on %d streams, %d runs; %d messages over %d connections end to end (histories with RSET, refused and chunked messages, STARTTLS in between)\n", mc.Distinct, nx, st.streams, st.runs, hm, hc)
		run.Finish("model_checking", evid.Coverage{
			"states": mc.Distinct, "transitions": mc.Generated,
			"traces_validated_against_impl": st.streams,
			"reader_runs":                   st.runs,
			"e2e_connections":               hc,
			"e2e_messages":                  hm,
			"distinct_nontrivial":           st.nontrivial,
			"evaluations":                   st.runs,
			"rule":                          "every stream over {'.',CR,LF,other} up to the length bound (other rotated over NUL,a,0x80,0xFF,SP,TAB,M,-) x read sizes {1,2,3,7,4096} x segmentations {whole, bytewise, one random split}, plus seeded random octet streams; non-trivial = contains an end marker or a removed dot",
			"interpreter_crosscheck_runs":   nx,
			"samples":                       samples,
			"checker_cmd":                   mc.Cmd,
		}, []string{"equality of the declarative and the operational layer is established by TLC up to the length bound only; the six-state automaton is the oracle beyond it",
			"the harness's table interpreter is cross-checked against TLC's own runs"})
	}
}
