package main

import (
	"bufio"
	"bytes"
	"encoding/base64"
	"encoding/json"
	"errors"
	"fmt"
	"strings"
	"sync"
	"time"

	smtp "github.com/emersion/go-smtp"

	"verifharness/drv"
	"verifharness/evid"
	"verifharness/pipe"
	"verifharness/rec"
	"verifharness/tlcrun"
)

type authStep struct {
	Chal string `json:"chal"`
	Resp string `json:"resp"`
}

type authCase struct {
	IR     string     `json:"ir"`
	Steps  []authStep `json:"steps"`
	Final  int        `json:"final"`
	Lines  []string   `json:"lines"`
	Result int        `json:"result"`
	Shown  []string   `json:"shown"`
}

func valOf(class string, tag int) []byte {
	switch class {
	case "none":
		return nil
	case "empty":
		return []byte{}
	}
	// (lengths 9, 10, 11: every base64 padding; one of them ends in a NUL)
	return append([]byte(fmt.Sprintf("\x00v%d\xff\xfe=+", tag)), []byte{'q', 0}[:tag%3]...)
}

// scripted sasl.Client
type mech struct {
	c     *authCase
	i     int
	shown [][]byte
}

var errMech = errors.New("mechanism gives up")

func (m *mech) Start() (string, []byte, error) { return "XTEST", valOf(m.c.IR, 0), nil }
func (m *mech) Next(chal []byte) ([]byte, error) {
	m.shown = append(m.shown, append([]byte{}, chal...))
	if m.i >= len(m.c.Steps) {
		return nil, errors.New("unexpected challenge")
	}
	st := m.c.Steps[m.i]
	m.i++
	if st.Resp == "error" {
		return nil, errMech
	}
	return valOf(st.Resp, 100+m.i), nil
}

func classifyLine(line string, first bool) (string, []byte) {
	if first {
		f := strings.Fields(line)
		switch {
		case len(f) == 2:
			return "AUTH:none", nil
		case len(f) == 3 && f[2] == "=":
			return "AUTH:empty", []byte{}
		case len(f) == 3:
			b, err := base64.StdEncoding.DecodeString(f[2])
			if err != nil {
				return "AUTH:garbled", nil
			}
			return "AUTH:bytes", b
		}
		return "AUTH:garbled", nil
	}
	switch {
	case line == "*":
		return "*", nil
	case line == "" || line == "=":
		return "resp:empty", []byte{}
	}
	b, err := base64.StdEncoding.DecodeString(line)
	if err != nil {
		return "resp:garbled", nil
	}
	return "resp:bytes", b
}

// runAuthFake: the real client against a scripted fake server.
func runAuthFake(c *authCase) string {
	cend, send := pipe.New()
	defer cend.Close()
	var mu sync.Mutex
	var lines []string
	var received [][]byte
	go func() {
		r := bufio.NewReader(send)
		w := send
		w.Write([]byte("220 fake ESMTP\r\n"))
		step := 0
		inAuth := false
		reply := func() {
			if step < len(c.Steps) {
				w.Write([]byte("334 " + base64.StdEncoding.EncodeToString(valOf(c.Steps[step].Chal, 200+step)) + "\r\n"))
				return
			}
			inAuth = false
			if c.Final == 235 {
				w.Write([]byte("235 2.7.0 ok\r\n"))
			} else {
				w.Write([]byte(fmt.Sprintf("%d %d.7.8 final-failure\r\n", c.Final, c.Final/100)))
			}
		}
		for {
			raw, err := r.ReadString('\n')
			if err != nil {
				return
			}
			line := strings.TrimRight(raw, "\r\n")
			up := strings.ToUpper(line)
			switch {
			case strings.HasPrefix(up, "EHLO"):
				w.Write([]byte("250-fake\r\n250 AUTH XTEST\r\n"))
			case strings.HasPrefix(up, "NOOP"):
				w.Write([]byte("250 2.0.0 ok\r\n"))
			case strings.HasPrefix(up, "AUTH "):
				cls, b := classifyLine(line, true)
				mu.Lock()
				lines = append(lines, cls)
				received = append(received, b)
				mu.Unlock()
				inAuth = true
				reply()
			case line == "*":
				mu.Lock()
				lines = append(lines, "*")
				mu.Unlock()
				inAuth = false
				w.Write([]byte("501 5.0.0 cancelled\r\n"))
			case inAuth:
				cls, b := classifyLine(line, false)
				mu.Lock()
				lines = append(lines, cls)
				received = append(received, b)
				mu.Unlock()
				step++
				reply()
			default:
				mu.Lock()
				lines = append(lines, "stray:"+line)
				mu.Unlock()
				w.Write([]byte("500 5.5.2 what\r\n"))
			}
		}
	}()
	cl := smtp.NewClient(cend)
	cl.CommandTimeout = 2 * time.Second
	m := &mech{c: c}
	done := make(chan error, 1)
	go func() { done <- cl.Auth(m) }()
	var aerr error
	select {
	case aerr = <-done:
	case <-time.After(8 * time.Second):
		return "Auth did not return"
	}
	got := 0
	switch e := aerr.(type) {
	case nil:
	case *smtp.SMTPError:
		got = e.Code
	default:
		if errors.Is(aerr, errMech) {
			got = -1
		} else {
			return fmt.Sprintf("Auth returned %v", aerr)
		}
	}
	if got != c.Result {
		return fmt.Sprintf("Auth returned %d (%v), specification %d", got, aerr, c.Result)
	}
	if err := cl.Noop(); err != nil {
		return fmt.Sprintf("connection not usable after Auth: NOOP -> %v", err)
	}
	mu.Lock()
	defer mu.Unlock()
	if strings.Join(lines, "|") != strings.Join(c.Lines, "|") {
		return fmt.Sprintf("lines written %v, specification %v", lines, c.Lines)
	}
	// values cross unaltered
	if len(m.shown) != len(c.Shown) {
		return fmt.Sprintf("mechanism was shown %d challenges, specification %d", len(m.shown), len(c.Shown))
	}
	for i, ch := range m.shown {
		if !bytes.Equal(ch, valOf(c.Shown[i], 200+i)) {
			return fmt.Sprintf("challenge %d reached the mechanism as %q, server sent %q", i, ch, valOf(c.Shown[i], 200+i))
		}
	}
	want := [][]byte{valOf(c.IR, 0)}
	for i, st := range c.Steps {
		if st.Resp == "error" {
			break
		}
		want = append(want, valOf(st.Resp, 100+i+1))
	}
	if len(received) != len(want) {
		return fmt.Sprintf("server received %d values, client mechanism produced %d", len(received), len(want))
	}
	for i := range want {
		if !bytes.Equal(received[i], want[i]) {
			return fmt.Sprintf("value %d reached the server as %q, mechanism produced %q", i, received[i], want[i])
		}
	}
	return ""
}

// runAuthReal: the real client against the real server with a scripted sasl.Server.
func runAuthReal(c *authCase) string {
	for _, st := range c.Steps {
		if st.Resp == "error" {
			return "" // cancellation towards the real server is the fake-server family's business plus the session graph's ARESP_cancel
		}
	}
	srv := drv.Start(drv.Cfg{MaxLine: 2000, InsecureAuth: true, AuthBackend: true})
	defer srv.Stop()
	cn, err := srv.Dial()
	if err != nil {
		return "dial: " + err.Error()
	}
	defer cn.Raw.Close()
	var plan []rec.AuthStep
	for i, st := range c.Steps {
		plan = append(plan, rec.AuthStep{Challenge: valOf(st.Chal, 200+i)})
	}
	switch c.Final {
	case 235:
		plan = append(plan, rec.AuthStep{Done: true})
	case 535:
		plan = append(plan, rec.AuthStep{Err: smtp.ErrAuthFailed, Done: len(c.Steps)%2 == 0})
	default:
		plan = append(plan, rec.AuthStep{Err: errors.New("backend trouble")}) // 454 4.7.0
	}
	srv.BE.Lock()
	srv.BE.Mechs = []string{"XTEST"}
	srv.BE.AuthPlans = [][]rec.AuthStep{plan}
	srv.BE.Unlock()
	cl := smtp.NewClient(cn.Raw)
	cl.CommandTimeout = 2 * time.Second
	m := &mech{c: c}
	done := make(chan error, 1)
	go func() { done <- cl.Auth(m) }()
	var aerr error
	select {
	case aerr = <-done:
	case <-time.After(8 * time.Second):
		return "Auth against the real server did not return"
	}
	got := 0
	if e, ok := aerr.(*smtp.SMTPError); ok {
		got = e.Code
	} else if aerr != nil {
		return fmt.Sprintf("Auth against the real server returned %v", aerr)
	}
	if got != c.Result {
		return fmt.Sprintf("against the real server Auth returned %d (%v), specification %d", got, aerr, c.Result)
	}
	// the real server's mechanism must have seen the client's mechanism's octets
	var seen [][]byte
	var nils []bool
	for _, cl := range srv.BE.Calls() {
		if cl.Name == "SASLNext" {
			seen = append(seen, cl.Data)
			nils = append(nils, cl.NilData)
		}
	}
	want := [][]byte{valOf(c.IR, 0)}
	for i, st := range c.Steps {
		want = append(want, valOf(st.Resp, 100+i+1))
	}
	if len(seen) != len(want) {
		return fmt.Sprintf("the server's mechanism was called %d times, client produced %d values", len(seen), len(want))
	}
	for i := range want {
		if !bytes.Equal(seen[i], want[i]) || (want[i] == nil) != nils[i] {
			return fmt.Sprintf("value %d reached the server's mechanism as %q (nil=%v), client's mechanism produced %q (nil=%v)", i, seen[i], nils[i], want[i], want[i] == nil)
		}
	}
	for i, ch := range m.shown {
		if !bytes.Equal(ch, valOf(c.Steps[i].Chal, 200+i)) {
			return fmt.Sprintf("challenge %d reached the client's mechanism as %q, server's mechanism sent %q", i, ch, valOf(c.Steps[i].Chal, 200+i))
		}
	}
	if err := cl.Noop(); err != nil {
		return fmt.Sprintf("connection to the real server not usable after Auth: %v", err)
	}
	return ""
}

// clientAuthFamily runs the client half of C09 and returns (TLC states, cases run).
func clientAuthFamily(run *evid.Run) (int64, int) {
	res, err := tlcrun.Run("ClientAuth", "MC_ClientAuth.cfg", tlcrun.Opts{Workers: 1, Tags: []string{"AUTHX"}})
	if err != nil || !res.OK {
		evid.Inconclusive("TLC on ClientAuth.tla: %v %s", err, res.Violation)
	}
	var cases []*authCase
	for _, p := range res.Tagged["AUTHX"] {
		c := &authCase{}
		if err := json.Unmarshal([]byte(p), c); err != nil {
			evid.Inconclusive("AUTHX: %v", err)
		}
		cases = append(cases, c)
	}
	var wg sync.WaitGroup
	sem := make(chan struct{}, 16)
	for _, c := range cases {
		wg.Add(1)
		go func(c *authCase) {
			defer wg.Done()
			sem <- struct{}{}
			defer func() { <-sem }()
			for _, f := range []func(*authCase) string{runAuthFake, runAuthReal} {
				if msg := f(c); msg != "" {
					kind := msg
					if i := strings.IndexAny(msg, ":(0123456789"); i > 0 {
						kind = strings.TrimSpace(msg[:i])
					}
					run.Report(evid.Div{Prop: "C09", Key: fmt.Sprintf("c09-client:%s:ir=%s:steps=%d:final=%d", kind, c.IR, len(c.Steps), c.Final),
						Msg: fmt.Sprintf("Client.Auth, initial response %s, steps %+v, server's final reply %d: %s", c.IR, c.Steps, c.Final, msg), Replay: map[string]interface{}{"engine": "c09-client", "case": c}})
				}
			}
		}(c)
	}
	wg.Wait()
	return res.Distinct, len(cases)
}
