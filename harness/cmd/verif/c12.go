package main

import (
	"encoding/json"
	"fmt"
	"sort"
	"strings"
	"sync"

	"verifharness/drv"
	"verifharness/evid"
	"verifharness/tlcrun"
	"verifharness/wire"
)

type capsCfg struct {
	Utf8          bool `json:"utf8"`
	RequireTLS    bool `json:"requireTLS"`
	Binarymime    bool `json:"binarymime"`
	Dsn           bool `json:"dsn"`
	Rrvs          bool `json:"rrvs"`
	MaxBytes      int  `json:"maxBytes"`
	MaxRcpt       int  `json:"maxRcpt"`
	TlsConfigured bool `json:"tlsConfigured"`
	InsecureAuth  bool `json:"insecureAuth"`
	AuthBackend   bool `json:"authBackend"`
	AuthMechs     bool `json:"authMechs"`
	Lmtp          bool `json:"lmtp"`
}

type capsEntry struct {
	Cfg    capsCfg        `json:"cfg"`
	Active bool           `json:"active"`
	Caps   []string       `json:"caps"`
	Probes map[string]int `json:"probes"`
}

// used: before the upgrade the plaintext connection has a history of its own
// (an authentication where plaintext AUTH is allowed, an open transaction):
// what is advertised and honoured afterwards is the entry's all the same.
//
// failedHS (plaintext entries with TLS configured): an upgrade was tried and the
// handshake failed - the connection is as unprotected as before, and what is
// advertised and honoured is the plaintext entry's.
func runCaps(e *capsEntry, implicit bool, n int, used bool, failedHS bool) []string {
	var problems []string
	bad := func(f string, a ...interface{}) { problems = append(problems, fmt.Sprintf(f, a...)) }
	c := e.Cfg
	external := e.Active && !c.TlsConfigured // TLS supplied by the caller's listener
	if external {
		implicit = true
	}
	srv := drv.Start(drv.Cfg{LMTP: c.Lmtp, MaxRcpt: c.MaxRcpt, MaxBytes: int64(c.MaxBytes), MaxLine: 2000, TLSAvail: c.TlsConfigured,
		ImplicitTLS: implicit, ExternalTLS: external, InsecureAuth: c.InsecureAuth, AuthBackend: c.AuthBackend, NoMechs: c.AuthBackend && !c.AuthMechs, UTF8: c.Utf8, RequireTLS: c.RequireTLS,
		Binarymime: c.Binarymime, DSN: c.Dsn, RRVS: c.Rrvs, NoTracer: true})
	defer srv.Stop()
	cn, err := srv.Dial()
	if err != nil {
		return []string{"dial: " + err.Error()}
	}
	defer cn.Close()
	cn.Output()
	ask := func(line string) []wire.Reply {
		rs, _, err := cn.Replies([]byte(line + "\r\n"))
		if err != nil {
			bad("%q: %v", line, err)
		}
		return rs
	}
	code := func(line string) int {
		rs := ask(line)
		if len(rs) != 1 {
			bad("%q: %d replies", line, len(rs))
			return 0
		}
		return rs[0].Code
	}
	verb := "EHLO"
	if c.Lmtp {
		verb = "LHLO"
	}
	if e.Active && !implicit {
		code(verb + " pre.test")
		if used {
			code("AUTH PLAIN AHVzZXIAcGFzcw==")
			code("MAIL FROM:<pre@x.test>")
			code("RCPT TO:<pre@x.test>")
		}
		if code("STARTTLS") != 220 {
			return append(problems, "STARTTLS refused although TLS is configured")
		}
		if err := cn.StartTLSClient(); err != nil {
			return append(problems, "handshake: "+err.Error())
		}
		cn.WaitIdle()
	}
	if failedHS {
		code(verb + " pre.test")
		if code("STARTTLS") != 220 {
			return append(problems, "STARTTLS refused although TLS is configured")
		}
		if rs, _, err := cn.Replies([]byte("HELLO")); err != nil || len(rs) != 1 || rs[0].Code/100 != 5 {
			return append(problems, fmt.Sprintf("five octets that are no TLS record header after the 220: %v %v", codes(rs), err))
		}
	}
	if !c.Lmtp {
		rs := ask("HELO h.test")
		if len(rs) != 1 || rs[0].Code != 250 || len(rs[0].Lines) != 1 {
			bad("HELO must list no extension: %v", rs)
		}
	}
	rs := ask(verb + " caps.test")
	if len(rs) != 1 || rs[0].Code != 250 {
		return append(problems, fmt.Sprintf("%s: %v", verb, rs))
	}
	got := append([]string{}, rs[0].Lines[1:]...)
	var want []string
	for _, k := range e.Caps {
		k = strings.Replace(k, "SIZE N", fmt.Sprintf("SIZE %d", n), 1)
		k = strings.Replace(k, "RCPTMAX=N", fmt.Sprintf("RCPTMAX=%d", n), 1)
		want = append(want, k)
	}
	sort.Strings(got)
	sort.Strings(want)
	if strings.Join(got, "|") != strings.Join(want, "|") {
		bad("capabilities: server %v, specification %v", got, want)
	}
	probe := func(name string, got int) {
		if want := e.Probes[name]; got != want {
			bad("probe %s: server %d, specification %d", name, got, want)
		}
	}
	mail := "MAIL FROM:<a@x.test>"
	// keywords are case-insensitive: the spelling rotates with the configuration
	style := (c.MaxBytes + c.MaxRcpt + btoi(c.Utf8) + 2*btoi(c.Dsn) + btoi(c.Lmtp) + btoi(c.RequireTLS) + btoi(implicit) + btoi(used)) % 3
	kw := func(s string) string {
		switch style {
		case 1:
			return strings.ToLower(s)
		case 2:
			b := []byte(strings.ToLower(s))
			for i := 0; i < len(b); i += 2 {
				if b[i] >= 'a' && b[i] <= 'z' {
					b[i] -= 32
				}
			}
			return string(b)
		}
		return s
	}
	probe("mail_smtputf8", code(mail+" "+kw("SMTPUTF8")))
	code("RSET")
	probe("mail_requiretls", code(mail+" "+kw("REQUIRETLS")))
	code("RSET")
	probe("mail_binarymime", code(mail+" "+kw("BODY")+"="+kw("BINARYMIME")))
	code("RSET")
	probe("mail_8bitmime", code(mail+" "+kw("BODY")+"="+kw("8BITMIME")))
	code("RSET")
	probe("mail_ret", code(mail+" "+kw("RET")+"="+kw("FULL")))
	code("RSET")
	probe("mail_envid", code(mail+" "+kw("ENVID")+"=QQ314159"))
	code("RSET")
	probe("mail_size_ok", code(fmt.Sprintf("%s SIZE=%d", mail, n-1)))
	code("RSET")
	probe("mail_size_exact", code(fmt.Sprintf("%s SIZE=%d", mail, n)))
	code("RSET")
	probe("mail_size_over", code(fmt.Sprintf("%s SIZE=%d", mail, n+1)))
	code("RSET")
	code(mail)
	probe("rcpt_notify", code("RCPT TO:<b@x.test> "+kw("NOTIFY")+"="+kw("SUCCESS,FAILURE")))
	code("RSET")
	code(mail)
	probe("rcpt_orcpt", code("RCPT TO:<b@x.test> "+kw("ORCPT")+"="+kw("rfc822")+";b@x.test"))
	code("RSET")
	code(mail)
	probe("rcpt_rrvs", code("RCPT TO:<b@x.test> "+kw("RRVS")+"=2014-04-03T23:01:00Z"))
	code("RSET")
	code(mail)
	for i := 0; i < n; i++ {
		if cd := code(fmt.Sprintf("RCPT TO:<r%d@x.test>", i)); cd != 250 {
			bad("recipient %d of %d refused with %d", i+1, n, cd)
		}
	}
	probe("rcpt_beyond_max", code("RCPT TO:<last@x.test>"))
	code("RSET")
	code(mail)
	code("RCPT TO:<b@x.test>")
	probe("bdat", code(kw("BDAT")+" 0 "+kw("LAST")))
	probe("auth", code(kw("AUTH")+" "+kw("PLAIN")+" AHVzZXIAcGFzcw=="))
	probe("starttls", code(kw("STARTTLS")))
	return problems
}

func init() {
	checks["C12"] = func(tier string) {
		run := evid.NewRun("C12", tier)
		res, err := tlcrun.Run("Caps", "MC_Caps.cfg", tlcrun.Opts{Workers: 1, Tags: []string{"CAPS"}})
		if err != nil || !res.OK {
			evid.Inconclusive("TLC on Caps.tla: %v %s", err, res.Violation)
		}
		var entries []*capsEntry
		for _, p := range res.Tagged["CAPS"] {
			e := &capsEntry{}
			if err := json.Unmarshal([]byte(p), e); err != nil {
				evid.Inconclusive("CAPS: %v", err)
			}
			entries = append(entries, e)
		}
		if len(entries) != 8192 {
			evid.Inconclusive("expected 8192 configuration entries, TLC printed %d", len(entries))
		}
		const n = 7
		var mu sync.Mutex
		var wg sync.WaitGroup
		sem := make(chan struct{}, 16)
		nrun := 0
		for _, e := range entries {
			variants := []bool{false}
			if e.Active && e.Cfg.TlsConfigured {
				variants = []bool{false, true} // via STARTTLS and implicit TLS
			}
			type variant struct{ implicit, used, failedHS bool }
			var vs []variant
			if !e.Active && e.Cfg.TlsConfigured {
				vs = append(vs, variant{false, false, true})
			}
			for _, implicit := range variants {
				vs = append(vs, variant{implicit, false, false})
				if e.Active && !implicit && e.Cfg.TlsConfigured {
					vs = append(vs, variant{false, true, false})
				}
			}
			for _, v := range vs {
				implicit, used, failedHS := v.implicit, v.used, v.failedHS
				wg.Add(1)
				go func(e *capsEntry, implicit bool) {
					defer wg.Done()
					sem <- struct{}{}
					defer func() { <-sem }()
					probs := runCaps(e, implicit, n, used, failedHS)
					mu.Lock()
					defer mu.Unlock()
					nrun++
					for _, p := range probs {
						kind := p
						if i := strings.Index(p, ":"); i > 0 {
							kind = p[:i]
						}
						run.Report(evid.Div{Prop: "C12", Key: fmt.Sprintf("caps:%s:active=%v:implicit=%v:lmtp=%v:used=%v:failedhs=%v", kind, e.Active, implicit, e.Cfg.Lmtp, used, failedHS),
							Msg: fmt.Sprintf("configuration %+v, TLS active=%v (implicit=%v, plaintext history before the upgrade=%v, after a failed handshake=%v): %s", e.Cfg, e.Active, implicit, used, failedHS, p), Replay: map[string]interface{}{"engine": "caps", "entry": e, "implicit": implicit, "used": used}})
					}
				}(e, implicit)
			}
		}
		wg.Wait()
		fmt.Printf("C12: Caps.tla %d states (all configurations); %d real servers started, greeted and probed\n", res.Distinct, nrun)
		run.Finish("model_checking", evid.Coverage{
			"states": res.Distinct, "transitions": res.Generated, "traces_validated_against_impl": nrun,
			"configurations": len(entries), "exhaustive": true,
			"samples":     []interface{}{entries[0], entries[len(entries)-1]},
			"checker_cmd": res.Cmd,
		}, []string{"the limits use N = 7; TLS active is exercised both via STARTTLS and as implicit TLS",
			"REQUIRETLS accepted on a plaintext connection when the flag is on (it is not advertised there) is what the code does and is not judged: the property only demands refusal for extensions the configuration disables"})
	}
}

func btoi(b bool) int {
	if b {
		return 1
	}
	return 0
}
