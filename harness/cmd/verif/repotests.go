package main

import (
	"bufio"
	"encoding/json"
	"fmt"
	"os"
	"os/exec"
	"path/filepath"
	"regexp"
	"sort"
	"strconv"
	"strings"

	"verifharness/evid"
	"verifharness/tlcrun"
)

type hookRec struct {
	Pid  int      `json:"pid"`
	Conn int      `json:"conn"`
	Seq  int      `json:"seq"`
	Ev   string   `json:"ev"`
	Args []string `json:"args"`
	St   *struct {
		From  bool `json:"from"`
		Rcpts int  `json:"rcpts"`
	} `json:"st"`
}

// repoTestTraces runs the repository's own test suite with the verif tag and
// the file tracer, and lets TLC evaluate the observer invariants
// (Trace_Observer.tla) on every connection's event stream. It returns the
// number of connections and events validated.
func repoTestTraces(run *evid.Run, props map[string]bool) (conns, events int) {
	dir, err := os.MkdirTemp("", "verifrepotrace")
	if err != nil {
		evid.Inconclusive("repo test traces: %v", err)
	}
	defer os.RemoveAll(dir)
	tf := filepath.Join(dir, "trace.ndjson")
	cmd := exec.Command("go", "test", "-tags", "verif", "-count=1", "-vet=off", ".")
	cmd.Dir = "/repo"
	if d := os.Getenv("VERIF_REPO"); d != "" {
		cmd.Dir = d // testing aid, see /verif/check
	}
	if d := os.Getenv("VERIF_REPO"); d != "" {
		cmd.Dir = d
	}
	cmd.Env = append(os.Environ(), "VERIF_TRACE_FILE="+tf, "GOFLAGS=-mod=mod", "GOPROXY=off", "GOSUMDB=off", "GOTOOLCHAIN=local")
	out, err := cmd.CombinedOutput()
	if err != nil {
		// a failing repository test is not this check's business (and happens with seeded changes)
		fmt.Printf("NOTE: the repository's own tests did not pass with the verif tag: %v\n%s\n", err, tailText(string(out), 600))
	}
	if _, err := os.Stat(tf); err == nil {
		ss := repoStepTraces(run, tf)
		if len(ss.Divs) > 0 {
			// hook events of different goroutines interleave differently from run to run:
			// only a rejection that repeats on a second run of the suite is reported
			tf2 := filepath.Join(dir, "trace2.ndjson")
			cmd2 := exec.Command("go", "test", "-tags", "verif", "-count=1", "-vet=off", ".")
			cmd2.Dir = cmd.Dir
			cmd2.Env = append(os.Environ(), "VERIF_TRACE_FILE="+tf2, "GOFLAGS=-mod=mod", "GOPROXY=off", "GOSUMDB=off", "GOTOOLCHAIN=local")
			cmd2.CombinedOutput()
			again := map[string]bool{}
			if _, err := os.Stat(tf2); err == nil {
				for _, d := range repoStepTraces(run, tf2).Divs {
					again[d.Prop+"|"+d.Key] = true
				}
			}
			for _, d := range ss.Divs {
				if again[d.Prop+"|"+d.Key] {
					run.Report(d)
				} else if d.Prop == "C03" {
					fmt.Printf("NOTE repo tests as step traces: a rejection did not repeat on a second run of the suite and is not reported: %s\n", d.Key)
				}
			}
		}
		fmt.Printf("repo tests as step traces: %d connections, %d within the specification's alphabet (%d steps) explained by SmtpServer!Next, %d rejected; outside the alphabet: %v\n", ss.Conns, ss.InAlphabet, ss.Steps, ss.Rejected, ss.Skipped)
	}
	f, err := os.Open(tf)
	if err != nil {
		evid.Inconclusive("repo test traces: no trace file written: %v", err)
	}
	defer f.Close()
	byConn := map[[2]int][]hookRec{}
	sc := bufio.NewScanner(f)
	sc.Buffer(make([]byte, 1<<20), 1<<26)
	for sc.Scan() {
		var r hookRec
		if json.Unmarshal(sc.Bytes(), &r) != nil {
			continue
		}
		k := [2]int{r.Pid, r.Conn}
		byConn[k] = append(byConn[k], r)
	}
	var keys [][2]int
	for k := range byConn {
		keys = append(keys, k)
	}
	sort.Slice(keys, func(i, j int) bool { return keys[i][0]*100000+keys[i][1] < keys[j][0]*100000+keys[j][1] })
	var nd strings.Builder
	type seg struct{ start, n int }
	var segs []seg
	total := 0
	emit := func(m map[string]interface{}) {
		b, _ := json.Marshal(m)
		nd.Write(b)
		nd.WriteByte('\n')
		total++
	}
	for _, k := range keys {
		evs := byConn[k]
		sort.SliceStable(evs, func(i, j int) bool { return evs[i].Seq < evs[j].Seq })
		if len(evs) == 0 || evs[0].Ev != "open" {
			continue
		}
		start := total + 1
		first := true
		for _, e := range evs {
			switch e.Ev {
			case "open":
				emit(map[string]interface{}{"ev": "open"})
			case "cb.NewSession":
				emit(map[string]interface{}{"ev": "newsession", "ok": len(e.Args) > 0 && e.Args[0] == "<nil>"})
			case "cb.Logout":
				emit(map[string]interface{}{"ev": "logout"})
			case "cb.Reset":
				emit(map[string]interface{}{"ev": "reset"})
			case "reply":
				code, _ := strconv.Atoi(e.Args[0])
				nl, _ := strconv.Atoi(e.Args[2])
				var a, b, c int
				fmt.Sscanf(e.Args[1], "[%d %d %d]", &a, &b, &c)
				cls := a
				if a == 0 && b == 0 && c == 0 {
					cls = code / 100 // unset: the server substitutes X.0.0 of the reply's class
				}
				exempt := first && code == 220 || code/100 == 3 || (code == 250 && nl > 1 && a == -1)
				first = false
				emit(map[string]interface{}{"ev": "reply", "code": code, "enhclass": cls, "exempt": exempt})
			case "handled":
				if e.St != nil {
					emit(map[string]interface{}{"ev": "state", "from": e.St.From, "rcpts": e.St.Rcpts})
				}
			case "end":
				emit(map[string]interface{}{"ev": "end"})
			}
		}
		segs = append(segs, seg{start, total - start + 1})
		conns++
	}
	events = total
	if total == 0 {
		evid.Inconclusive("repo test traces: the trace file has no connection")
	}
	res, err := tlcrun.Run("Trace_Observer", "Trace_Observer.cfg", tlcrun.Opts{Workers: 1, Tags: []string{"OBSERVED"}, Files: map[string][]byte{"trace.ndjson": []byte(nd.String())}})
	if err != nil {
		evid.Inconclusive("Trace_Observer: %v", err)
	}
	if res.OK && len(res.Tagged["OBSERVED"]) > 0 {
		return
	}
	if !strings.Contains(res.Violation+res.Output, "NoViolation") {
		evid.Inconclusive("Trace_Observer failed for another reason: %s\n%s", res.Violation, tailOut(res))
	}
	// the counterexample's last state holds the description and the index
	what, idx := "?", 0
	for _, line := range strings.Split(res.Output, "\n") {
		line = strings.TrimSpace(line)
		if strings.HasPrefix(line, "/\\ bad = \"") && len(line) > 11 {
			if w := strings.Trim(line[9:], "\""); w != "" {
				what = w
			}
		}
		if strings.HasPrefix(line, "/\\ l = ") {
			idx, _ = strconv.Atoi(strings.TrimPrefix(line, "/\\ l = "))
		}
	}
	prop := "C08"
	switch {
	case strings.Contains(what, "envelope"):
		prop = "C03"
	case strings.Contains(what, "enhanced"):
		prop = "C04"
	}
	if props[prop] {
		run.Report(evid.Div{Prop: prop, Key: "repo-tests:" + what, Msg: fmt.Sprintf("an execution of the repository's own test suite (event %d of the concatenated hook trace) violates: %s", idx-1, what),
			Replay: map[string]interface{}{"engine": "repo-tests", "what": what, "event_index": idx - 1}})
	}
	return
}

// ---------------------------------------------------------------------------
// The repository's tests as step traces, explained by SmtpServer!Next
// (spec/Trace_RepoTests.tla).

type hookFull struct {
	Pid  int                    `json:"pid"`
	Conn int                    `json:"conn"`
	Seq  int                    `json:"seq"`
	Ev   string                 `json:"ev"`
	Args []string               `json:"args"`
	Cfg  map[string]interface{} `json:"cfg"`
	St   *struct {
		Helo     string `json:"helo"`
		Session  bool   `json:"session"`
		From     bool   `json:"from"`
		Rcpts    int    `json:"rcpts"`
		Bdat     bool   `json:"bdat"`
		DidAuth  bool   `json:"didAuth"`
		ErrCount int    `json:"errCount"`
		LMTP     *bool  `json:"lmtp"`
	} `json:"st"`
}

var reBdat = regexp.MustCompile(`^BDAT ([0-9]{1,6})( LAST)?$`)
var reGreet = regexp.MustCompile(`^(EHLO|HELO|LHLO) [A-Za-z0-9.\-]+$`)

// repoLineCmd maps a command line of the test suite to the specification's
// command, from the text of the line alone; ok=false: not in the alphabet.
func repoLineCmd(line string) (map[string]interface{}, bool) {
	up := strings.ToUpper(line)
	mk := func(c string) map[string]interface{} {
		return map[string]interface{}{"c": c, "n": 0, "l": false, "sized": false}
	}
	switch {
	case reGreet.MatchString(line):
		return mk(line[:4]), true
	case strings.HasPrefix(up, "MAIL FROM:") && !strings.Contains(up, "BODY=") && !strings.Contains(up, "SMTPUTF8") && !strings.Contains(up, "REQUIRETLS"):
		return mk("MAIL"), true
	case strings.HasPrefix(up, "RCPT TO:") && !strings.Contains(up, "RRVS="):
		return mk("RCPT"), true
	case line == "DATA":
		return mk("DATA"), true
	case reBdat.MatchString(line):
		m := reBdat.FindStringSubmatch(line)
		n, _ := strconv.Atoi(m[1])
		return map[string]interface{}{"c": "BDAT", "n": n, "l": m[2] != "", "sized": true}, true
	case line == "RSET" || line == "NOOP" || line == "HELP" || line == "QUIT" || line == "VRFY":
		return mk(line), true
	case strings.HasPrefix(line, "AUTH PLAIN"):
		return mk("AUTH"), true
	case line == "XXXX":
		return mk("BAD"), true
	}
	return nil, false
}

type repoStepStats struct {
	Conns, InAlphabet, Steps, Rejected int
	Skipped                            []string
	Divs                               []evid.Div // rejections, not yet reported
}

// repoStepTraces: see Trace_RepoTests.tla. props: the properties the caller reports.
func repoStepTraces(run *evid.Run, tf string) repoStepStats {
	var stats repoStepStats
	f, err := os.Open(tf)
	if err != nil {
		evid.Inconclusive("repo test traces: %v", err)
	}
	defer f.Close()
	byConn := map[[2]int][]hookFull{}
	sc := bufio.NewScanner(f)
	sc.Buffer(make([]byte, 1<<20), 1<<26)
	for sc.Scan() {
		var r hookFull
		if json.Unmarshal(sc.Bytes(), &r) != nil {
			continue
		}
		k := [2]int{r.Pid, r.Conn}
		byConn[k] = append(byConn[k], r)
	}
	var keys [][2]int
	for k := range byConn {
		keys = append(keys, k)
	}
	sort.Slice(keys, func(i, j int) bool { return keys[i][0]*100000+keys[i][1] < keys[j][0]*100000+keys[j][1] })
	type connTrace struct {
		lines []string
		evs   []map[string]interface{}
	}
	var traces []connTrace
	for _, k := range keys {
		evs := byConn[k]
		sort.SliceStable(evs, func(i, j int) bool { return evs[i].Seq < evs[j].Seq })
		if len(evs) == 0 || evs[0].Ev != "open" || evs[0].Cfg == nil {
			continue
		}
		stats.Conns++
		c := evs[0].Cfg
		ct := connTrace{}
		ct.evs = append(ct.evs, map[string]interface{}{"ev": "reset", "cfg": map[string]interface{}{
			"lmtp": c["lmtp"], "maxRcpt": c["maxRcpt"], "maxBytes": c["maxBytes"], "tlsAvail": c["tlsAvail"],
			"insecureAuth": c["insecureAuth"], "binarymime": c["binarymime"], "dsn": c["dsn"]}})
		// a connection that lives until the test closes the SERVER is torn down from
		// another goroutine: its Logout (and the cleared session) can land anywhere in
		// the step that happens to be running - the trace ends before that step
		teardown := false
		for j := len(evs) - 1; j >= 0; j-- {
			if evs[j].Ev == "line" {
				teardown = len(evs[j].Args) > 1 && strings.Contains(evs[j].Args[1], "use of closed network connection")
				break
			}
		}
		if teardown {
			for j := range evs {
				if evs[j].Ev == "cb.Logout" && len(evs[j].Args) > 0 && evs[j].Args[0] == "close" {
					cut := j
					for k := j - 1; k > 0; k-- {
						if evs[k].Ev == "handled" {
							break
						}
						if evs[k].Ev == "line" {
							cut = k
							break
						}
					}
					evs = evs[:cut]
					break
				}
			}
		}
		var cur map[string]interface{}
		ok := true
		why := ""
		flush := func(st *hookFull) {
			if cur == nil {
				return
			}
			if st != nil && st.St != nil {
				cur["st"] = map[string]interface{}{"helo": st.St.Helo != "", "session": st.St.Session, "from": st.St.From, "rcpts": st.St.Rcpts,
					"bdat": st.St.Bdat, "didAuth": st.St.DidAuth, "errCount": st.St.ErrCount}
				cur["nost"] = false
			}
			ct.evs = append(ct.evs, cur)
			cur = nil
		}
		newStep := func(cmd map[string]interface{}) {
			cur = map[string]interface{}{"ev": "step", "cmd": cmd, "replies": []string{}, "cbs": []string{}, "nost": true,
				"st": map[string]interface{}{"helo": false, "session": false, "from": false, "rcpts": 0, "bdat": false, "didAuth": false, "errCount": 0}}
		}
		for i := 1; i < len(evs) && ok; i++ {
			e := evs[i]
			switch e.Ev {
			case "line":
				flush(nil)
				if len(e.Args) < 2 {
					ok, why = false, "line event without arguments"
					break
				}
				if e.Args[1] != "<nil>" {
					if e.Args[1] == "EOF" {
						newStep(map[string]interface{}{"c": "EOF", "n": 0, "l": false, "sized": false})
					} else if strings.Contains(e.Args[1], "use of closed network connection") {
						// the test closed the server under the connection: the trace ends here
						i = len(evs)
					} else if strings.Contains(e.Args[1], "too long a line") {
						newStep(map[string]interface{}{"c": "LONG", "n": 0, "l": false, "sized": false})
					} else {
						ok, why = false, "line read error "+e.Args[1]
					}
					break
				}
				cmd, in := repoLineCmd(e.Args[0])
				if !in {
					ok, why = false, fmt.Sprintf("line %q", e.Args[0])
					break
				}
				ct.lines = append(ct.lines, e.Args[0])
				newStep(cmd)
			case "authline":
				// a SASL response line: the AUTH step ends, an ARESP step begins
				ee := e
				flush(&ee)
				newStep(map[string]interface{}{"c": "ARESP", "n": 0, "l": false, "sized": false})
			case "reply":
				if cur == nil {
					if len(ct.evs) == 1 {
						continue // the greeting
					}
					ok, why = false, "reply outside a step"
					break
				}
				code, _ := strconv.Atoi(e.Args[0])
				cls := "neg"
				if code/100 == 2 {
					cls = "pos"
				} else if code/100 == 3 {
					cls = "int"
				}
				cur["replies"] = append(cur["replies"].([]string), cls)
			case "cb.NewSession":
				if cur != nil {
					n := "NewSession"
					if len(e.Args) > 0 && e.Args[0] != "<nil>" {
						n = "NewSession.fail"
					}
					cur["cbs"] = append(cur["cbs"].([]string), n)
				}
			case "cb.Reset":
				if cur != nil {
					cur["cbs"] = append(cur["cbs"].([]string), "Reset")
				}
			case "cb.Logout":
				if cur != nil {
					cur["cbs"] = append(cur["cbs"].([]string), "Logout")
				} else {
					// the connection is being closed by the peer: the EOF step that follows owns it
					newStep(map[string]interface{}{"c": "EOF", "n": 0, "l": false, "sized": false})
					cur["cbs"] = append(cur["cbs"].([]string), "Logout")
				}
			case "handled":
				if lm, isb := c["lmtp"].(bool); isb && e.St != nil && e.St.LMTP != nil && *e.St.LMTP != lm {
					ok, why = false, "the test changes Server.LMTP under an open connection"
					break
				}
				ee := e
				flush(&ee)
			case "end":
				flush(nil)
			}
		}
		flush(nil)
		if n := len(ct.lines); ok && n > 0 && reBdat.MatchString(ct.lines[n-1]) && !strings.HasSuffix(ct.lines[n-1], "LAST") {
			// the conversation ends inside or right behind a non-final chunk: whether the
			// chunk was complete is not visible in the hook events
			ok, why = false, "ends with a non-final BDAT"
		}
		if !ok {
			stats.Skipped = append(stats.Skipped, why)
			continue
		}
		stats.InAlphabet++
		stats.Steps += len(ct.evs) - 1
		traces = append(traces, ct)
	}
	if len(traces) == 0 {
		return stats
	}
	validate := func(ts []connTrace) (bool, int, string) {
		var nd strings.Builder
		n := 0
		for _, t := range ts {
			for _, e := range t.evs {
				b, _ := json.Marshal(e)
				nd.Write(b)
				nd.WriteByte('\n')
				n++
			}
		}
		res, err := tlcrun.Run("Trace_RepoTests", "Trace_RepoTests.cfg", tlcrun.Opts{Workers: 1, Tags: []string{"HWM"}, Files: map[string][]byte{"rtrace.ndjson": []byte(nd.String())}})
		if res == nil || len(res.Tagged["HWM"]) == 0 {
			evid.Inconclusive("Trace_RepoTests gave no verdict: %v\n%s", err, tailOut(res))
		}
		hwm, _ := strconv.Atoi(res.Tagged["HWM"][len(res.Tagged["HWM"])-1])
		inv := ""
		if res.Violation != "" && !strings.Contains(res.Violation, "TraceAccepted") && !strings.Contains(res.Violation, "Postcondition") {
			inv = res.Violation
		}
		return hwm == n+1 && res.OK, hwm, inv
	}
	if okAll, _, _ := validate(traces); okAll {
		return stats
	}
	for _, t := range traces {
		good, hwm, inv := validate([]connTrace{t})
		if good {
			continue
		}
		stats.Rejected++
		if stats.Rejected > 5 {
			continue
		}
		bad := hwm - 1
		if inv != "" && bad > 1 {
			bad--
		}
		if bad < 0 || bad >= len(t.evs) {
			bad = len(t.evs) - 1
		}
		b, _ := json.Marshal(t.evs[bad])
		what := "is not a step SmtpServer.tla allows there"
		if inv != "" {
			what = "violates " + inv
		}
		if os.Getenv("VERIF_RT_DEBUG") != "" {
			fmt.Printf("REJECTED %q step %d %s %s\n", t.lines, bad, b, what)
		}
		for _, p := range []string{"C03", "C04", "C08"} {
			stats.Divs = append(stats.Divs, evid.Div{Prop: p, Key: fmt.Sprintf("repo-tests:steps:%s:%s", fmt.Sprint(t.evs[bad]["cmd"]), strings.Join(t.lines, "|")),
				Msg:    fmt.Sprintf("a connection of the repository's own test suite (commands %q): step %d %s %s", t.lines, bad, b, what),
				Replay: map[string]interface{}{"engine": "repo-tests-steps", "lines": t.lines, "events": t.evs[:bad+1]}})
		}
	}
	return stats
}

func init() {
	// development aid: validate an existing hook trace file (VERIF_RT_FILE) as step traces
	checks["RTDEV"] = func(tier string) {
		run := evid.NewRun("C03", tier)
		ss := repoStepTraces(run, os.Getenv("VERIF_RT_FILE"))
		fmt.Printf("%+v\n", ss)
		fmt.Printf("divs=%d\n", run.NumDivs())
		os.Exit(0)
	}
}
