package main

import (
	"bufio"
	"encoding/json"
	"fmt"
	"os"
	"os/exec"
	"path/filepath"
	"sort"
	"strconv"
	"strings"

	"verifharness/evid"
	"verifharness/tlcrun"
)

type hookRec struct {
	Pid  int      `json:"pid"`
	Conn int      `json:"conn"`
	Seq  int      `json:"seq"`
	Ev   string   `json:"ev"`
	Args []string `json:"args"`
	St   *struct {
		From  bool `json:"from"`
		Rcpts int  `json:"rcpts"`
	} `json:"st"`
}

// repoTestTraces runs the repository's own test suite with the verif tag and
// the file tracer, and lets TLC evaluate the observer invariants
// (Trace_Observer.tla) on every connection's event stream. It returns the
// number of connections and events validated.
func repoTestTraces(run *evid.Run, props map[string]bool) (conns, events int) {
	dir, err := os.MkdirTemp("", "verifrepotrace")
	if err != nil {
		evid.Inconclusive("repo test traces: %v", err)
	}
	defer os.RemoveAll(dir)
	tf := filepath.Join(dir, "trace.ndjson")
	cmd := exec.Command("go", "test", "-tags", "verif", "-count=1", "-vet=off", ".")
	cmd.Dir = "/repo"
	if d := os.Getenv("VERIF_REPO"); d != "" {
		cmd.Dir = d // testing aid, see /verif/check
	}
	if d := os.Getenv("VERIF_REPO"); d != "" {
		cmd.Dir = d
	}
	cmd.Env = append(os.Environ(), "VERIF_TRACE_FILE="+tf, "GOFLAGS=-mod=mod", "GOPROXY=off", "GOSUMDB=off", "GOTOOLCHAIN=local")
	out, err := cmd.CombinedOutput()
	if err != nil {
		// a failing repository test is not this check's business (and happens with seeded changes)
		fmt.Printf("NOTE: the repository's own tests did not pass with the verif tag: %v\n%s\n", err, tailText(string(out), 600))
	}
	f, err := os.Open(tf)
	if err != nil {
		evid.Inconclusive("repo test traces: no trace file written: %v", err)
	}
	defer f.Close()
	byConn := map[[2]int][]hookRec{}
	sc := bufio.NewScanner(f)
	sc.Buffer(make([]byte, 1<<20), 1<<26)
	for sc.Scan() {
		var r hookRec
		if json.Unmarshal(sc.Bytes(), &r) != nil {
			continue
		}
		k := [2]int{r.Pid, r.Conn}
		byConn[k] = append(byConn[k], r)
	}
	var keys [][2]int
	for k := range byConn {
		keys = append(keys, k)
	}
	sort.Slice(keys, func(i, j int) bool { return keys[i][0]*100000+keys[i][1] < keys[j][0]*100000+keys[j][1] })
	var nd strings.Builder
	type seg struct{ start, n int }
	var segs []seg
	total := 0
	emit := func(m map[string]interface{}) {
		b, _ := json.Marshal(m)
		nd.Write(b)
		nd.WriteByte('\n')
		total++
	}
	for _, k := range keys {
		evs := byConn[k]
		sort.SliceStable(evs, func(i, j int) bool { return evs[i].Seq < evs[j].Seq })
		if len(evs) == 0 || evs[0].Ev != "open" {
			continue
		}
		start := total + 1
		first := true
		for _, e := range evs {
			switch e.Ev {
			case "open":
				emit(map[string]interface{}{"ev": "open"})
			case "cb.NewSession":
				emit(map[string]interface{}{"ev": "newsession", "ok": len(e.Args) > 0 && e.Args[0] == "<nil>"})
			case "cb.Logout":
				emit(map[string]interface{}{"ev": "logout"})
			case "cb.Reset":
				emit(map[string]interface{}{"ev": "reset"})
			case "reply":
				code, _ := strconv.Atoi(e.Args[0])
				nl, _ := strconv.Atoi(e.Args[2])
				var a, b, c int
				fmt.Sscanf(e.Args[1], "[%d %d %d]", &a, &b, &c)
				cls := a
				if a == 0 && b == 0 && c == 0 {
					cls = code / 100 // unset: the server substitutes X.0.0 of the reply's class
				}
				exempt := first && code == 220 || code/100 == 3 || (code == 250 && nl > 1 && a == -1)
				first = false
				emit(map[string]interface{}{"ev": "reply", "code": code, "enhclass": cls, "exempt": exempt})
			case "handled":
				if e.St != nil {
					emit(map[string]interface{}{"ev": "state", "from": e.St.From, "rcpts": e.St.Rcpts})
				}
			case "end":
				emit(map[string]interface{}{"ev": "end"})
			}
		}
		segs = append(segs, seg{start, total - start + 1})
		conns++
	}
	events = total
	if total == 0 {
		evid.Inconclusive("repo test traces: the trace file has no connection")
	}
	res, err := tlcrun.Run("Trace_Observer", "Trace_Observer.cfg", tlcrun.Opts{Workers: 1, Tags: []string{"OBSERVED"}, Files: map[string][]byte{"trace.ndjson": []byte(nd.String())}})
	if err != nil {
		evid.Inconclusive("Trace_Observer: %v", err)
	}
	if res.OK && len(res.Tagged["OBSERVED"]) > 0 {
		return
	}
	if !strings.Contains(res.Violation+res.Output, "NoViolation") {
		evid.Inconclusive("Trace_Observer failed for another reason: %s\n%s", res.Violation, tailOut(res))
	}
	// the counterexample's last state holds the description and the index
	what, idx := "?", 0
	for _, line := range strings.Split(res.Output, "\n") {
		line = strings.TrimSpace(line)
		if strings.HasPrefix(line, "/\\ bad = \"") && len(line) > 11 {
			if w := strings.Trim(line[9:], "\""); w != "" {
				what = w
			}
		}
		if strings.HasPrefix(line, "/\\ l = ") {
			idx, _ = strconv.Atoi(strings.TrimPrefix(line, "/\\ l = "))
		}
	}
	prop := "C08"
	switch {
	case strings.Contains(what, "envelope"):
		prop = "C03"
	case strings.Contains(what, "enhanced"):
		prop = "C04"
	}
	if props[prop] {
		run.Report(evid.Div{Prop: prop, Key: "repo-tests:" + what, Msg: fmt.Sprintf("an execution of the repository's own test suite (event %d of the concatenated hook trace) violates: %s", idx-1, what),
			Replay: map[string]interface{}{"engine": "repo-tests", "what": what, "event_index": idx - 1}})
	}
	return
}
