package main

import (
	"fmt"
	"math/big"
	"strings"
	"sync"

	"verifharness/datarep"
	"verifharness/drv"
	"verifharness/evid"
	"verifharness/rec"
	"verifharness/wire"
)

// e2eSize sends messages of sizes around the limit through a real server via
// DATA and compares what the backend was handed and the verdict with the
// DataStream automaton (budget = limit).
func e2eSizeData(run *evid.Run, t datarep.Table, limits []int64, samples *[]interface{}) (n int) {
	var mu sync.Mutex
	var wg sync.WaitGroup
	for _, lim := range limits {
		for _, lmtp := range []bool{false, true} {
			wg.Add(1)
			go func(lim int64, lmtp bool) {
				defer wg.Done()
				srv := drv.Start(drv.Cfg{MaxBytes: lim, LMTP: lmtp, MaxLine: 200})
				defer srv.Stop()
				sizes := []int{0, 1, int(lim) - 2, int(lim) - 1, int(lim), int(lim) + 1, int(lim) + 2, 3 * int(lim)}
				for _, size := range sizes {
					if size < 0 {
						continue
					}
					for _, shape := range []string{"plain", "crlf-end", "dots"} {
						body := makeBody(size, shape)
						for _, rb := range []int{1, 3, 4096} {
							c, err := srv.Dial()
							if err != nil {
								evid.Inconclusive("dial: %v", err)
							}
							c.Output()
							greet := "EHLO x\r\n"
							if lmtp {
								greet = "LHLO x\r\n"
							}
							srv.BE.Lock()
							srv.BE.DataPlans = []rec.DataPlan{{Buf: rb, Propagate: true}}
							srv.BE.Unlock()
							mark := srv.BE.NumCalls()
							wireMsg := body + "\r\n.\r\n"
							if strings.HasSuffix(body, "\r\n") || body == "" {
								// the CRLF before the dot is part of the message
							}
							script := greet + "MAIL FROM:<a@x>\r\nRCPT TO:<b@x>\r\nDATA\r\n" + wireMsg + "NOOP\r\n"
							out, _, err := c.Step([]byte(script))
							if err != nil {
								evid.Inconclusive("e2e size: %v", err)
							}
							rs, rest, syn := wire.ParseAll(out)
							calls := srv.BE.Since(mark)
							c.Close()
							exp := t.Interp([]byte(wireMsg), int(lim))
							var got []byte
							var rerr string
							for _, cl := range calls {
								if cl.Phase == "end" {
									got, rerr = cl.Data, cl.ReadErr
								}
							}
							mu.Lock()
							n++
							if len(*samples) < 3 && size == int(lim) {
								*samples = append(*samples, map[string]interface{}{"limit": lim, "lmtp": lmtp, "message": wireMsg, "backend_read": string(got), "reader_result": rerr, "replies": codes(rs)})
							}
							mu.Unlock()
							ctx := fmt.Sprintf("limit %d lmtp=%v message %q read size %d", lim, lmtp, wireMsg, rb)
							rp := map[string]interface{}{"engine": "e2e-size", "limit": lim, "lmtp": lmtp, "script": script, "rb": rb}
							key := fmt.Sprintf("e2e-size:lim=%d:size=%d:%s:lmtp=%v", lim, size-int(lim), shape, lmtp)
							if syn != "" || len(rest) > 0 {
								run.Report(evid.Div{Prop: "C04", Key: key + ":syntax", Msg: ctx + ": malformed replies " + syn, Replay: rp})
								continue
							}
							// replies: EHLO, MAIL, RCPT, 354, final, NOOP
							if len(rs) != 6 {
								run.Report(evid.Div{Prop: "C02", Key: key + ":desync", Msg: fmt.Sprintf("%s: expected 6 replies, got %v", ctx, codes(rs)), Replay: rp})
								continue
							}
							final := rs[4]
							if int64(len(got)) > lim {
								run.Report(evid.Div{Prop: "C06", Key: key + ":handed-too-much", Msg: fmt.Sprintf("%s: backend was handed %d octets", ctx, len(got)), Replay: rp})
							}
							if string(got) != string(exp.Out) {
								run.Report(evid.Div{Prop: "C06", Key: key + ":octets", Msg: fmt.Sprintf("%s: backend read %q, specification %q", ctx, got, exp.Out), Replay: rp})
							}
							if exp.Fail {
								if final.Code != 552 || rerr == "EOF" {
									run.Report(evid.Div{Prop: "C06", Key: key + ":not-refused", Msg: fmt.Sprintf("%s: over the limit but reader result %q, final reply %d", ctx, rerr, final.Code), Replay: rp})
								}
							} else {
								if final.Code != 250 || rerr != "EOF" {
									run.Report(evid.Div{Prop: "C06", Key: key + ":refused-but-fits", Msg: fmt.Sprintf("%s: fits the limit but reader result %q, final reply %d %s", ctx, rerr, final.Code, final.Text()), Replay: rp})
								}
							}
							if rs[5].Code != 250 {
								run.Report(evid.Div{Prop: "C02", Key: key + ":resume", Msg: fmt.Sprintf("%s: command after the message answered %d", ctx, rs[5].Code), Replay: rp})
							}
						}
					}
				}
			}(lim, lmtp)
		}
	}
	wg.Wait()
	return n
}

func codes(rs []wire.Reply) []int {
	var c []int
	for _, r := range rs {
		c = append(c, r.Code)
	}
	return c
}

// makeBody builds a message whose size AFTER dot-unstuffing, including the
// CRLF that precedes the end marker, is exactly size (size 0: empty message,
// 1: impossible with a trailing CRLF, so a bare octet is used and the CRLF of
// the marker line counts).
func makeBody(size int, shape string) string {
	// what the backend reads is body + "\r\n" (the CRLF before the dot); we
	// build body so that len(unstuffed body)+2 == size, or for size < 2 special
	switch {
	case size == 0:
		return "" // wire: "\r\n.\r\n" -> backend reads "\r\n" (2 octets)... handled by oracle
	}
	n := size - 2
	if n < 0 {
		n = 0
	}
	switch shape {
	case "dots":
		// a stuffed line: "..xxx" counts one octet less after unstuffing
		if n >= 2 {
			return "." + "." + strings.Repeat("x", n-1)
		}
	case "crlf-end":
		if n >= 2 {
			return strings.Repeat("y", n-2) + "\r\n"
		}
	}
	return strings.Repeat("z", n)
}

func init() {
	checks["C06"] = func(tier string) {
		run := evid.NewRun("C06", tier)
		cfg, maxLen, nRandom := "MC_DataStream.cfg", 6, 20000
		budgets := []int{1, 2, 3, 4, 5, 6, 7}
		if tier == "thorough" {
			cfg, maxLen, nRandom = "MC_DataStream_thorough.cfg", 8, 200000
			budgets = []int{1, 2, 3, 4, 5, 6, 7, 8, 9, 10, 11, 12}
		}
		mc := modelCheck("DataStream", cfg, 16)
		t, runs, _ := loadDataTable()
		nx := crossCheck(t, runs)
		st := sweepData(t, maxLen, budgets, nRandom, run.Seed, func(data []byte, segs []int, rb, bud int, msg string) {
			run.Report(evid.Div{Prop: dataProp(msg, bud), Key: dataKey(t, data, msg) + fmt.Sprintf(":bud%d", bud), Msg: fmt.Sprintf("stream %q segments %v read size %d budget %d: %s", data, segs, rb, bud, msg),
				Replay: map[string]interface{}{"engine": "datareader", "data": data, "segs": segs, "rb": rb, "bud": bud}})
		})
		samples := []interface{}{}
		ne := e2eSizeData(run, t, []int64{4, 5, 9}, &samples)
		nd := declaredSizes(run)
		// session level: SIZE= declarations and over-limit chunks are edges of the session graph
		smc := modelCheck("MC_Session", "MC_Session.cfg", 16)
		gs := dumpEdges("MC_Session", "Dump_Session.cfg")
		var lim []*sessrepGraph
		for _, g := range gs {
			if g.Cfg.MaxBytes > 0 {
				lim = append(lim, g)
			}
		}
		ts := tourAll(run, lim, 0)
		// finer chunk sizes against the limit: three-chunk accumulations, exact fits
		zmc := modelCheck("MC_Size", "MC_Size.cfg", 16)
		zs := tourAll(run, dumpEdges("MC_Size", "Dump_Size.cfg"), 0)
		ts.Covered += zs.Covered
		ts.Edges += zs.Edges
		ts.Convs += zs.Convs
		smc.Distinct += zmc.Distinct
		smc.Generated += zmc.Generated
		fmt.Printf("C06: DataStream %d states; reader sweep %d runs; %d end-to-end size conversations; session graph with a limit: %d/%d edges replayed\n", mc.Distinct, st.runs, ne, ts.Covered, ts.Edges)
		run.Finish("model_checking", evid.Coverage{
			"states": mc.Distinct + smc.Distinct, "transitions": mc.Generated + smc.Generated,
			"traces_validated_against_impl": int(st.streams) + ne + ts.Convs,
			"reader_runs":                   st.runs, "e2e_size_conversations": ne, "declared_size_probes": nd, "session_edges_replayed": ts.Covered,
			"interpreter_crosscheck_runs": nx,
			"samples":                     samples,
			"checker_cmd":                 mc.Cmd,
		}, []string{"budgets 1..12 at the reader level, limits {4,5,9} end to end, limit 8 in the session graph", "BDAT size accounting is an edge family of the session graph (chunk sizes {0,6} against limit 8); finer chunkings are C05's",
			"declared SIZE values beyond 32 bits: the server answers 501 (cannot represent) instead of 552; either is taken as the refusal the property asks for, provided the backend is not consulted"})
	}
}

// declaredSizes probes MAIL ... SIZE=v for values around the limit and far
// above it, through the widths an implementation may parse them with.  The
// verdict is the session model's (MailVariants sizeok / sizeover): at most N is
// accepted and handed to the backend as declared, more than N is refused
// without consulting it.
func declaredSizes(run *evid.Run) int {
	n := 0
	for _, lim := range []int64{1, 1000, 1 << 31} {
		srv := drv.Start(drv.Cfg{MaxLine: 2000, MaxBytes: lim})
		cn, err := srv.Dial()
		if err != nil {
			srv.Stop()
			evid.Inconclusive("C06 declared sizes: %v", err)
		}
		cn.Output()
		cn.Replies([]byte("EHLO c06.test\r\n"))
		vals := []string{"0", "1", fmt.Sprint(lim - 1), fmt.Sprint(lim), fmt.Sprint(lim + 1), fmt.Sprint(2 * lim), "2147483647", "2147483648", "4294967295", "4294967296",
			"9223372036854775807", "9223372036854775808", "18446744073709551615", "18446744073709551616", "99999999999999999999"}
		for _, v := range vals {
			mark := srv.BE.NumCalls()
			rs, _, err := cn.Replies([]byte("MAIL FROM:<s@x.test> SIZE=" + v + "\r\n"))
			if err != nil || len(rs) != 1 {
				evid.Inconclusive("C06 declared sizes: %v %v", rs, err)
			}
			n++
			var mail *rec.Call
			calls := srv.BE.Since(mark)
			for i := range calls {
				if calls[i].Name == "Mail" {
					mail = &calls[i]
				}
			}
			bv, _ := new(big.Int).SetString(v, 10)
			over := bv.Cmp(big.NewInt(lim)) > 0
			wide := bv.Cmp(big.NewInt(4294967295)) > 0
			rp := map[string]interface{}{"engine": "c06-declared-size", "limit": lim, "size": v}
			switch {
			case over && (mail != nil || rs[0].Code/100 == 2):
				run.Report(evid.Div{Prop: "C06", Key: "declared-size:accepted-over", Msg: fmt.Sprintf("limit %d: MAIL SIZE=%s answered %d, backend consulted: %v", lim, v, rs[0].Code, mail != nil), Replay: rp})
			case over && rs[0].Code != 552 && !(wide && rs[0].Code == 501):
				run.Report(evid.Div{Prop: "C06", Key: "declared-size:code", Msg: fmt.Sprintf("limit %d: MAIL SIZE=%s answered %d, not 552", lim, v, rs[0].Code), Replay: rp})
			case !over && (rs[0].Code != 250 || mail == nil || mail.MailOpts == nil || fmt.Sprint(mail.MailOpts.Size) != v):
				got := "<no callback>"
				if mail != nil && mail.MailOpts != nil {
					got = fmt.Sprint(mail.MailOpts.Size)
				}
				run.Report(evid.Div{Prop: "C06", Key: "declared-size:refused-within", Msg: fmt.Sprintf("limit %d: MAIL SIZE=%s answered %d, backend saw size %s", lim, v, rs[0].Code, got), Replay: rp})
			}
			cn.Replies([]byte("RSET\r\n"))
		}
		cn.Close()
		srv.Stop()
	}
	return n
}
