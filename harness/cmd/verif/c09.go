package main

func init() {
	checks["C09"] = func(tier string) {
		sessionCheckWith("C09", tier, "MC_Auth", "MC_Auth.cfg", "Dump_Auth.cfg", "Server half: TLS x AllowInsecureAuth x backend families. Client half: ClientAuth.tla enumerates every exchange of up to 3 challenges (initial response absent/empty/octets, challenge and response empty/octets, mechanism error at any step, final reply 235/535/454); the real Client.Auth is driven with a scripted mechanism against a scripted fake server (lines written, result, challenges shown, values received compared with the dumped expectation) and against the real server with a scripted sasl.Server (octets on both sides).", clientAuthFamily)
	}
	checks["C10"] = func(tier string) {
		sessionCheckWith("C10", tier, "MC_Auth", "MC_Auth.cfg", "Dump_Auth.cfg", "Server half: every pre-STARTTLS history class of the bounded model, with and without injected plaintext. Client half: ClientTLS.tla gives, per entry point (DialStartTLS, NewClientStartTLS, SendMail with and without credentials) and server behaviour (proper, STARTTLS not offered, refused with 454, 220 then garbage, 220 with injected plaintext replies in the same segment), the verbs allowed in plaintext, success, and whose capabilities the client ends up with; the real client is run against scripted TCP fake servers that record plaintext and in-TLS commands.", clientTLSFamily)
	}
}
