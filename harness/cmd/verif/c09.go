package main

func init() {
	checks["C09"] = func(tier string) {
		sessionCheckWith("C09", tier, "MC_Auth", "MC_Auth.cfg", "Dump_Auth.cfg", "Server half: TLS x AllowInsecureAuth x backend families. Client half: ClientAuth.tla enumerates every exchange of up to 3 challenges (initial response absent/empty/octets, challenge and response empty/octets, mechanism error at any step, final reply 235/535/454); the real Client.Auth is driven with a scripted mechanism against a scripted fake server (lines written, result, challenges shown, values received compared with the dumped expectation) and against the real server with a scripted sasl.Server (octets on both sides).", clientAuthFamily)
	}
	checks["C10"] = func(tier string) {
		sessionCheck("C10", tier, "MC_Auth", "MC_Auth.cfg", "Dump_Auth.cfg", "Server half of C10: every pre-STARTTLS history class of the bounded model, with and without injected plaintext.")
	}
}
