package main

func init() {
	checks["C09"] = func(tier string) {
		sessionCheck("C09", tier, "MC_Auth", "MC_Auth.cfg", "Dump_Auth.cfg", "Server half of C09: TLS x AllowInsecureAuth x backend families.")
	}
	checks["C10"] = func(tier string) {
		sessionCheck("C10", tier, "MC_Auth", "MC_Auth.cfg", "Dump_Auth.cfg", "Server half of C10: every pre-STARTTLS history class of the bounded model, with and without injected plaintext.")
	}
}
