package main

import (
	"bufio"
	"crypto/tls"
	"encoding/json"
	"fmt"
	"net"
	"sort"
	"strings"
	"sync"
	"time"

	sasl "github.com/emersion/go-sasl"
	smtp "github.com/emersion/go-smtp"

	"verifharness/drv"
	"verifharness/evid"
	"verifharness/tlcrun"
)

type ctlsCase struct {
	E     string   `json:"e"`
	B     string   `json:"b"`
	Plain []string `json:"plain"`
	OK    bool     `json:"ok"`
	Caps  string   `json:"caps"`
	TLS   []string `json:"tls"`
}

// tlsFake is a TCP fake server with scripted behaviour around STARTTLS; it
// records the verbs it receives in plaintext and inside TLS.
type tlsFake struct {
	ln     net.Listener
	b      string
	mu     sync.Mutex
	plain  []string
	intls  []string
	raw    []string
	tlsraw []string
}

func newTLSFake(b string) (*tlsFake, error) {
	ln, err := net.Listen("tcp", "127.0.0.1:0")
	if err != nil {
		return nil, err
	}
	f := &tlsFake{ln: ln, b: b}
	go f.serve()
	return f, nil
}

func verbOf(line string) string {
	f := strings.Fields(strings.ToUpper(line))
	if len(f) == 0 {
		return ""
	}
	return f[0]
}

func (f *tlsFake) serve() {
	c, err := f.ln.Accept()
	if err != nil {
		return
	}
	defer c.Close()
	c.SetDeadline(time.Now().Add(8 * time.Second))
	c.Write([]byte("220 fake.test ESMTP\r\n"))
	r := bufio.NewReader(c)
	for {
		raw, err := r.ReadString('\n')
		if err != nil {
			return
		}
		line := strings.TrimRight(raw, "\r\n")
		v := verbOf(line)
		f.mu.Lock()
		f.plain = append(f.plain, v)
		f.raw = append(f.raw, line)
		f.mu.Unlock()
		switch v {
		case "EHLO":
			if f.b == "notoffered" {
				c.Write([]byte("250-fake.test\r\n250-AUTH PLAIN LOGIN\r\n250 8BITMIME\r\n"))
			} else {
				// plaintext capabilities the client must not trust after the upgrade
				c.Write([]byte("250-fake.test\r\n250-STARTTLS\r\n250-AUTH LOGIN\r\n250-8BITMIME\r\n250 SIZE 1\r\n"))
			}
		case "STARTTLS":
			switch f.b {
			case "refused":
				c.Write([]byte("454 4.7.0 TLS not available right now\r\n"))
				continue
			case "garbage":
				c.Write([]byte("220 2.0.0 go ahead\r\n"))
				// swallow the ClientHello, answer with something that is not TLS
				buf := make([]byte, 4096)
				c.Read(buf)
				c.Write([]byte("250 this is not a TLS record at all, sorry\r\n"))
				// whatever follows is still plaintext from the server's point of view
				for {
					raw, err := r.ReadString('\n')
					if err != nil {
						return
					}
					f.mu.Lock()
					f.plain = append(f.plain, verbOf(raw))
					f.raw = append(f.raw, strings.TrimRight(raw, "\r\n"))
					f.mu.Unlock()
					c.Write([]byte("250 2.0.0 ok\r\n"))
				}
			case "injected":
				c.Write([]byte("220 2.0.0 go ahead\r\n250-injected.test\r\n250-AUTH LOGIN CRAM-MD5\r\n250 SIZE 42\r\n"))
			default:
				c.Write([]byte("220 2.0.0 go ahead\r\n"))
			}
			cert, _ := drv.TLSMaterial()
			tc := tls.Server(c, &tls.Config{Certificates: []tls.Certificate{cert}})
			if err := tc.Handshake(); err != nil {
				return
			}
			f.tlsLoop(tc)
			return
		case "QUIT":
			c.Write([]byte("221 2.0.0 bye\r\n"))
			return
		case "DATA":
			c.Write([]byte("354 go\r\n"))
		default:
			c.Write([]byte("250 2.0.0 ok\r\n"))
		}
	}
}

func (f *tlsFake) tlsLoop(tc *tls.Conn) {
	r := bufio.NewReader(tc)
	inData := false
	for {
		raw, err := r.ReadString('\n')
		if err != nil {
			return
		}
		line := strings.TrimRight(raw, "\r\n")
		if inData {
			if line == "." {
				inData = false
				tc.Write([]byte("250 2.0.0 queued\r\n"))
			}
			continue
		}
		v := verbOf(line)
		f.mu.Lock()
		f.intls = append(f.intls, v)
		f.tlsraw = append(f.tlsraw, line)
		f.mu.Unlock()
		switch v {
		case "EHLO":
			if f.b == "heloonly" {
				tc.Write([]byte("502 5.5.1 EHLO not implemented here\r\n"))
				continue
			}
			tc.Write([]byte("250-fake.test\r\n250-AUTH PLAIN\r\n250 SIZE 7777\r\n"))
		case "AUTH":
			tc.Write([]byte("235 2.7.0 ok\r\n"))
		case "DATA":
			inData = true
			tc.Write([]byte("354 go\r\n"))
		case "QUIT":
			tc.Write([]byte("221 2.0.0 bye\r\n"))
			return
		default:
			tc.Write([]byte("250 2.0.0 ok\r\n"))
		}
	}
}

func runCTLS(c *ctlsCase) string {
	f, err := newTLSFake(c.B)
	if err != nil {
		return "listen: " + err.Error()
	}
	defer f.ln.Close()
	addr := f.ln.Addr().String()
	_, pool := drv.TLSMaterial()
	tcfg := &tls.Config{RootCAs: pool, ServerName: "verif.test"}
	var callErr error
	var cl *smtp.Client
	done := make(chan struct{})
	go func() {
		defer close(done)
		switch c.E {
		case "DialStartTLS":
			cl, callErr = smtp.DialStartTLS(addr, tcfg)
		case "NewClientStartTLS":
			conn, err := net.Dial("tcp", addr)
			if err != nil {
				callErr = err
				return
			}
			cl, callErr = smtp.NewClientStartTLS(conn, tcfg)
		case "SendMail":
			callErr = smtp.SendMail(addr, nil, "secret-sender@x.test", []string{"secret-rcpt@x.test"}, strings.NewReader("Subject: secret\r\n\r\nsecret body\r\n"))
		default:
			callErr = smtp.SendMail(addr, sasl.NewPlainClient("", "secret-user", "secret-password"), "secret-sender@x.test", []string{"secret-rcpt@x.test"}, strings.NewReader("Subject: secret\r\n\r\nsecret body\r\n"))
		}
		if cl != nil && callErr == nil && c.Caps == "helo" {
			// HELO fallback inside TLS: the client knows of no extension, whatever it saw in plaintext
			for _, x := range []string{"SIZE", "AUTH", "8BITMIME", "STARTTLS"} {
				if ok, p := cl.Extension(x); ok {
					callErr = fmt.Errorf("after the HELO fallback inside TLS the client still reports %s %q, seen in plaintext only", x, p)
				}
			}
			if err := cl.Mail("in-tls@x.test", &smtp.MailOptions{Size: 5}); err != nil {
				callErr = fmt.Errorf("Mail after the HELO fallback: %v", err)
			}
			cl.Close()
		} else if cl != nil && callErr == nil {
			// first use after the upgrade: capabilities must come from inside TLS
			ok, params := cl.Extension("SIZE")
			if !ok || params != "7777" {
				callErr = fmt.Errorf("capabilities after the upgrade are not those of the EHLO reply inside TLS: SIZE %v %q", ok, params)
			}
			if ok, p := cl.Extension("AUTH"); !ok || p != "PLAIN" {
				callErr = fmt.Errorf("capabilities after the upgrade are not those of the EHLO reply inside TLS: AUTH %v %q", ok, p)
			}
			cl.Close()
		}
	}()
	select {
	case <-done:
	case <-time.After(10 * time.Second):
		return "the call did not return"
	}
	time.Sleep(5 * time.Millisecond)
	f.mu.Lock()
	defer f.mu.Unlock()
	allowed := map[string]bool{}
	for _, v := range c.Plain {
		allowed[v] = true
	}
	for i, v := range f.plain {
		if !allowed[v] {
			return fmt.Sprintf("%q was written in plaintext (lines %q); allowed before TLS: %v", v, f.raw, c.Plain)
		}
		if strings.Contains(f.raw[i], "secret") {
			return fmt.Sprintf("a plaintext line carries sensitive content: %q", f.raw[i])
		}
	}
	if c.OK != (callErr == nil) {
		return fmt.Sprintf("specification: success=%v; the call returned %v", c.OK, callErr)
	}
	if c.Caps == "helo" {
		for _, l := range f.tlsraw {
			if verbOf(l) == "MAIL" && len(strings.Fields(l)) > 2 {
				return fmt.Sprintf("inside TLS after the HELO fallback the client sent ESMTP parameters it knows from plaintext only: %q", l)
			}
		}
	}
	if c.OK {
		got := append([]string{}, f.intls...)
		want := append([]string{}, c.TLS...)
		if c.E == "DialStartTLS" || c.E == "NewClientStartTLS" {
			// only the renegotiation is required; Close sends nothing
			if len(got) == 0 || got[0] != "EHLO" {
				return fmt.Sprintf("inside TLS the client did not start with EHLO: %v", got)
			}
		} else if strings.Join(got, ",") != strings.Join(want, ",") {
			return fmt.Sprintf("inside TLS the client sent %v, specification %v", got, want)
		}
	}
	return ""
}

// clientTLSFamily runs the client half of C10.
func clientTLSFamily(run *evid.Run) (int64, int) {
	// the package-level SendMail verifies against the system roots: make the harness CA one of them
	_, pool := drv.TLSMaterial()
	smtp.VerifSetStartTLSHook(func(cfg *tls.Config) {
		if cfg.RootCAs == nil {
			cfg.RootCAs = pool
		}
	})
	defer smtp.VerifSetStartTLSHook(nil)
	res, err := tlcrun.Run("ClientTLS", "MC_ClientTLS.cfg", tlcrun.Opts{Workers: 1, Tags: []string{"CTLS"}})
	if err != nil || !res.OK {
		evid.Inconclusive("TLC on ClientTLS.tla: %v", err)
	}
	n := 0
	for _, p := range res.Tagged["CTLS"] {
		c := &ctlsCase{}
		if err := json.Unmarshal([]byte(p), c); err != nil {
			evid.Inconclusive("CTLS: %v", err)
		}
		sort.Strings(c.Plain)
		for rep := 0; rep < 3; rep++ {
			n++
			if msg := runCTLS(c); msg != "" {
				kind := msg
				if i := strings.IndexAny(msg, ":("); i > 0 {
					kind = msg[:i]
				}
				run.Report(evid.Div{Prop: "C10", Key: fmt.Sprintf("c10-client:%s:%s:%s", c.E, c.B, kind), Msg: fmt.Sprintf("%s against a server that is %q: %s", c.E, c.B, msg), Replay: map[string]interface{}{"engine": "c10-client", "case": c}})
				break
			}
		}
	}
	return res.Distinct, n
}
