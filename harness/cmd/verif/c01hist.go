package main

import (
	"fmt"
	"math/rand"
	"strings"
	"sync"

	"verifharness/datarep"
	"verifharness/drv"
	"verifharness/evid"
	"verifharness/rec"
)

// c01Histories: property C01 speaks of every 354 of a connection, so the
// transducer is also exercised end to end through the server, several
// messages per connection with what may come between two messages (nothing,
// RSET, a refused message, a chunked message, a TLS upgrade), every message
// with its own segmentation and backend buffer size.  The oracle is the
// automaton dumped by TLC from DataStream.tla.
func c01Histories(run *evid.Run, t datarep.Table, nconn int) (conns, msgs int) {
	var mu sync.Mutex
	var wg sync.WaitGroup
	sem := make(chan struct{}, 16)
	var firstErr error
	for i := 0; i < nconn; i++ {
		wg.Add(1)
		go func(i int) {
			defer wg.Done()
			sem <- struct{}{}
			defer func() { <-sem }()
			rng := rand.New(rand.NewSource(run.Seed*7919 + int64(i)))
			n, divs, err := c01History(t, i, rng)
			if err != nil && (strings.Contains(err.Error(), "closed pipe") || strings.Contains(err.Error(), "closed network")) && len(divs) == 0 {
				// the server ended the connection in the middle of a history of complete,
				// well-formed messages: the message it was receiving did not get through
				divs = append(divs, evid.Div{Prop: "C01", Key: "history:connection-ended", Msg: fmt.Sprintf("connection %d: the server closed the connection while well-formed messages were being sent (%v after %d messages)", i, err, n),
					Replay: map[string]interface{}{"engine": "c01-history", "index": i}})
				err = nil
			}
			mu.Lock()
			defer mu.Unlock()
			conns++
			msgs += n
			if err != nil && firstErr == nil {
				firstErr = err
			}
			for _, d := range divs {
				run.Report(d)
			}
		}(i)
	}
	wg.Wait()
	if firstErr != nil {
		evid.Inconclusive("C01 history conversation: %v", firstErr)
	}
	return
}

func c01Stream(rng *rand.Rand) []byte {
	n := 1 + rng.Intn(40)
	if rng.Intn(4) == 0 {
		// a stretch without LF far longer than the server's limit on COMMAND lines
		// (200 here): message text has no such limit
		n = 250 + rng.Intn(400)
		b := make([]byte, n)
		for k := range b {
			switch rng.Intn(12) {
			case 0:
				b[k] = '.'
			case 1:
				b[k] = '\r'
			default:
				b[k] = byte(rng.Intn(256))
				if b[k] == '\n' {
					b[k] = 'x'
				}
			}
		}
		return append(append(c01StreamShort(rng), b...), c01StreamShort(rng)...)
	}
	return c01StreamShort(rng)
}

func c01StreamShort(rng *rand.Rand) []byte {
	n := 1 + rng.Intn(40)
	b := make([]byte, n)
	for k := range b {
		switch rng.Intn(8) {
		case 0, 1:
			b[k] = '.'
		case 2, 3:
			b[k] = '\r'
		case 4:
			b[k] = '\n'
		case 5:
			copy(b[k:], "\r\n")
		default:
			b[k] = byte(rng.Intn(256))
		}
	}
	return b
}

func c01History(t datarep.Table, idx int, rng *rand.Rand) (int, []evid.Div, error) {
	mode := idx % 3 // 0 plain, 1 STARTTLS available, 2 implicit TLS
	lmtp := (idx/3)%2 == 1
	// (LMTP: half of the connections have a per-recipient backend that reports
	// its statuses BEFORE it reads the message, and then reads it slowly)
	perRcpt := lmtp && (idx/6)%2 == 1
	cfg := drv.Cfg{LMTP: lmtp, LMTPBackend: perRcpt, MaxLine: 200, Binarymime: true, TLSAvail: mode >= 1, ImplicitTLS: mode == 2}
	if (idx/12)%2 == 1 {
		// a size limit every single message fits in (the longest stream has 729
		// octets) but the messages of one connection together do not: the limit
		// is per message
		cfg.MaxBytes = 800
	}
	srv := drv.Start(cfg)
	defer srv.Stop()
	cn, err := srv.Dial()
	if err != nil {
		return 0, nil, err
	}
	defer cn.Close()
	cn.Output()
	be := srv.BE
	hello := "EHLO c01.test\r\n"
	if lmtp {
		hello = "LHLO c01.test\r\n"
	}
	if _, _, err := cn.Replies([]byte(hello)); err != nil {
		return 0, nil, err
	}
	var divs []evid.Div
	var hist []string
	upgraded := mode != 1
	nmsg := 0
	for m := 0; m < 5; m++ {
		// what comes between two messages
		between := []string{"nothing", "rset", "refused", "chunked", "starttls", "starttls"}[rng.Intn(6)]
		if m == 0 && between == "starttls" {
			between = "nothing" // the first message is sent in the clear when it can be
		}
		if between == "starttls" && upgraded {
			between = "rset"
		}
		switch between {
		case "rset":
			if _, _, err := cn.Replies([]byte("MAIL FROM:<x@x.test>\r\nRSET\r\n")); err != nil {
				return nmsg, divs, err
			}
		case "refused":
			be.Lock()
			be.DataPlans = append(be.DataPlans, rec.DataPlan{Err: fmt.Errorf("refused"), Propagate: true})
			be.Unlock()
			if _, _, err := cn.Replies([]byte("MAIL FROM:<x@x.test>\r\nRCPT TO:<y@x.test>\r\nDATA\r\nrefused\r\n.\r\n")); err != nil {
				return nmsg, divs, err
			}
		case "chunked":
			be.Lock()
			be.DataPlans = append(be.DataPlans, rec.DataPlan{Propagate: true})
			be.Unlock()
			if _, _, err := cn.Replies([]byte("MAIL FROM:<x@x.test>\r\nRCPT TO:<y@x.test>\r\nBDAT 5 LAST\r\n.\r\n.\r")); err != nil {
				return nmsg, divs, err
			}
		case "starttls":
			rs, _, err := cn.Replies([]byte("STARTTLS\r\n"))
			if err != nil {
				return nmsg, divs, err
			}
			if len(rs) != 1 || rs[0].Code != 220 {
				return nmsg, divs, fmt.Errorf("STARTTLS answered %v", codes(rs))
			}
			if err := cn.StartTLSClient(); err != nil {
				return nmsg, divs, fmt.Errorf("TLS handshake: %v", err)
			}
			if !cn.WaitIdle() {
				return nmsg, divs, cn.NotIdleError("after the TLS handshake")
			}
			cn.Output()
			if _, _, err := cn.Replies([]byte(hello)); err != nil {
				return nmsg, divs, err
			}
			upgraded = true
		}
		hist = append(hist, between)
		body := c01Stream(rng)
		wireMsg := append(append([]byte{}, body...), "\r\n.\r\n"...)
		exp := t.Interp(wireMsg, 0)
		if exp.State != "EOF" {
			return nmsg, divs, fmt.Errorf("stream does not end: %q", wireMsg)
		}
		wireMsg = wireMsg[:exp.Consumed]
		plan := rec.DataPlan{Propagate: true, Buf: []int{1, 2, 3, 7, 4096}[rng.Intn(5)]}
		if perRcpt {
			plan.Status = []rec.StatusOp{{Addr: fmt.Sprintf("r%d@x.test", m)}}
			plan.Buf = 1 + rng.Intn(2)
		}
		be.Lock()
		be.DataPlans = append(be.DataPlans, plan)
		be.Unlock()
		mark := be.NumCalls()
		if rs, _, err := cn.Replies([]byte(fmt.Sprintf("MAIL FROM:<s%d@x.test>\r\nRCPT TO:<r%d@x.test>\r\nDATA\r\n", m, m))); err != nil {
			var stuck *drv.StuckError
			if asStuck(err, &stuck) {
				divs = append(divs, evid.Div{Prop: "C01", Key: "history:reader-fault:" + between, Msg: fmt.Sprintf("message %d of a connection (mode %d, lmtp %v, per-recipient backend %v) after %v: %v\n%s", m, mode, lmtp, perRcpt, hist, stuck, stuck.Dump),
					Replay: map[string]interface{}{"engine": "c01-history", "index": idx, "history": hist}})
				return nmsg, divs, nil
			}
			return nmsg, divs, err
		} else if !(len(rs) == 3 || (perRcpt && len(rs) == 4 && rs[3].Code == 250)) || rs[0].Code != 250 || rs[2].Code != 354 {
			// (a per-recipient backend that reports before it reads is answered at once: a fourth reply)
			// commands do not resume where the previous message ended
			divs = append(divs, evid.Div{Prop: "C02", Key: "history:resume:" + between, Msg: fmt.Sprintf("message %d of a connection (mode %d, lmtp %v) after %v: MAIL, RCPT, DATA answered %v - the commands after the previous message were not executed as sent", m, mode, lmtp, hist, codes(rs)),
				Replay: map[string]interface{}{"engine": "c01-history", "index": idx, "history": hist}})
			return nmsg, divs, nil
		}
		// the message in random segments
		var segs [][]byte
		for left := wireMsg; len(left) > 0; {
			n := 1 + rng.Intn(len(left))
			if rng.Intn(2) == 0 {
				n = 1 + rng.Intn(3)
				if n > len(left) {
					n = len(left)
				}
			}
			segs = append(segs, left[:n])
			left = left[n:]
		}
		if err := cn.SendSegs(segs); err != nil {
			return nmsg, divs, err
		}
		rp := map[string]interface{}{"engine": "c01-history", "index": idx, "history": hist, "message": wireMsg, "buf": plan.Buf}
		ctx := fmt.Sprintf("message %d of a connection (mode %d, lmtp %v, size limit %d) after %v, stream %q, backend buffer %d", m, mode, lmtp, cfg.MaxBytes, hist, wireMsg, plan.Buf)
		idle := cn.WaitIdle()
		for tries := 0; !idle && tries < 5 && be.InFlight() > 0 && !drv.TooManyHangs(); tries++ {
			// a backend reading a long message an octet at a time on a loaded machine is
			// slow, not stuck: as long as its callback is running, keep waiting
			idle = cn.WaitIdle()
		}
		if !idle {
			err := cn.NotIdleError("C01 history: " + ctx)
			var stuck *drv.StuckError
			if asStuck(err, &stuck) {
				divs = append(divs, evid.Div{Prop: "C01", Key: "history:hang:" + between, Msg: ctx + ": the message was never completed - " + stuck.Error(), Replay: rp})
				return nmsg, divs, nil
			}
			return nmsg, divs, err
		}
		cn.Output()
		nmsg++
		var end *rec.Call
		calls := be.Since(mark)
		for i := range calls {
			if calls[i].Phase == "end" {
				end = &calls[i]
			}
		}
		if end == nil {
			divs = append(divs, evid.Div{Prop: "C01", Key: "history:no-data:" + between, Msg: ctx + ": the backend never finished reading", Replay: rp})
			return nmsg, divs, nil
		}
		if string(end.Data) != string(exp.Out) || end.ReadErr != "EOF" {
			divs = append(divs, evid.Div{Prop: "C01", Key: "history:octets:" + between, Msg: fmt.Sprintf("%s: backend read %q (%s), DataStream.tla %q then EOF", ctx, end.Data, end.ReadErr, exp.Out), Replay: rp})
			return nmsg, divs, nil
		}
	}
	return nmsg, divs, nil
}
