package main

import (
	"bufio"
	"encoding/json"
	"fmt"
	"net"
	"strings"
	"sync"
	"time"

	smtp "github.com/emersion/go-smtp"

	"verifharness/drv"
	"verifharness/evid"
	"verifharness/rec"
	"verifharness/tlcrun"
)

type c18Rcpt struct {
	Name    string `json:"name"`
	Refused bool   `json:"refused"` // refused at RCPT
	Code    int    `json:"code"`    // final verdict if accepted: 250 or a negative marker code
	// scripted peer only: the positive code RCPT is answered with (0: 250; 251 "will forward", 252)
	AcceptCode int `json:"accept_code,omitempty"`
}

type c18Txn struct {
	Rcpts  []c18Rcpt `json:"rcpts"`
	WithCb bool      `json:"withcb"`
	Reset  bool      `json:"reset_before"` // client.Reset() before this transaction
	// scripted peer only: the DATA command itself is answered 451; the client's
	// Data/LMTPData fails and the application goes on with the next MAIL
	DataRefused bool `json:"data_refused,omitempty"`
	// scripted peer only: the first DATA of the transaction is answered 451, the
	// peer keeps the transaction and the application calls Data/LMTPData again
	DataRetry bool `json:"data_retry,omitempty"`
}

type c18Case struct {
	Accepted  []string        `json:"accepted"`
	Verdicts  []int           `json:"verdicts"`
	WithCb    bool            `json:"withcb"`
	Callbacks [][]interface{} `json:"callbacks"`
	CloseErr  int             `json:"closeerr"`
	Txn       int             `json:"txn"`
	Scenario  []c18Txn        `json:"scenario"`
}

// runC18 drives the real LMTP client through the scenario against a real
// LMTP server with a scripted per-recipient backend.
func runC18(sc []c18Txn) ([]*c18Case, string, error) {
	fake := false
	for _, tx := range sc {
		if tx.DataRefused || tx.DataRetry {
			fake = true
		}
		for _, r := range tx.Rcpts {
			if r.AcceptCode != 0 {
				fake = true
			}
		}
	}
	var srv *drv.Server
	var cl *smtp.Client
	var err error
	if fake {
		// a scripted LMTP peer: the real server never refuses DATA once it has recipients
		a, b := net.Pipe()
		defer a.Close()
		defer b.Close()
		go c18FakePeer(b, sc)
		cl = smtp.NewClientLMTP(a)
		if err := cl.Hello("c18.test"); err != nil {
			return nil, "", err
		}
	} else {
		srv = drv.Start(drv.Cfg{LMTP: true, LMTPBackend: true, MaxLine: 2000})
		defer srv.Stop()
		cn, err := srv.Dial()
		if err != nil {
			return nil, "", err
		}
		defer cn.Close()
		cl = smtp.NewClientLMTP(cn.Raw)
	}
	cl.CommandTimeout = 3 * time.Second
	cl.SubmissionTimeout = 1500 * time.Millisecond
	type res struct {
		cases []*c18Case
		msg   string
	}
	done := make(chan res, 1)
	go func() {
		var out []*c18Case
		for ti, tx := range sc {
			if tx.Reset {
				if err := cl.Reset(); err != nil {
					done <- res{out, fmt.Sprintf("txn %d: Reset: %v", ti+1, err)}
					return
				}
			}
			c := &c18Case{WithCb: tx.WithCb, Txn: ti + 1, Scenario: sc, Accepted: []string{}, Verdicts: []int{}, Callbacks: [][]interface{}{}}
			var ops []rec.StatusOp
			var rerrs []error
			for _, r := range tx.Rcpts {
				addr := r.Name + "@x.test"
				if r.Refused {
					rerrs = append(rerrs, &smtp.SMTPError{Code: 550, EnhancedCode: smtp.EnhancedCode{5, 1, 1}, Message: "no such user"})
					continue
				}
				rerrs = append(rerrs, nil)
				c.Accepted = append(c.Accepted, addr)
				c.Verdicts = append(c.Verdicts, r.Code)
				var st error
				if r.Code != 250 {
					st = &smtp.SMTPError{Code: r.Code, EnhancedCode: smtp.EnhancedCode{r.Code / 100, 2, 2}, Message: "verdict for " + addr}
				}
				ops = append(ops, rec.StatusOp{Addr: addr, Err: st})
			}
			if srv != nil {
				srv.BE.Lock()
				srv.BE.RcptErrs = rerrs
				srv.BE.DataPlans = []rec.DataPlan{{Status: ops}}
				srv.BE.Unlock()
			}
			if err := cl.Mail(fmt.Sprintf("s%d@x.test", ti+1), nil); err != nil {
				done <- res{out, fmt.Sprintf("txn %d: Mail: %v", ti+1, err)}
				return
			}
			for _, r := range tx.Rcpts {
				err := cl.Rcpt(r.Name+"@x.test", nil)
				if (err != nil) != r.Refused {
					done <- res{out, fmt.Sprintf("txn %d: Rcpt(%s) returned %v, refused=%v", ti+1, r.Name, err, r.Refused)}
					return
				}
			}
			if len(c.Accepted) == 0 {
				// nothing accepted: DATA would be refused; abandon with Reset
				if err := cl.Reset(); err != nil {
					done <- res{out, fmt.Sprintf("txn %d: Reset after no recipient: %v", ti+1, err)}
					return
				}
				continue
			}
			var w interface {
				Write([]byte) (int, error)
				Close() error
			}
			if tx.WithCb {
				w, err = cl.LMTPData(func(rcpt string, status *smtp.SMTPError) {
					code := 250
					if status != nil {
						code = status.Code
					}
					c.Callbacks = append(c.Callbacks, []interface{}{rcpt, code})
				})
			} else {
				w, err = cl.Data()
			}
			if tx.DataRetry {
				if err == nil {
					done <- res{out, fmt.Sprintf("txn %d: the first DATA was answered 451 and Data returned no error", ti+1)}
					return
				}
				if tx.WithCb {
					w, err = cl.LMTPData(func(rcpt string, status *smtp.SMTPError) {
						code := 250
						if status != nil {
							code = status.Code
						}
						c.Callbacks = append(c.Callbacks, []interface{}{rcpt, code})
					})
				} else {
					w, err = cl.Data()
				}
			}
			if tx.DataRefused {
				if err == nil {
					done <- res{out, fmt.Sprintf("txn %d: the DATA command was answered 451 and Data returned no error", ti+1)}
					return
				}
				continue // abandoned: no Reset, the next MAIL follows
			}
			if err != nil {
				done <- res{out, fmt.Sprintf("txn %d: Data: %v", ti+1, err)}
				return
			}
			w.Write([]byte("Subject: x\r\n\r\nhello\r\n"))
			cerr := w.Close()
			switch e := cerr.(type) {
			case nil:
				c.CloseErr = 0
			case *smtp.SMTPError:
				c.CloseErr = e.Code
			default:
				c.CloseErr = -1
				out = append(out, c)
				done <- res{out, fmt.Sprintf("txn %d: Close did not complete: %v (the client waited for replies that do not come, or lost the connection)", ti+1, cerr)}
				return
			}
			out = append(out, c)
		}
		cl.Quit()
		done <- res{out, ""}
	}()
	select {
	case r := <-done:
		return r.cases, r.msg, nil
	case <-time.After(20 * time.Second):
		return nil, "client did not finish within 20 s", nil
	}
}

// c18FakePeer is a scripted LMTP server following the scenario.
func c18FakePeer(conn net.Conn, sc []c18Txn) {
	br := bufio.NewReader(conn)
	say := func(f string, a ...interface{}) { fmt.Fprintf(conn, f+"\r\n", a...) }
	say("220 fake.test LMTP")
	ti := -1
	ri := 0
	retried := map[int]bool{}
	var accepted []c18Rcpt
	for {
		conn.SetReadDeadline(time.Now().Add(10 * time.Second))
		line, err := br.ReadString('\n')
		if err != nil {
			return
		}
		u := strings.ToUpper(strings.TrimSpace(line))
		switch {
		case strings.HasPrefix(u, "LHLO"):
			say("250-fake.test")
			say("250 ENHANCEDSTATUSCODES")
		case strings.HasPrefix(u, "MAIL"):
			ti++
			// transactions that were skipped without MAIL do not exist: the client sends MAIL for every one
			ri, accepted = 0, nil
			say("250 2.1.0 ok")
		case strings.HasPrefix(u, "RCPT"):
			if ti < 0 || ti >= len(sc) || ri >= len(sc[ti].Rcpts) {
				say("503 5.5.1 unexpected RCPT")
				continue
			}
			r := sc[ti].Rcpts[ri]
			ri++
			if r.Refused {
				say("550 5.1.1 no such user")
			} else {
				accepted = append(accepted, r)
				if r.AcceptCode != 0 {
					say("%d 2.1.5 ok, in a way", r.AcceptCode)
				} else {
					say("250 2.1.5 ok")
				}
			}
		case u == "DATA":
			if ti >= 0 && ti < len(sc) && sc[ti].DataRefused {
				accepted = nil
				say("451 4.3.0 not now")
				continue
			}
			if ti >= 0 && ti < len(sc) && sc[ti].DataRetry && !retried[ti] {
				retried[ti] = true
				say("451 4.3.0 try that again") // the transaction stays as it is
				continue
			}
			say("354 go ahead")
			for {
				l, err := br.ReadString('\n')
				if err != nil {
					return
				}
				if l == ".\r\n" {
					break
				}
			}
			for _, r := range accepted {
				if r.Code == 250 {
					say("250 2.0.0 <%s@x.test> ok", r.Name)
				} else {
					say("%d %d.2.2 <%s@x.test> verdict", r.Code, r.Code/100, r.Name)
				}
			}
			accepted = nil
		case u == "RSET":
			accepted = nil
			say("250 2.0.0 ok")
		case u == "QUIT":
			say("221 2.0.0 bye")
			return
		default:
			say("500 5.5.1 what")
		}
	}
}

func genC18(maxTxn, maxR int) [][]c18Txn {
	// verdict vectors over {250, 450, 550, 421 (a per-recipient verdict like any other in LMTP)}, some recipients refused at RCPT
	var txns []c18Txn
	names := []string{"a", "b", "c"}
	var gen func(cur []c18Rcpt)
	gen = func(cur []c18Rcpt) {
		if len(cur) > 0 {
			for _, cb := range []bool{true, false} {
				txns = append(txns, c18Txn{Rcpts: append([]c18Rcpt{}, cur...), WithCb: cb})
			}
		}
		if len(cur) == maxR {
			return
		}
		n := names[len(cur)]
		for _, r := range []c18Rcpt{{Name: n, Code: 250}, {Name: n, Code: 450}, {Name: n, Code: 550}, {Name: n, Code: 421}, {Name: n, Refused: true}} {
			gen(append(cur, r))
		}
	}
	gen(nil)
	// the same mailbox may be given twice in one transaction: each occurrence has its own reply
	for _, t := range append([]c18Txn{}, txns...) {
		if len(t.Rcpts) >= 2 && t.Rcpts[0].Code != t.Rcpts[len(t.Rcpts)-1].Code {
			d := c18Txn{Rcpts: append([]c18Rcpt{}, t.Rcpts...), WithCb: t.WithCb}
			d.Rcpts[len(d.Rcpts)-1].Name = d.Rcpts[0].Name
			txns = append(txns, d)
		}
	}
	var out [][]c18Txn
	// every single transaction alone, then sequences: i-th with (i*7+3)-th etc.
	for _, t := range txns {
		out = append(out, []c18Txn{t})
	}
	for i := range txns {
		sc := []c18Txn{txns[i]}
		for k := 1; k < maxTxn; k++ {
			t := txns[(i*7+k*13+3)%len(txns)]
			if (i+k)%5 == 0 {
				t.Reset = true
			}
			sc = append(sc, t)
		}
		out = append(out, sc)
		// the same sequence against a scripted peer that accepts recipients with other positive codes too
		if i%3 == 1 {
			fs := make([]c18Txn, len(sc))
			k := 0
			for j := range sc {
				fs[j] = sc[j]
				fs[j].Rcpts = append([]c18Rcpt{}, sc[j].Rcpts...)
				for q := range fs[j].Rcpts {
					if !fs[j].Rcpts[q].Refused {
						fs[j].Rcpts[q].AcceptCode = []int{251, 250, 252}[k%3]
						k++
					}
				}
			}
			out = append(out, fs)
		}
		// the same sequence against a scripted peer that refuses the first DATA of one transaction and keeps it
		if i%3 == 2 {
			fs := append([]c18Txn{}, sc...)
			k := i % len(fs)
			hasAcc := false
			for _, r := range fs[k].Rcpts {
				if !r.Refused {
					hasAcc = true
				}
			}
			if hasAcc {
				fs[k].DataRetry = true
				out = append(out, fs)
			}
		}
		// the same sequence against the scripted peer, one transaction ended by a refused DATA command
		if i%3 == 0 && len(sc) > 1 {
			fs := append([]c18Txn{}, sc...)
			k := i % (len(fs) - 1)
			hasAcc := false
			for _, r := range fs[k].Rcpts {
				if !r.Refused {
					hasAcc = true
				}
			}
			if hasAcc {
				fs[k].DataRefused = true
				for j := range fs {
					fs[j].Reset = false
				}
				out = append(out, fs)
			}
		}
	}
	return out
}

func init() {
	checks["C18"] = func(tier string) {
		run := evid.NewRun("C18", tier)
		mc := modelCheck("LmtpClient", "MC_LmtpClient.cfg", 8)
		maxTxn, maxR := 3, 2
		if tier == "thorough" {
			maxR = 3
		}
		scs := genC18(maxTxn, maxR)
		var mu sync.Mutex
		var wg sync.WaitGroup
		sem := make(chan struct{}, 16)
		var all []*c18Case
		var firstErr error
		for i, sc := range scs {
			wg.Add(1)
			go func(i int, sc []c18Txn) {
				defer wg.Done()
				sem <- struct{}{}
				defer func() { <-sem }()
				cases, msg, err := runC18(sc)
				mu.Lock()
				defer mu.Unlock()
				if err != nil && firstErr == nil {
					firstErr = err
				}
				all = append(all, cases...)
				if msg != "" {
					key := "c18:flow"
					switch {
					case strings.Contains(msg, "Close did not complete"):
						key = fmt.Sprintf("c18:close-hangs:txn%d", len(cases))
					case strings.Contains(msg, "did not finish"):
						key = "c18:client-hangs"
					}
					run.Report(evid.Div{Prop: "C18", Key: key, Msg: fmt.Sprintf("scenario %+v: %s", sc, msg), Replay: map[string]interface{}{"engine": "c18", "scenario": sc}})
				}
			}(i, sc)
		}
		wg.Wait()
		if firstErr != nil {
			evid.Inconclusive("C18: %v", firstErr)
		}
		var nd strings.Builder
		var judged []*c18Case
		for _, c := range all {
			if c.CloseErr == -1 {
				continue
			}
			judged = append(judged, c)
			b, _ := json.Marshal(map[string]interface{}{"accepted": c.Accepted, "verdicts": c.Verdicts, "withcb": c.WithCb, "callbacks": c.Callbacks, "closeerr": c.CloseErr})
			nd.Write(b)
			nd.WriteByte('\n')
		}
		nbad := 0
		if len(judged) > 0 {
			res, err := tlcrun.Run("Trace_LmtpClient", "Trace_LmtpClient.cfg", tlcrun.Opts{Workers: 1, Tags: []string{"BADCASES", "NCASES"}, Files: map[string][]byte{"cases.ndjson": []byte(nd.String())}})
			if res == nil || len(res.Tagged["BADCASES"]) == 0 || len(res.Tagged["NCASES"]) == 0 || res.Tagged["NCASES"][0] != fmt.Sprint(len(judged)) {
				evid.Inconclusive("Trace_LmtpClient gave no verdict: %v", err)
			}
			var bad []int
			json.Unmarshal([]byte(res.Tagged["BADCASES"][0]), &bad)
			nbad = len(bad)
			for _, i := range bad {
				c := judged[i-1]
				run.Report(evid.Div{Prop: "C18", Key: fmt.Sprintf("c18:result:txn%d:cb=%v:n=%d", min(c.Txn, 2), c.WithCb, len(c.Accepted)),
					Msg: fmt.Sprintf("transaction %d of scenario %+v: accepted %v with verdicts %v (callback supplied: %v): callbacks %v, Close error %d - not what LmtpClient.tla requires", c.Txn, c.Scenario, c.Accepted, c.Verdicts, c.WithCb, c.Callbacks, c.CloseErr), Replay: c})
			}
		}
		fmt.Printf("C18: LmtpClient.tla %d states; %d scenarios (%d transactions) run with the real LMTP client against the real LMTP server; %d Close results judged by TLC, %d rejected\n", mc.Distinct, len(scs), len(all), len(judged), nbad)
		samples := []interface{}{}
		if len(judged) > 1 {
			samples = append(samples, judged[len(judged)/2], judged[len(judged)-1])
		}
		csCov := clientSessionEngine(run, tier)
		run.Finish("model_checking", evid.Coverage{
			"clientsession": csCov,
			"states":        mc.Distinct, "transitions": mc.Generated,
			"traces_validated_against_impl": len(judged), "scenarios": len(scs),
			"samples": samples, "checker_cmd": mc.Cmd,
		}, []string{"verdict vectors over {250, 450, 550, 421 (a per-recipient verdict like any other in LMTP)}, recipients refused at RCPT, 1..3 transactions per connection, with and without Reset in between, LMTPData with callback and Data without",
			"the client's SubmissionTimeout is set to 1.5 s so that a Close waiting for replies that never come returns an error instead of blocking for 12 minutes"})
	}
}

func min(a, b int) int {
	if a < b {
		return a
	}
	return b
}
