package main

import (
	"fmt"
	"math/rand"
	"strings"
	"sync"

	"verifharness/datarep"
	"verifharness/drv"
	"verifharness/evid"
	"verifharness/rec"
	"verifharness/sessrep"
	"verifharness/wire"
)

// c02Templates: message streams with bait command lines and terminator
// look-alikes, on top of the exhaustive class streams.
func c02Templates(maxLen int) [][]byte {
	var out [][]byte
	classStreams(maxLen, func(cls []byte) {
		// 'o' -> letters so the stream stays a plausible message
		d := make([]byte, len(cls))
		for i, c := range cls {
			switch c {
			case 'd':
				d[i] = '.'
			case 'c':
				d[i] = '\r'
			case 'l':
				d[i] = '\n'
			default:
				d[i] = "aM:<x"[i%5]
			}
		}
		out = append(out, d)
	})
	bait := "MAIL FROM:<bait@x>\r\n"
	look := []string{"\r\n..\r\n", "\r\n.\r.\r\n", "\r\n...\r\n", "\n.\n", "\n.\r\n", "\r\n.\n", "\r.\r", "\r\n.\r", "\r\n.\rx", ".\r\n", "x.\r\n", "\r\n..\r\n", "\r\r\n.\r\n", "\n\r.\r\n", "\r\n.\r\r\n"}
	for _, l := range look {
		out = append(out, []byte(bait+l+bait))
		out = append(out, []byte("line one\r\n"+l+"RCPT TO:<bait@x>\r\nQUIT\r\n"))
		out = append(out, []byte(l+bait))
		out = append(out, []byte(l))
	}
	return out
}

type c02Combo struct {
	read    string // all some none
	verdict string // acc rej
	limit   string // none below at above
	mode    string // smtp lmtp lmtp-rcpt
	seg     string // whole random bytewise
}

func c02Combos() []c02Combo {
	var cs []c02Combo
	for _, r := range []string{"all", "some", "none"} {
		for _, v := range []string{"acc", "rej"} {
			for _, l := range []string{"none", "below", "at", "above", "mid", "mid"} {
				for _, m := range []string{"smtp", "lmtp", "lmtp-rcpt"} {
					for _, s := range []string{"whole", "random", "bytewise"} {
						cs = append(cs, c02Combo{r, v, l, m, s})
					}
				}
			}
		}
	}
	return cs
}

// runC02 drives one message through a real server and returns the trace for
// TLC plus divergences found by the concretisation-level oracle.
func runC02(t datarep.Table, msg []byte, cb c02Combo, idx int, rng *rand.Rand) (*sessrep.OneWalk, []evid.Div, error) {
	wireMsg := append(append([]byte{}, msg...), "\r\n.\r\n"...)
	exp0 := t.Interp(wireMsg, 0)
	if exp0.State != "EOF" {
		return nil, nil, fmt.Errorf("template does not end: %q", wireMsg)
	}
	wireMsg = wireMsg[:exp0.Consumed] // the message ends at its FIRST end marker
	full := exp0.Out
	limit := 0
	switch cb.limit {
	case "below":
		limit = len(full) - 1
	case "at":
		limit = len(full)
	case "above":
		limit = len(full) + 5
	case "mid":
		// used up somewhere inside the message, preferably exactly at the end
		// of a line: what follows is still message, whatever it looks like
		var ends []int
		for p := 1; p < len(full); p++ {
			if full[p-1] == '\n' {
				ends = append(ends, p)
			}
		}
		if len(ends) > 0 && idx%3 != 0 {
			limit = ends[rng.Intn(len(ends))]
		} else if len(full) > 1 {
			limit = 1 + rng.Intn(len(full)-1)
		}
	}
	if limit <= 0 {
		limit = 0
	}
	exp := t.Interp(wireMsg, limit)
	cfg := sessrep.CfgRec{Lmtp: cb.mode != "smtp", LmtpBackend: cb.mode == "lmtp-rcpt", MaxBytes: limit, Binarymime: true}
	srv := drv.Start(sessrep.DrvCfg(cfg))
	defer srv.Stop()
	cn, err := srv.Dial()
	if err != nil {
		return nil, nil, err
	}
	defer cn.Close()
	cn.Output()
	be := srv.BE
	plan := rec.DataPlan{Propagate: true, Buf: []int{1, 3, 4096}[idx%3]}
	k := 0
	switch cb.read {
	case "some":
		plan.ReadMode = rec.ReadK
		k = len(exp.Out) / 2
		if limit > 0 && k > limit {
			k = limit
		}
		plan.K = k
	case "none":
		plan.ReadMode = rec.ReadNone
	}
	if cb.verdict == "rej" {
		plan.Err = fmt.Errorf("verdict-%d", idx)
	}
	be.Lock()
	be.DataPlans = []rec.DataPlan{plan}
	be.Unlock()
	greet := "EHLO c02.test\r\n"
	if cfg.Lmtp {
		greet = "LHLO c02.test\r\n"
	}
	nr := 1
	rcpts := "RCPT TO:<r1@x.test>\r\n"
	if cfg.Lmtp && idx%2 == 0 {
		nr = 2
		rcpts += "RCPT TO:<r2@x.test>\r\n"
	}
	marker := fmt.Sprintf("marker%d@x.test", idx)
	script := greet + "MAIL FROM:<s@x.test>\r\n" + rcpts + "DATA\r\n" + string(wireMsg) + "MAIL FROM:<" + marker + ">\r\nNOOP\r\n"
	all := []byte(script)
	var segs [][]byte
	switch cb.seg {
	case "whole":
		segs = [][]byte{all}
	case "bytewise":
		// the message octet by octet, the rest whole
		i0 := strings.Index(script, "DATA\r\n") + 6
		segs = append(segs, all[:i0])
		for i := i0; i < i0+len(wireMsg); i++ {
			segs = append(segs, all[i:i+1])
		}
		segs = append(segs, all[i0+len(wireMsg):])
	default:
		for left := all; len(left) > 0; {
			n := 1 + rng.Intn(len(left))
			if n > 23 {
				n = 1 + rng.Intn(23)
			}
			segs = append(segs, left[:n])
			left = left[n:]
		}
	}
	mark := be.NumCalls()
	if err := cn.SendSegs(segs); err != nil {
		return nil, nil, err
	}
	if !cn.WaitIdle() {
		return nil, nil, cn.NotIdleError("C02 conversation")
	}
	out, _ := cn.Output()
	calls := be.Since(mark)
	rs, rest, syn := wire.ParseAll(out)
	ctx := fmt.Sprintf("message %q, backend reads %s/%s, limit %s(%d), %s, %s", wireMsg, cb.read, cb.verdict, cb.limit, limit, cb.mode, cb.seg)
	rp := map[string]interface{}{"engine": "c02", "script": script, "combo": cb, "limit": limit, "replies": codes(rs)}
	key := fmt.Sprintf("c02:%s:%s:%s:%s", cb.read, cb.verdict, cb.limit, cb.mode)
	var divs []evid.Div
	if syn != "" || len(rest) > 0 {
		divs = append(divs, evid.Div{Prop: "C04", Key: key + ":syntax", Msg: ctx + ": malformed replies: " + syn, Replay: rp})
		return nil, divs, nil
	}
	// concretisation-level oracle: octets, bait, marker
	var dataEnd *rec.Call
	mailsAfter := []string{}
	seenEnd := false
	for i := range calls {
		c := calls[i]
		if c.Phase == "end" {
			dataEnd = &calls[i]
			seenEnd = true
		}
		if strings.Contains(c.From, "bait") || strings.Contains(c.To, "bait") {
			divs = append(divs, evid.Div{Prop: "C02", Key: key + ":bait-executed", Msg: ctx + ": a line of the message reached the backend as " + c.Short(), Replay: rp})
		}
		if seenEnd && c.Name == "Mail" {
			mailsAfter = append(mailsAfter, c.From)
		}
	}
	if dataEnd == nil {
		divs = append(divs, evid.Div{Prop: "C02", Key: key + ":no-data", Msg: ctx + ": no Data callback; replies " + fmt.Sprint(codes(rs)), Replay: rp})
		return nil, divs, nil
	}
	if cb.read == "all" {
		want := exp.Out
		if string(dataEnd.Data) != string(want) {
			divs = append(divs, evid.Div{Prop: "C01", Key: key + ":octets", Msg: fmt.Sprintf("%s: backend read %q, specification %q", ctx, dataEnd.Data, want), Replay: rp})
		}
		if !exp.Fail && dataEnd.ReadErr != "EOF" {
			divs = append(divs, evid.Div{Prop: "C02", Key: key + ":no-eof", Msg: fmt.Sprintf("%s: reader ended with %q", ctx, dataEnd.ReadErr), Replay: rp})
		}
	}
	if len(mailsAfter) != 1 || mailsAfter[0] != marker {
		divs = append(divs, evid.Div{Prop: "C02", Key: key + ":resume", Msg: fmt.Sprintf("%s: the command after the end marker should be MAIL FROM:<%s>; Mail callbacks after the message: %v; replies %v", ctx, marker, mailsAfter, codes(rs)), Replay: rp})
	}
	// trace for TLC: the spec decides the reply structure
	w := &sessrep.OneWalk{Cfg: cfg, Seed: int64(idx)}
	w.Events = append(w.Events, sessrep.TraceEvent{Ev: "reset", Cfg: &cfg, Replies: []sessrep.ReplyRec{}, Cbs: []sessrep.CbRec{}})
	size := "small"
	if exp.Fail {
		size = "big"
	}
	readL := cb.read
	if cb.read == "some" && k == 0 {
		readL = "none" // nothing to read: indistinguishable from not reading
	}
	if cb.read == "some" && limit > 0 && exp.Fail && k >= limit {
		readL = "all"
	}
	verb := "EHLO"
	if cfg.Lmtp {
		verb = "LHLO"
	}
	cmds := []sessrep.CmdRec{{C: verb, A: "ok"}, {C: "MAIL", A: "ok"}, {C: "RCPT", A: "ok"}}
	if nr == 2 {
		cmds = append(cmds, sessrep.CmdRec{C: "RCPT", A: "ok"})
	}
	cmds = append(cmds, sessrep.CmdRec{C: "DATA", A: size, P: readL + "-" + cb.verdict}, sessrep.CmdRec{C: "MAIL", A: "ok"}, sessrep.CmdRec{C: "NOOP"})
	// distribute replies and callbacks over the commands: one reply each,
	// DATA gets 354 + finals
	ri, ci := 0, 0
	sessBase := 0
	for _, c := range calls {
		if c.Name == "NewSession" && c.Sess != 0 {
			sessBase = c.Sess - 1
		}
	}
	takeCalls := func(max int, names ...string) []sessrep.CbRec {
		cbs := []sessrep.CbRec{}
		for ci < len(calls) && len(cbs) < max {
			c := calls[ci]
			ok := false
			for _, n := range names {
				if c.Name == n {
					ok = true
				}
			}
			if !ok {
				break
			}
			if c.Sess != 0 {
				c.Sess -= sessBase
			}
			cbs = append(cbs, sessrep.CallName(c))
			ci++
		}
		return cbs
	}
	for i := range cmds {
		c := cmds[i]
		ev := sessrep.TraceEvent{Ev: "step", Cmd: &cmds[i], Replies: []sessrep.ReplyRec{}, Cbs: []sessrep.CbRec{}, NoSt: true, St: &sessrep.ProjRec{}}
		n := 1
		switch c.C {
		case "DATA":
			n = 1 + 1
			if cfg.Lmtp {
				n = 1 + nr
			}
			ev.Cbs = takeCalls(3, "Data", "LMTPData", "Reset")
		case "EHLO", "LHLO":
			ev.Cbs = takeCalls(1, "NewSession")
		case "MAIL":
			ev.Cbs = takeCalls(1, "Mail")
		case "RCPT":
			ev.Cbs = takeCalls(1, "Rcpt")
		}
		for j := 0; j < n && ri < len(rs); j++ {
			ev.Replies = append(ev.Replies, sessrep.ReplyRec{Code: rs[ri].Code, Enh: enhInts(rs[ri].Enh)})
			ri++
		}
		w.Events = append(w.Events, ev)
		w.Hist = append(w.Hist, sessrep.StepRec{Cmd: c.String()})
	}
	if ri != len(rs) || ci != len(calls) {
		divs = append(divs, evid.Div{Prop: "C02", Key: "desync:" + key, Msg: fmt.Sprintf("%s: %d replies and %d callbacks for %d commands: replies %v; extra output means message octets were executed as commands (or commands were swallowed)", ctx, len(rs), len(calls), len(cmds), codes(rs)), Replay: rp})
		return nil, divs, nil
	}
	w.Hist[len(w.Hist)-1].Sent = []string{script}
	return w, divs, nil
}

func init() {
	checks["C02"] = func(tier string) {
		run := evid.NewRun("C02", tier)
		cfgName, maxLen, tl := "MC_DataStream.cfg", 7, 4
		if tier == "thorough" {
			cfgName, maxLen, tl = "MC_DataStream_thorough.cfg", 9, 6
		}
		mc := modelCheck("DataStream", cfgName, 16)
		smc := modelCheck("MC_Session", "MC_Session.cfg", 16)
		t, runs, _ := loadDataTable()
		nx := crossCheck(t, runs)
		// unit level: end-of-data detection and the resume position on every class stream
		ds := sweepData(t, maxLen, []int{0, 1, 2, 3, 4}, 5000, run.Seed, func(data []byte, segs []int, rb, bud int, msg string) {
			run.Report(evid.Div{Prop: dataProp(msg, bud), Key: dataKey(t, data, msg), Msg: fmt.Sprintf("stream %q segments %v read size %d: %s", data, segs, rb, msg),
				Replay: map[string]interface{}{"engine": "datareader", "data": data, "segs": segs, "rb": rb, "bud": bud}})
		})
		// end to end
		templates := c02Templates(tl)
		combos := c02Combos()
		rng := rand.New(rand.NewSource(run.Seed))
		rng.Shuffle(len(combos), func(i, j int) { combos[i], combos[j] = combos[j], combos[i] })
		var mu sync.Mutex
		var walks []sessrep.OneWalk
		var wg sync.WaitGroup
		sem := make(chan struct{}, 16)
		nconv := 0
		var firstErr error
		perTemplate := 2
		if tier == "thorough" {
			perTemplate = 6
		}
		for ti, tpl := range templates {
			for r := 0; r < perTemplate; r++ {
				idx := ti*perTemplate + r
				cb := combos[idx%len(combos)]
				wg.Add(1)
				go func(tpl []byte, cb c02Combo, idx int) {
					defer wg.Done()
					sem <- struct{}{}
					defer func() { <-sem }()
					lrng := rand.New(rand.NewSource(run.Seed*65537 + int64(idx)))
					w, divs, err := runC02(t, tpl, cb, idx, lrng)
					mu.Lock()
					defer mu.Unlock()
					nconv++
					if err != nil && firstErr == nil {
						firstErr = err
					}
					for _, d := range divs {
						run.Report(d)
					}
					if w != nil {
						walks = append(walks, *w)
					}
				}(tpl, cb, idx)
			}
		}
		wg.Wait()
		if firstErr != nil {
			evid.Inconclusive("C02 conversation: %v", firstErr)
		}
		vs, err := sessrep.ValidateWalks(run, walks, 1)
		if err != nil {
			evid.Inconclusive("trace validation: %v", err)
		}
		// every DATA transition of the session model (backend reads all / part / nothing,
		// accepts / refuses / panics before or after reading) with three commands
		// pipelined behind the closing ones
		dst := tourSome(run, dumpEdges("MC_Session", "Dump_Session.cfg"), func(e *sessrep.Edge) bool { return e.Lbl.Cmd.C == "DATA" })
		fmt.Printf("C02: %d/%d DATA transitions of the session model replayed\n", dst.Covered, dst.Edges)
		nconv += dst.Convs
		// the peer falls silent inside the message for longer than ReadTimeout (MC_Idle):
		// what arrives afterwards is never executed
		imc := modelCheck("MC_Idle", "MC_Idle.cfg", 8)
		ist := tourSome(run, dumpEdges("MC_Idle", "Dump_Idle.cfg"), func(e *sessrep.Edge) bool { return e.Lbl.Cmd.C == "DATASTALL" })
		fmt.Printf("C02: MC_Idle %d states; %d/%d stalled-DATA transitions replayed (a real ReadTimeout each)\n", imc.Distinct, ist.Covered, ist.Edges)
		nconv += ist.Convs
		// several messages per connection: commands resume after every one of them
		nh := 240
		if tier == "thorough" {
			nh = 3000
		}
		hc, hm := c01Histories(run, t, nh)
		fmt.Printf("C02: %d messages over %d connections with histories (RSET, refused and chunked messages, STARTTLS in between)\n", hm, hc)
		nconv += hc
		fmt.Printf("C02: DataStream %d states, session %d states; reader sweep %d runs; %d end-to-end conversations over %d templates x %d combos; %d traces validated by TLC (%d accepted)\n",
			mc.Distinct, smc.Distinct, ds.runs, nconv, len(templates), len(combos), vs.Walks, vs.Accepted)
		samples := []interface{}{}
		if len(walks) > 0 {
			samples = append(samples, walks[len(walks)/2].Hist, walks[len(walks)-1].Hist)
		}
		run.Finish("model_checking", evid.Coverage{
			"states": mc.Distinct + smc.Distinct, "transitions": mc.Generated + smc.Generated,
			"traces_validated_against_impl": vs.Walks + int(ds.streams),
			"e2e_conversations":             nconv, "templates": len(templates), "combos": len(combos), "reader_runs": ds.runs,
			"interpreter_crosscheck_runs": nx,
			"samples":                     samples, "checker_cmd": mc.Cmd,
		}, []string{"each template is completed with CRLF.CRLF and cut at its FIRST end marker (computed by the TLC-dumped automaton), so the octets after the message are exactly the marker commands",
			"combos are sampled: every (template, combo) pair is not run, every combo is run on many templates and every template with several combos"})
	}
}
