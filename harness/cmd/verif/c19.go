package main

import (
	"encoding/json"
	"fmt"
	"math/rand"
	"strings"
	"sync"

	"verifharness/drv"
	"verifharness/evid"
	"verifharness/sessrep"
	"verifharness/tlcrun"
	"verifharness/wire"
)

type limCase struct {
	Limit   int    `json:"limit"`
	Lines   []int  `json:"lines"`
	Tail    int    `json:"tail"`
	Results []int  `json:"results"`
	Where   string `json:"where"`
	Segs    string `json:"segs"`
}

func padNoop(n int) string { return "NOOP" + strings.Repeat(" ", n-6) + "\r\n" }

// runLimitCase sends lines of the given lengths (padded NOOPs, so every
// executed line answers 250) plus an unterminated tail in a chosen position
// of a conversation and returns what the server did as results.
func runLimitCase(srv *drv.Server, c *limCase, rng *rand.Rand) (string, error) {
	cn, err := srv.Dial()
	if err != nil {
		return "", err
	}
	defer cn.Close()
	cn.Output()
	pre := ""
	switch c.Where {
	case "first":
	case "later":
		pre = "EHLO x\r\nNOOP\r\n"
	case "afterdata":
		pre = "EHLO x\r\nMAIL FROM:<a@x>\r\nRCPT TO:<b@x>\r\nDATA\r\n" + strings.Repeat("y", 3*c.Limit) + "\r\n.\r\n"
	case "afterbdat":
		pre = "EHLO x\r\nMAIL FROM:<a@x>\r\nRCPT TO:<b@x>\r\n" + fmt.Sprintf("BDAT %d\r\n", 3*c.Limit) + strings.Repeat("z", 3*c.Limit)
	case "afterbdatlast":
		pre = "EHLO x\r\nMAIL FROM:<a@x>\r\nRCPT TO:<b@x>\r\n" + fmt.Sprintf("BDAT %d LAST\r\n", 3*c.Limit) + strings.Repeat("z", 3*c.Limit)
	}
	npre := 0
	if pre != "" {
		// sent together with the lines in the segmentations below, so that the
		// payload and the following command share segments
		rsPre, _, _ := wire.ParseAll(nil)
		_ = rsPre
	}
	body := ""
	for _, n := range c.Lines {
		body += padNoop(n)
	}
	body += strings.Repeat("A", c.Tail)
	all := []byte(pre + body)
	var segs [][]byte
	switch c.Segs {
	case "whole":
		segs = [][]byte{all}
	case "bytewise":
		for i := range all {
			segs = append(segs, all[i:i+1])
		}
	default:
		for left := all; len(left) > 0; {
			k := 1 + rng.Intn(len(left))
			if k > 9 {
				k = 1 + rng.Intn(9)
			}
			segs = append(segs, left[:k])
			left = left[k:]
		}
	}
	if err := cn.SendSegs(segs); err != nil {
		return "", err
	}
	if !cn.WaitIdle() {
		return "", cn.NotIdleError("limit case")
	}
	out, _ := cn.Output()
	rs, rest, syn := wire.ParseAll(out)
	if syn != "" || len(rest) > 0 {
		return "malformed reply stream: " + syn, nil
	}
	switch c.Where {
	case "later":
		npre = 2
	case "afterdata":
		npre = 5
	case "afterbdat", "afterbdatlast":
		npre = 4
	}
	if len(rs) < npre {
		return fmt.Sprintf("only %d replies for the %d preamble commands: %v", len(rs), npre, codes(rs)), nil
	}
	for i, r := range rs[:npre] {
		if r.Code/100 != 2 && r.Code != 354 {
			return fmt.Sprintf("preamble reply %d is %d %s", i, r.Code, r.Text()), nil
		}
	}
	c.Results = []int{}
	for i, r := range rs[npre:] {
		switch {
		case r.Code == 250 && i < len(c.Lines):
			c.Results = append(c.Results, c.Lines[i])
		case r.Code == 500 && r.Enh == "5.4.0":
			c.Results = append(c.Results, 0)
		default:
			return fmt.Sprintf("unexpected reply %d %s %q at line %d", r.Code, r.Enh, r.Text(), i), nil
		}
	}
	return "", nil
}

// classifyGarbage is the abstraction function for hostile lines: the BAD
// variant of SmtpServer.tla a line belongs to ("" = not a BAD line).
func classifyGarbage(line string) string {
	line = strings.TrimRight(line, "\r\n")
	up := strings.ToUpper(line)
	switch {
	case strings.HasPrefix(up, "STARTTLS"):
		return ""
	case len(line) == 0:
		return "empty"
	case len(line) < 4:
		return "short"
	case len(line) == 5:
		return "nospace"
	case len(line) > 5 && line[4] != ' ':
		return "nospace"
	}
	verb := up
	if len(verb) > 4 {
		verb = verb[:4]
	}
	switch verb {
	case "SEND", "SOML", "SAML", "EXPN", "HELP", "TURN", "HELO", "EHLO", "LHLO", "MAIL", "RCPT", "VRFY", "NOOP", "RSET", "BDAT", "DATA", "QUIT", "AUTH":
		return ""
	}
	return "unknown"
}

// hostileWalk sends the lines pipelined in one segment on a fresh connection
// and renders what happened as a trace of BAD steps for TLC.
func hostileWalk(srv *drv.Server, cfg sessrep.CfgRec, lines []string, seed int64) (*sessrep.OneWalk, string, error) {
	cn, err := srv.Dial()
	if err != nil {
		return nil, "", err
	}
	defer cn.Close()
	cn.Output()
	mark := srv.BE.NumCalls()
	var payload []byte
	for _, l := range lines {
		payload = append(payload, l...)
		payload = append(payload, '\r', '\n')
	}
	out, _, err := cn.Step(payload)
	if err != nil {
		return nil, "", err
	}
	rs, rest, syn := wire.ParseAll(out)
	if syn != "" || len(rest) > 0 {
		return nil, "malformed reply stream: " + syn + fmt.Sprintf(" %q", out), nil
	}
	if n := srv.BE.NumCalls() - mark; n != 0 {
		return nil, fmt.Sprintf("garbage reached the backend: %d callbacks", n), nil
	}
	w := &sessrep.OneWalk{Cfg: cfg, Seed: seed}
	w.Events = append(w.Events, sessrep.TraceEvent{Ev: "reset", Cfg: &cfg, Replies: []sessrep.ReplyRec{}, Cbs: []sessrep.CbRec{}})
	ri := 0
	errCount := 0
	for _, l := range lines {
		v := classifyGarbage(l)
		if v == "" {
			return nil, "", nil // not judged
		}
		if ri >= len(rs) {
			break // connection already closed: the rest must not be answered
		}
		ev := sessrep.TraceEvent{Ev: "step", Cmd: &sessrep.CmdRec{C: "BAD", A: v}, Cbs: []sessrep.CbRec{}, Replies: []sessrep.ReplyRec{}}
		take := 1
		if errCount == 3 {
			take = 2 // the closing notice
		}
		for k := 0; k < take && ri < len(rs); k++ {
			ev.Replies = append(ev.Replies, sessrep.ReplyRec{Code: rs[ri].Code, Enh: enhInts(rs[ri].Enh)})
			ri++
		}
		errCount++
		ev.St = &sessrep.ProjRec{ErrCount: errCount}
		w.Events = append(w.Events, ev)
		w.Hist = append(w.Hist, sessrep.StepRec{Cmd: "BAD_" + v, Sent: []string{l}})
		if errCount > 3 {
			break
		}
	}
	if ri != len(rs) {
		return nil, fmt.Sprintf("%d replies for lines %q: more than one per line / replies after the connection was given up: %v", len(rs), lines, codes(rs)), nil
	}
	return w, "", nil
}

func enhInts(s string) []int {
	if s == "" {
		return []int{}
	}
	var a, b, c int
	fmt.Sscanf(s, "%d.%d.%d", &a, &b, &c)
	return []int{a, b, c}
}

func init() {
	checks["C19"] = func(tier string) {
		run := evid.NewRun("C19", tier)
		lmc := modelCheck("Limiter", "MC_Limiter.cfg", 8)
		mc := modelCheck("MC_Err", "MC_Err.cfg", 16)
		gs := dumpEdges("MC_Err", "Dump_Err.cfg")
		gs = append(gs, dumpEdges("MC_Session", "Dump_Session.cfg")...)
		st := tourSome(run, gs, func(e *sessrep.Edge) bool { return e.Lbl.Cmd.C == "BAD" || e.Lbl.Cmd.C == "LONG" })
		ags := dumpEdges("MC_Auth", "Dump_Auth.cfg")
		ast := tourSome(run, ags, func(e *sessrep.Edge) bool { return e.Lbl.Cmd.C == "LONG" })
		rng := rand.New(rand.NewSource(run.Seed))
		// ---- line lengths around the limit, positions, segmentations: judged by TLC (Trace_Limiter)
		var cases []*limCase
		var mu sync.Mutex
		for _, limit := range []int{24, 48} {
			srv := drv.Start(drv.Cfg{MaxLine: limit})
			for _, where := range []string{"first", "later", "afterdata", "afterbdat", "afterbdatlast"} {
				for _, segs := range []string{"whole", "bytewise", "random"} {
					for d := -2; d <= 3; d++ {
						for _, shape := range []string{"alone", "second", "tail"} {
							c := &limCase{Limit: limit, Where: where, Segs: segs}
							switch shape {
							case "alone":
								c.Lines = []int{limit + d}
							case "second":
								c.Lines = []int{limit - 1, limit + d, 8}
							case "tail":
								c.Lines = []int{8}
								c.Tail = limit + d
							}
							msg, err := runLimitCase(srv, c, rng)
							if err != nil {
								evid.Inconclusive("limit case: %v", err)
							}
							if msg != "" {
								run.Report(evid.Div{Prop: "C19", Key: fmt.Sprintf("limit-case:%s:%s:%d:%s", where, shape, d, segs), Msg: fmt.Sprintf("limit %d, lines %v tail %d (%s, %s): %s", limit, c.Lines, c.Tail, where, segs, msg), Replay: c})
								continue
							}
							mu.Lock()
							cases = append(cases, c)
							mu.Unlock()
						}
					}
				}
			}
			if strings.Contains(srv.ErrLog.String(), "panic serving") {
				run.Report(evid.Div{Prop: "C19", Key: "panic-logged:limit", Msg: "recovered panic logged: " + srv.ErrLog.String()})
			}
			srv.Stop()
		}
		var nd strings.Builder
		for _, c := range cases {
			b, _ := json.Marshal(c)
			nd.Write(b)
			nd.WriteByte('\n')
		}
		res, err := tlcrun.Run("Trace_Limiter", "Trace_Limiter.cfg", tlcrun.Opts{Workers: 1, Tags: []string{"BADCASES", "NCASES"}, Files: map[string][]byte{"cases.ndjson": []byte(nd.String())}})
		if err != nil && (res == nil || len(res.Tagged["BADCASES"]) == 0) {
			evid.Inconclusive("Trace_Limiter: %v", err)
		}
		if len(res.Tagged["NCASES"]) == 0 || res.Tagged["NCASES"][0] != fmt.Sprint(len(cases)) {
			evid.Inconclusive("Trace_Limiter saw %v cases, harness recorded %d", res.Tagged["NCASES"], len(cases))
		}
		var bad []int
		if len(res.Tagged["BADCASES"]) == 0 {
			evid.Inconclusive("Trace_Limiter printed no verdict:\n%s", res.Output)
		}
		json.Unmarshal([]byte(res.Tagged["BADCASES"][0]), &bad)
		for _, i := range bad {
			c := cases[i-1]
			run.Report(evid.Div{Prop: "C19", Key: fmt.Sprintf("limit-results:%s:%v:%d", c.Where, relLens(c), c.Tail-c.Limit), Msg: fmt.Sprintf("limit %d, lines %v tail %d (%s, %s): server results %v are not what Limiter.tla allows", c.Limit, c.Lines, c.Tail, c.Where, c.Segs, c.Results), Replay: c})
		}
		// ---- endless line: bounded unparsed input
		{
			srv := drv.Start(drv.Cfg{MaxLine: 100})
			cn, _ := srv.Dial()
			cn.Output()
			seg := []byte(strings.Repeat("A", 4096))
			sent := 0
			for i := 0; i < 256; i++ {
				if cn.Send(seg) != nil {
					break
				}
				sent += len(seg)
				if cn.SrvEnd.Closed() {
					break
				}
			}
			cn.WaitIdle()
			out, _ := cn.Output()
			rs, _, _ := wire.ParseAll(out)
			consumed := cn.SrvEnd.Consumed()
			if len(rs) != 1 || rs[0].Code != 500 || !cn.SrvEnd.Closed() {
				run.Report(evid.Div{Prop: "C19", Key: "endless-line:not-closed", Msg: fmt.Sprintf("endless line: replies %v closed=%v after %d octets", codes(rs), cn.SrvEnd.Closed(), sent)})
			}
			if consumed > 100+4096+4096 {
				run.Report(evid.Div{Prop: "C19", Key: "endless-line:unbounded", Msg: fmt.Sprintf("endless line: the server consumed %d octets before giving up (limit 100, buffer 4096)", consumed)})
			}
			cn.Close()
			srv.Stop()
		}
		// ---- hostile short strings and random binary as command lines: traces judged by TLC
		alphabet := []byte{0, '\r', ' ', 'A', ':', 0xff}
		maxL := 4
		nRandom := 300
		if tier == "thorough" {
			maxL = 5
			nRandom = 5000
		}
		var strs []string
		var gen func(cur []byte)
		gen = func(cur []byte) {
			strs = append(strs, string(cur))
			if len(cur) == maxL {
				return
			}
			for _, b := range alphabet {
				gen(append(append([]byte{}, cur...), b))
			}
		}
		gen(nil)
		cfg := sessrep.CfgRec{Binarymime: true}
		srv := drv.Start(sessrep.DrvCfg(cfg))
		var walks []sessrep.OneWalk
		nh := 0
		addWalk := func(lines []string, seed int64) {
			w, msg, err := hostileWalk(srv, cfg, lines, seed)
			if err != nil {
				evid.Inconclusive("hostile input: %v", err)
			}
			nh++
			if msg != "" {
				prop := "C19"
				if strings.HasPrefix(msg, "malformed reply") {
					prop = "C04" // reply syntax
				}
				run.Report(evid.Div{Prop: prop, Key: "hostile:" + fmt.Sprintf("%q", lines[0]), Msg: fmt.Sprintf("lines %q: %s", lines, msg), Replay: map[string]interface{}{"engine": "hostile", "lines": lines}})
				return
			}
			if w != nil {
				walks = append(walks, *w)
			}
		}
		for i := 0; i+3 < len(strs); i += 4 {
			addWalk(strs[i:i+4], int64(i))
		}
		for i := 0; i < nRandom; i++ {
			var lines []string
			for k := 0; k < 1+rng.Intn(6); k++ {
				n := rng.Intn(30)
				b := make([]byte, n)
				for j := range b {
					b[j] = byte(rng.Intn(256))
					if b[j] == '\n' {
						b[j] = 'n'
					}
				}
				lines = append(lines, string(b))
			}
			addWalk(lines, int64(1000000+i))
		}
		if strings.Contains(srv.ErrLog.String(), "panic serving") {
			run.Report(evid.Div{Prop: "C19", Key: "panic-logged:hostile", Msg: "recovered panic logged: " + srv.ErrLog.String()})
		}
		srv.Stop()
		vs, err := sessrep.ValidateWalks(run, walks, 1)
		if err != nil {
			evid.Inconclusive("trace validation: %v", err)
		}
		fmt.Printf("C19: Limiter %d states, session %d states; %d+%d BAD/LONG edges replayed; %d limit cases judged by TLC (%d rejected); %d hostile conversations (%d traces validated, %d accepted)\n",
			lmc.Distinct, mc.Distinct, st.Covered, ast.Covered, len(cases), len(bad), nh, vs.Walks, vs.Accepted)
		samples := []interface{}{}
		if len(cases) > 0 {
			samples = append(samples, cases[len(cases)/2], cases[len(cases)-1])
		}
		run.Finish("model_checking", evid.Coverage{
			"states": lmc.Distinct + mc.Distinct, "transitions": lmc.Generated + mc.Generated,
			"traces_validated_against_impl": st.Convs + ast.Convs + len(cases) + vs.Walks,
			"bad_and_long_edges_replayed":   st.Covered + ast.Covered, "limit_cases_judged_by_tlc": len(cases),
			"hostile_conversations": nh, "hostile_traces_validated": vs.Walks,
			"samples": samples, "checker_cmd": lmc.Cmd,
		}, []string{"Limiter.tla is checked with a scaled-down buffer (B=2, L=3): the declarative result does not depend on B, which is what makes it an oracle for the real 4096-octet buffer",
			"a line of exactly limit+1 octets may be accepted or refused (tolerance granted by the property)",
			"hostile lines are mapped to BAD variants by a classifier that mirrors parseCmd (trusted abstraction function); lines that happen to be valid verbs are not judged here"})
	}
}

func relLens(c *limCase) []int {
	var r []int
	for _, l := range c.Lines {
		r = append(r, l-c.Limit)
	}
	return r
}
