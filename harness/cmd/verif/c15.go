package main

import (
	"bufio"
	"bytes"
	"encoding/json"
	"fmt"
	"sort"
	"strings"
	"sync"
	"sync/atomic"
	"time"

	smtp "github.com/emersion/go-smtp"

	"verifharness/evid"
	"verifharness/pipe"
	"verifharness/tlcrun"
)

// fakeServer greets, answers every EHLO with the current extension list and
// everything else with 250, and records every octet the client writes.
type fakeServer struct {
	mu       sync.Mutex
	exts     []string
	raw      bytes.Buffer // octets received after the last Mark()
	end      *pipe.End
	heloOnly bool // EHLO is refused, HELO accepted
}

var heloCases int64

func newFake(exts []string) (*fakeServer, *pipe.End) {
	c, s := pipe.New()
	f := &fakeServer{exts: exts, end: s}
	go f.serve()
	return f, c
}

func (f *fakeServer) serve() {
	w := f.end
	w.Write([]byte("220 fake.test ESMTP\r\n"))
	r := bufio.NewReader(f.end)
	for {
		line, err := r.ReadBytes('\n')
		f.mu.Lock()
		f.raw.Write(line)
		exts := append([]string{}, f.exts...)
		f.mu.Unlock()
		if err != nil {
			return
		}
		up := strings.ToUpper(string(line))
		f.mu.Lock()
		heloOnly := f.heloOnly
		f.mu.Unlock()
		switch {
		case strings.HasPrefix(up, "EHLO") && heloOnly:
			w.Write([]byte("502 5.5.1 EHLO not implemented\r\n"))
		case strings.HasPrefix(up, "EHLO"):
			var sb strings.Builder
			sb.WriteString("250-fake.test\r\n")
			for _, e := range exts {
				sb.WriteString("250-" + e + "\r\n")
			}
			sb.WriteString("250 OK\r\n")
			w.Write([]byte(sb.String()))
		case strings.HasPrefix(up, "QUIT"):
			w.Write([]byte("221 2.0.0 bye\r\n"))
		case strings.HasPrefix(up, "DATA"):
			w.Write([]byte("354 go\r\n"))
		default:
			w.Write([]byte("250 2.0.0 ok\r\n"))
		}
	}
}

func (f *fakeServer) Mark() {
	f.mu.Lock()
	f.raw.Reset()
	f.mu.Unlock()
}

func (f *fakeServer) Taken() []byte {
	f.mu.Lock()
	defer f.mu.Unlock()
	return append([]byte{}, f.raw.Bytes()...)
}

type cmdCase struct {
	Kind string                 `json:"kind"`
	Ext  []string               `json:"ext"`
	Opts map[string]interface{} `json:"opts"`
	Arg  string                 `json:"arg"`
	Res  struct {
		Err    bool     `json:"err"`
		Params []string `json:"params"`
	} `json:"res"`
}

func argOf(class string) string {
	switch class {
	case "hasCR":
		return "a\rb@x.test"
	case "hasLF":
		return "a@x.test>\nRCPT TO:<evil@x.test"
	case "hasNUL":
		return "a\x00b@x.test"
	case "hasSP":
		return "a b@x.test"
	case "hasAngle":
		return "a>b<@x.test"
	}
	return "a@x.test"
}

// checkWritten: at most one line, no CR/LF inside it. Returns the line
// (without CRLF) and a problem description.
func checkWritten(raw []byte) (string, string) {
	if len(raw) == 0 {
		return "", ""
	}
	if !bytes.HasSuffix(raw, []byte("\r\n")) {
		return "", fmt.Sprintf("written octets do not end with CRLF: %q", raw)
	}
	line := raw[:len(raw)-2]
	if bytes.ContainsAny(line, "\r\n") {
		return "", fmt.Sprintf("more than one line (or a bare CR/LF) written by a single call: %q", raw)
	}
	return string(line), ""
}

func runCmdCase(c *cmdCase, regreet bool) string {
	exts := append([]string{}, c.Ext...)
	first := exts
	if regreet {
		// the first EHLO advertises the complement; only the latest counts
		all := []string{"8BITMIME", "SIZE", "REQUIRETLS", "SMTPUTF8", "DSN", "AUTH", "RRVS"}
		first = nil
		for _, a := range all {
			in := false
			for _, e := range exts {
				if e == a {
					in = true
				}
			}
			if !in {
				first = append(first, a)
			}
		}
	}
	adv := func(es []string) []string {
		var out []string
		for _, e := range es {
			if e == "AUTH" {
				e = "AUTH PLAIN"
			}
			out = append(out, e)
		}
		return out
	}
	fs, cend := newFake(adv(first))
	defer cend.Close()
	if len(exts) == 0 && !regreet {
		// "no extension" comes in two ways: an EHLO reply that lists none, and a
		// server that knows HELO only
		if atomic.AddInt64(&heloCases, 1)%2 == 0 {
			fs.mu.Lock()
			fs.heloOnly = true
			fs.mu.Unlock()
		}
	}
	cl := smtp.NewClient(cend)
	cl.CommandTimeout = 3 * time.Second
	if err := cl.Hello("client.test"); err != nil {
		return "Hello: " + err.Error()
	}
	if regreet {
		if err := cl.Reset(); err != nil {
			return "Reset: " + err.Error()
		}
		fs.mu.Lock()
		fs.exts = adv(exts)
		fs.mu.Unlock()
		if err := cl.Noop(); err != nil { // re-sends EHLO first
			return "Noop: " + err.Error()
		}
	}
	arg := argOf(c.Arg)
	var err error
	prefix := ""
	if c.Kind == "mail" {
		o := &smtp.MailOptions{}
		if c.Opts["size"].(bool) {
			o.Size = 1234
		}
		o.RequireTLS = c.Opts["requireTLS"].(bool)
		o.UTF8 = c.Opts["utf8"].(bool)
		switch c.Opts["ret"] {
		case "ok":
			o.Return = smtp.DSNReturnFull
		case "bad":
			o.Return = "WRONG"
		}
		switch c.Opts["envid"] {
		case "ok":
			o.EnvelopeID = "env+id=1 x"
		case "nonprintable":
			o.EnvelopeID = "env\x01id"
		}
		if c.Opts["auth"].(bool) {
			a := "user@x.test"
			o.Auth = &a
		}
		fs.Mark()
		err = cl.Mail(arg, o)
		prefix = "MAIL FROM:<" + arg + ">"
	} else {
		if e2 := cl.Mail("s@x.test", nil); e2 != nil {
			return "Mail: " + e2.Error()
		}
		o := &smtp.RcptOptions{}
		switch c.Opts["notify"] {
		case "ok":
			o.Notify = []smtp.DSNNotify{smtp.DSNNotifySuccess, smtp.DSNNotifyFailure}
		case "bad":
			o.Notify = []smtp.DSNNotify{smtp.DSNNotifyNever, smtp.DSNNotifySuccess}
		}
		switch c.Opts["orcpt"] {
		case "rfc822":
			o.OriginalRecipientType, o.OriginalRecipient = smtp.DSNAddressTypeRFC822, "o+x@x.test"
		case "rfc822-nonascii":
			o.OriginalRecipientType, o.OriginalRecipient = smtp.DSNAddressTypeRFC822, "ö@x.test"
		case "utf8":
			o.OriginalRecipientType, o.OriginalRecipient = smtp.DSNAddressTypeUTF8, "ö x@x.test"
		case "badtype":
			o.OriginalRecipientType, o.OriginalRecipient = "X400", "o@x.test"
		}
		if c.Opts["rrvs"].(bool) {
			o.RequireRecipientValidSince = time.Date(2014, 4, 3, 23, 1, 0, 0, time.UTC)
		}
		fs.Mark()
		err = cl.Rcpt(arg, o)
		prefix = "RCPT TO:<" + arg + ">"
	}
	raw := fs.Taken()
	line, prob := checkWritten(raw)
	if prob != "" {
		return prob
	}
	if c.Res.Err {
		if err == nil {
			return fmt.Sprintf("specification: local error; the call returned nil and wrote %q", raw)
		}
		if len(raw) != 0 {
			return fmt.Sprintf("a local error (%v) but %q was written", err, raw)
		}
		return ""
	}
	if err != nil {
		return fmt.Sprintf("specification: one line with %v; the call failed with %v (wrote %q)", c.Res.Params, err, raw)
	}
	if !strings.HasPrefix(line, prefix) {
		return fmt.Sprintf("line %q does not start with %q", line, prefix)
	}
	var keys []string
	for _, f := range strings.Fields(line[len(prefix):]) {
		k := f
		if i := strings.IndexByte(f, '='); i >= 0 {
			k = f[:i]
		}
		keys = append(keys, k)
	}
	want := append([]string{}, c.Res.Params...)
	sort.Strings(keys)
	sort.Strings(want)
	if strings.Join(keys, ",") != strings.Join(want, ",") {
		return fmt.Sprintf("parameters written %v, specification %v (extensions offered %v, line %q)", keys, want, c.Ext, line)
	}
	return ""
}

// hostile strings in every string-typed argument
func runHostile(s string) []string {
	var probs []string
	check := func(what string, f func(cl *smtp.Client, fs *fakeServer) error) {
		fs, cend := newFake([]string{"8BITMIME", "SIZE", "SMTPUTF8", "DSN", "AUTH PLAIN", "RRVS", "REQUIRETLS"})
		defer cend.Close()
		cl := smtp.NewClient(cend)
		cl.CommandTimeout = 3 * time.Second
		if what != "Hello" {
			if err := cl.Hello("client.test"); err != nil {
				probs = append(probs, what+": Hello: "+err.Error())
				return
			}
			if what != "Mail.from" && what != "Verify" {
				cl.Mail("s@x.test", nil)
			}
		} else {
			// consume the greeting exchange octets separately
		}
		fs.Mark()
		err := f(cl, fs)
		raw := fs.Taken()
		if what == "Hello" {
			// Hello writes EHLO: exactly one line
		}
		if _, p := checkWritten(raw); p != "" {
			probs = append(probs, fmt.Sprintf("%s(%q): %s", what, s, p))
		}
		// a rejected value must not come back later: the next call writes its
		// own single line (plus the implicit EHLO if the greeting is still due)
		fs.Mark()
		cl.Noop()
		after := fs.Taken()
		nl := bytes.Count(after, []byte("\n"))
		maxLines := 1
		if what == "Hello" {
			maxLines = 2
		}
		if nl > maxLines || bytes.Contains(bytes.ReplaceAll(after, []byte("\r\n"), nil), []byte("\n")) || bytes.Contains(bytes.ReplaceAll(after, []byte("\r\n"), nil), []byte("\r")) {
			probs = append(probs, fmt.Sprintf("%s(%q): the call after it wrote %q", what, s, after))
		}
		if err != nil && len(raw) != 0 {
			if _, isSMTP := err.(*smtp.SMTPError); !isSMTP && !strings.Contains(err.Error(), "timeout") && !strings.Contains(err.Error(), "EOF") {
				probs = append(probs, fmt.Sprintf("%s(%q): local error %v but %q was written", what, s, err, raw))
			}
		}
	}
	check("Hello", func(cl *smtp.Client, fs *fakeServer) error { return cl.Hello("h" + s) })
	check("Verify", func(cl *smtp.Client, fs *fakeServer) error { return cl.Verify("v" + s) })
	check("Mail.from", func(cl *smtp.Client, fs *fakeServer) error { return cl.Mail("f"+s+"@x.test", nil) })
	check("Rcpt.to", func(cl *smtp.Client, fs *fakeServer) error { return cl.Rcpt("t"+s+"@x.test", nil) })
	check("Mail.EnvelopeID", func(cl *smtp.Client, fs *fakeServer) error {
		return cl.Mail("f@x.test", &smtp.MailOptions{EnvelopeID: "e" + s})
	})
	check("Mail.Auth", func(cl *smtp.Client, fs *fakeServer) error {
		a := "a" + s + "@x.test"
		return cl.Mail("f@x.test", &smtp.MailOptions{Auth: &a})
	})
	check("Rcpt.ORCPT.rfc822", func(cl *smtp.Client, fs *fakeServer) error {
		return cl.Rcpt("t@x.test", &smtp.RcptOptions{OriginalRecipientType: smtp.DSNAddressTypeRFC822, OriginalRecipient: "o" + s})
	})
	check("Rcpt.ORCPT.utf8", func(cl *smtp.Client, fs *fakeServer) error {
		return cl.Rcpt("t@x.test", &smtp.RcptOptions{OriginalRecipientType: smtp.DSNAddressTypeUTF8, OriginalRecipient: "o" + s})
	})
	// string-typed options with a fixed vocabulary: a valid word with the
	// hostile string on either side
	for _, v := range []string{"FULL" + s, s + "HDRS"} {
		v := v
		check("Mail.Return", func(cl *smtp.Client, fs *fakeServer) error {
			return cl.Mail("f@x.test", &smtp.MailOptions{Return: smtp.DSNReturn(v)})
		})
	}
	for _, v := range []string{"8BITMIME" + s, s + "7BIT"} {
		v := v
		check("Mail.Body", func(cl *smtp.Client, fs *fakeServer) error {
			return cl.Mail("f@x.test", &smtp.MailOptions{Body: smtp.BodyType(v)})
		})
	}
	for _, v := range []string{"SUCCESS" + s, s + "NEVER"} {
		v := v
		check("Rcpt.Notify", func(cl *smtp.Client, fs *fakeServer) error {
			return cl.Rcpt("t@x.test", &smtp.RcptOptions{Notify: []smtp.DSNNotify{smtp.DSNNotify(v)}})
		})
	}
	for _, v := range []string{"rfc822" + s, s + "utf-8"} {
		v := v
		check("Rcpt.ORCPT.type", func(cl *smtp.Client, fs *fakeServer) error {
			return cl.Rcpt("t@x.test", &smtp.RcptOptions{OriginalRecipientType: smtp.DSNAddressType(v), OriginalRecipient: "o@x.test"})
		})
	}
	return probs
}

func init() {
	checks["C15"] = func(tier string) {
		run := evid.NewRun("C15", tier)
		mc := modelCheck("ClientCmd", "MC_ClientCmd.cfg", 16)
		res, err := tlcrun.Run("ClientCmd", "Dump_ClientCmd.cfg", tlcrun.Opts{Workers: 1, Tags: []string{"CMD"}})
		if err != nil || !res.OK {
			evid.Inconclusive("TLC dump of ClientCmd: %v", err)
		}
		var cases []*cmdCase
		for _, p := range res.Tagged["CMD"] {
			c := &cmdCase{}
			if err := json.Unmarshal([]byte(p), c); err != nil {
				evid.Inconclusive("CMD: %v", err)
			}
			cases = append(cases, c)
		}
		if int64(len(cases)) != mc.Distinct {
			evid.Inconclusive("TLC printed %d cases for %d states", len(cases), mc.Distinct)
		}
		stride := 1
		if tier != "thorough" {
			stride = 5 // quick: every fifth case plus all rcpt cases
		}
		var mu sync.Mutex
		var wg sync.WaitGroup
		sem := make(chan struct{}, 16)
		nrun := 0
		for i, c := range cases {
			if c.Kind == "mail" && (i+int(run.Seed))%stride != 0 {
				continue
			}
			wg.Add(1)
			go func(i int, c *cmdCase) {
				defer wg.Done()
				sem <- struct{}{}
				defer func() { <-sem }()
				msg := runCmdCase(c, i%3 == 0)
				mu.Lock()
				defer mu.Unlock()
				nrun++
				if msg != "" {
					kind := msg
					if j := strings.IndexAny(msg, ":;("); j > 0 {
						kind = msg[:j]
					}
					if len(kind) > 50 {
						kind = kind[:50]
					}
					run.Report(evid.Div{Prop: "C15", Key: fmt.Sprintf("c15:%s:%s:arg=%s", c.Kind, kind, c.Arg),
						Msg: fmt.Sprintf("%s with extensions %v, options %v, argument class %s: %s", c.Kind, c.Ext, c.Opts, c.Arg, msg), Replay: c})
				}
			}(i, c)
		}
		wg.Wait()
		// hostile strings
		alphabet := []byte{'\r', '\n', 0, ' ', '<', '>', 'a'}
		maxL := 3
		if tier == "thorough" {
			maxL = 4
		}
		var strs []string
		var gen func(cur []byte)
		gen = func(cur []byte) {
			if len(cur) > 0 {
				strs = append(strs, string(cur))
			}
			if len(cur) == maxL {
				return
			}
			for _, b := range alphabet {
				gen(append(append([]byte{}, cur...), b))
			}
		}
		gen(nil)
		nh := 0
		for _, s := range strs {
			wg.Add(1)
			go func(s string) {
				defer wg.Done()
				sem <- struct{}{}
				defer func() { <-sem }()
				probs := runHostile(s)
				mu.Lock()
				defer mu.Unlock()
				nh += 16
				for _, p := range probs {
					what := p
					if j := strings.IndexByte(p, '('); j > 0 {
						what = p[:j]
					}
					run.Report(evid.Div{Prop: "C15", Key: "c15:hostile:" + what, Msg: p, Replay: map[string]interface{}{"engine": "c15-hostile", "string": []byte(s)}})
				}
			}(s)
		}
		wg.Wait()
		fmt.Printf("C15: ClientCmd.tla %d states (all extension subsets x option subsets x argument classes); %d cases run on the real client; %d hostile-argument calls\n", mc.Distinct, nrun, nh)
		csCov := clientSessionEngine(run, tier)
		run.Finish("model_checking", evid.Coverage{
			"clientsession": csCov,
			"states":        mc.Distinct, "transitions": mc.Generated, "traces_validated_against_impl": nrun + nh,
			"cases_in_model": len(cases), "cases_run": nrun, "hostile_calls": nh, "exhaustive": stride == 1,
			"samples":     []interface{}{cases[1], cases[len(cases)/2]},
			"checker_cmd": mc.Cmd,
		}, []string{"a scripted fake server advertises the extension subset and records every octet the client writes; one third of the cases run after a re-greeting whose first EHLO advertised the complement set (only the most recent reply counts)",
			"quick runs every fifth MAIL case (rotating with the seed) and all RCPT cases; thorough runs all 56736"})
	}
}
