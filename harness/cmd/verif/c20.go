package main

import (
	"context"
	"fmt"
	"math/rand"
	"os"
	"os/exec"
	"path/filepath"
	"regexp"
	"sort"
	"strconv"
	"strings"
	"sync"
	"time"

	"verifharness/drv"
	"verifharness/evid"
	"verifharness/lifecyc"
	"verifharness/rec"
	"verifharness/tlcrun"
)

// validateLifecycle lets TLC consume the concatenated scenarios; a rejected
// scenario is reported, removed, and the rest validated again.
func validateLifecycle(run *evid.Run, scs []*lifecyc.Scenario) (accepted, rejected int) {
	remaining := scs
	for round := 0; round < 30 && len(remaining) > 0; round++ {
		var starts []int
		n := 0
		for _, sc := range remaining {
			starts = append(starts, n+1)
			n += len(sc.Events)
		}
		res, err := tlcrun.Run("Trace_Lifecycle", "Trace_Lifecycle.cfg", tlcrun.Opts{Workers: 1, Tags: []string{"HWM"}, Files: map[string][]byte{"trace.ndjson": lifecyc.Encode(remaining)}})
		if err != nil {
			evid.Inconclusive("Trace_Lifecycle: %v", err)
		}
		hwm := 0
		if h := res.Tagged["HWM"]; len(h) > 0 {
			hwm, _ = strconv.Atoi(h[len(h)-1])
		}
		inv := res.Violation != "" && !strings.Contains(res.Violation, "ostcondition")
		if hwm == n+1 && !inv && res.OK {
			return accepted + len(remaining), rejected
		}
		if hwm == 0 {
			evid.Inconclusive("Trace_Lifecycle did not run: %s\n%s", res.Violation, tailOut(res))
		}
		bad := hwm
		if inv && hwm > 1 {
			bad = hwm - 1
		}
		wi := 0
		for i := range remaining {
			if starts[i] <= bad {
				wi = i
			}
		}
		sc := remaining[wi]
		idx := bad - starts[wi]
		if idx >= len(sc.Events) {
			idx = len(sc.Events) - 1
		}
		what := "event not allowed by Lifecycle.tla"
		if inv {
			what = "invariant " + res.Violation
		}
		run.Report(evid.Div{Prop: "C20", Key: fmt.Sprintf("lifecycle:%s:%v", what, sc.Events[idx]["ev"]),
			Msg:    fmt.Sprintf("life-cycle scenario %v: %s at event %d %v (events %v)", sc.Script, what, idx, sc.Events[idx], sc.Events),
			Replay: map[string]interface{}{"engine": "lifecycle", "script": sc.Script, "events": sc.Events}})
		accepted += wi
		rejected++
		remaining = remaining[wi+1:]
	}
	return
}

var raceFn = regexp.MustCompile(`github\.com/emersion/go-smtp\.([A-Za-z0-9_().*]+)`)

// parseRaces extracts, from race detector output, the unordered pairs of
// go-smtp functions at the top of the two stacks of each report.
func parseRaces(out string) map[string]string {
	pairs := map[string]string{}
	for _, rep := range strings.Split(out, "==================") {
		if !strings.Contains(rep, "WARNING: DATA RACE") {
			continue
		}
		var tops []string
		for _, blk := range strings.Split(rep, "\n\n") {
			if !(strings.Contains(blk, " by goroutine ") || strings.Contains(blk, " by main goroutine")) || strings.HasPrefix(strings.TrimSpace(blk), "Goroutine ") {
				continue
			}
			if m := raceFn.FindStringSubmatch(blk); m != nil {
				tops = append(tops, m[1])
			} else {
				tops = append(tops, "?")
			}
		}
		if len(tops) >= 2 {
			t := tops[:2]
			sort.Strings(t)
			pairs[t[0]+" <-> "+t[1]] = rep
		}
	}
	return pairs
}

func init() {
	checks["C20"] = func(tier string) {
		run := evid.NewRun("C20", tier)
		mc := modelCheck("Lifecycle", "MC_Lifecycle.cfg", 8)
		// ---- functional pass: recorded life-cycle scenarios validated by TLC
		nsc := 150
		if tier == "thorough" {
			nsc = 1500
		}
		var gateMu sync.Mutex
		var scs []*lifecyc.Scenario
		var mu sync.Mutex
		take := func(sc *lifecyc.Scenario) {
			mu.Lock()
			defer mu.Unlock()
			if sc.Panic != "" {
				run.Report(evid.Div{Prop: "C20", Key: "lifecycle:panic:" + firstWords(sc.Panic, 5), Msg: fmt.Sprintf("scenario %v: %s", sc.Script, sc.Panic), Replay: map[string]interface{}{"engine": "lifecycle", "script": sc.Script, "events": sc.Events}})
				return
			}
			if sc.Note != "" {
				run.Report(evid.Div{Prop: "C20", Key: "lifecycle:stuck:" + firstWords(sc.Note, 4), Msg: fmt.Sprintf("scenario %v: %s", sc.Script, sc.Note), Replay: map[string]interface{}{"engine": "lifecycle", "script": sc.Script, "events": sc.Events}})
				return
			}
			scs = append(scs, sc)
		}
		// scenarios without the two-closers gate run in parallel; the gated
		// ones (the gate is process-wide) one at a time afterwards
		var wg sync.WaitGroup
		sem := make(chan struct{}, 12)
		for i := 0; i < nsc*3/4; i++ {
			wg.Add(1)
			go func(i int) {
				defer wg.Done()
				sem <- struct{}{}
				defer func() { <-sem }()
				rng := rand.New(rand.NewSource(run.Seed*9176 + int64(i)))
				take(lifecyc.Run(rng, 3+rng.Intn(6), &gateMu, false))
			}(i)
		}
		wg.Wait()
		for i := nsc * 3 / 4; i < nsc; i++ {
			rng := rand.New(rand.NewSource(run.Seed*9176 + int64(i)))
			take(lifecyc.Run(rng, 2+rng.Intn(4), &gateMu, true))
		}
		acc, rej := validateLifecycle(run, scs)
		// ---- no deadlock in the LMTP delivery: Lmtp.tla (termination, no deadlock)
		// and every backend program of its bounded instance on the real server;
		// a final response that never completes is a proven hang
		lmc := modelCheck("Lmtp", "MC_Lmtp.cfg", 16)
		lcases := genLmtp(3)
		nhang := 0
		{
			var lwg sync.WaitGroup
			lsem := make(chan struct{}, 16)
			for i, c := range lcases {
				lwg.Add(1)
				go func(i int, c *lmtpCase) {
					defer lwg.Done()
					lsem <- struct{}{}
					defer func() { <-lsem }()
					if drv.TooManyHangs() {
						return
					}
					_, err := runLmtpCase(c, i)
					var stuck *drv.StuckError
					if err != nil && asStuck(err, &stuck) {
						mu.Lock()
						nhang++
						run.Report(evid.Div{Prop: "C20", Key: "lmtp-deadlock:" + c.Mode + ":" + stuck.Where, Msg: fmt.Sprintf("LMTP recipients %v, backend program %+v -> %s (%s): the command loop waits forever - %v", c.Rcpts, c.Calls, c.Outcome, c.Mode, stuck), Replay: c})
						mu.Unlock()
					}
				}(i, c)
			}
			lwg.Wait()
		}
		fmt.Printf("C20: Lmtp.tla %d states (no deadlock); %d LMTP backend programs run on the real server, %d hangs\n", lmc.Distinct, len(lcases), nhang)
		// ---- the gated stale-verdict schedules (Verdict.tla: NoGoroutineBlocked): no
		// delivery goroutine is left blocked or behind, whenever the backend of an
		// aborted transfer returns
		vst, vsc := verdictFamily(run)
		fmt.Printf("C20: Verdict.tla %d states; %d gated schedules of aborted chunked transfers, goroutine census after each\n", vst, vsc)
		// ---- a slow Logout of one connection does not stop the server from serving or
		// Shutdown from honouring its context
		nslow := 0
		for _, lm := range []bool{false, true} {
			for _, how := range []string{"eof", "quit"} {
				nslow++
				if msg := slowLogout(how, lm); msg != "" {
					run.Report(evid.Div{Prop: "C20", Key: "slow-logout:" + how, Msg: fmt.Sprintf("connection ended by %s (lmtp=%v), Logout still running: %s", how, lm, msg), Replay: map[string]interface{}{"engine": "slow-logout", "how": how, "lmtp": lm}})
				}
			}
		}
		fmt.Printf("C20: %d slow-Logout scenarios (new connection greeted, Shutdown honours its context)\n", nslow)
		// ---- no deadlock after a backend panic: whatever callback panics, the
		// connection ends and Server.Close still returns (a lock left held by the
		// panicking path would wedge it)
		npanic := 0
		for _, lm := range []bool{false, true} {
			for _, cb := range []string{"NewSession", "Mail", "Rcpt", "Reset", "Data", "BDAT", "Logout"} {
				npanic++
				if msg := panicThenClose(cb, lm); msg != "" {
					run.Report(evid.Div{Prop: "C20", Key: "deadlock-after-panic:" + cb, Msg: fmt.Sprintf("backend panic in %s (lmtp=%v): %s", cb, lm, msg), Replay: map[string]interface{}{"engine": "panic-close", "callback": cb, "lmtp": lm}})
				}
			}
		}
		fmt.Printf("C20: %d backend-panic scenarios followed by Server.Close\n", npanic)
		// ---- race pass: the schedule families under the Go race detector
		races, nsched, raceNote := racePass(tier, run.Seed)
		for pair, rep := range races {
			run.Report(evid.Div{Prop: "C20", Key: "race:" + pair, Msg: "data race between go-smtp functions " + pair + ":\n" + rep, Replay: map[string]interface{}{"engine": "race", "pair": pair}})
		}
		fmt.Printf("C20: Lifecycle.tla %d states; %d life-cycle scenarios recorded and validated by TLC (%d accepted, %d rejected); race pass: %d schedules, %d distinct racing pairs%s\n",
			mc.Distinct, len(scs), acc, rej, nsched, len(races), raceNote)
		samples := []interface{}{}
		if len(scs) > 1 {
			samples = append(samples, map[string]interface{}{"script": scs[0].Script, "events": scs[0].Events}, map[string]interface{}{"script": scs[len(scs)/2].Script, "events": scs[len(scs)/2].Events})
		}
		run.Finish("model_checking", evid.Coverage{
			"states": mc.Distinct, "transitions": mc.Generated, "traces_validated_against_impl": len(scs) + nsched,
			"lifecycle_scenarios": len(scs), "race_schedules": nsched, "racing_pairs": len(races),
			"lmtp_programs_run": len(lcases), "lmtp_hangs": nhang,
			"samples": samples, "checker_cmd": mc.Cmd,
		}, []string{"a data race is below the grain of any TLA+ action: the specification decides which schedules are run and what they must produce, the verdict 'no data race' on each schedule is the Go race detector's on the real code",
			"the race pass schedules by wall-clock slots only (no channel, mutex or tracer shared with the goroutines under test), takes its verdict only from race reports and crashes, and attributes a report to the unordered pair of go-smtp functions at the top of its two stacks"})
	}
}

func firstWords(s string, n int) string {
	f := strings.Fields(s)
	if len(f) > n {
		f = f[:n]
	}
	return strings.Join(f, "_")
}

// racePass builds the race-instrumented schedule runner and collects its reports.
func racePass(tier string, seed int64) (map[string]string, int, string) {
	dir, err := os.MkdirTemp("", "verifrace")
	if err != nil {
		evid.Inconclusive("race pass: %v", err)
	}
	defer os.RemoveAll(dir)
	bin := filepath.Join(dir, "verifrace")
	hdir := filepath.Join(tlcrun.VerifDir(), "harness")
	build := exec.Command("go", "build", "-race", "-tags", "verif", "-o", bin, "./cmd/verifrace")
	build.Dir = hdir
	build.Env = append(os.Environ(), "GOFLAGS=-mod=mod", "GOPROXY=off", "GOSUMDB=off", "GOTOOLCHAIN=local", "CGO_ENABLED=1")
	if out, err := build.CombinedOutput(); err != nil {
		evid.Inconclusive("race pass: cannot build the race-instrumented runner: %v\n%s", err, out)
	}
	reps := "2"
	if tier == "thorough" {
		reps = "8"
	}
	cmd := exec.Command(bin, reps, fmt.Sprint(seed))
	cmd.Env = append(os.Environ(), "GORACE=halt_on_error=0 exitcode=0 history_size=4")
	out, err := cmd.CombinedOutput()
	text := string(out)
	n := 0
	if m := regexp.MustCompile(`SCHEDULES (\d+)`).FindStringSubmatch(text); m != nil {
		n, _ = strconv.Atoi(m[1])
	}
	if err != nil || n == 0 {
		if strings.Contains(text, "panic:") || strings.Contains(text, "fatal error:") {
			return map[string]string{"crash": tailText(text, 3000)}, n, " (runner crashed)"
		}
		evid.Inconclusive("race pass runner failed: %v\n%s", err, tailText(text, 2000))
	}
	return parseRaces(text), n, ""
}

func tailText(s string, n int) string {
	if len(s) > n {
		return s[len(s)-n:]
	}
	return s
}

// panicThenClose makes the backend panic in callback cb on a live connection,
// then closes the server: the connection must end (or at least not hold up the
// close) and Close and Serve must return.
// slowLogout: a connection ends (how: "eof", the peer drops it; "quit") and the
// backend's Logout for it takes its time.  Meanwhile the server goes on serving:
// a new connection is greeted, and Shutdown with a short context returns when
// that context expires (Lifecycle.tla: Accept and ShutdownExpire stay enabled
// while a handler is finishing).
func slowLogout(how string, lmtp bool) string {
	srv := drv.Start(drv.Cfg{LMTP: lmtp, MaxLine: 2000})
	be := srv.BE
	defer func() {
		be.ReleaseAll()
		stopped := make(chan struct{})
		go func() { srv.Stop(); close(stopped) }()
		select {
		case <-stopped:
		case <-time.After(5 * time.Second):
		}
	}()
	cn, err := srv.Dial()
	if err != nil {
		return "dial: " + err.Error()
	}
	cn.Output()
	hello := "EHLO s.test\r\n"
	if lmtp {
		hello = "LHLO s.test\r\n"
	}
	if _, _, err := cn.Replies([]byte(hello)); err != nil {
		return "greeting: " + err.Error()
	}
	be.Hold("slow-logout")
	be.Lock()
	be.LogoutGate = "slow-logout"
	be.Unlock()
	if how == "quit" {
		cn.Send([]byte("QUIT\r\n"))
	} else {
		cn.Close()
	}
	parked := make(chan struct{})
	go func() { be.WaitParked("slow-logout"); close(parked) }()
	select {
	case <-parked:
	case <-time.After(5 * time.Second):
		return "Logout was not called within 5 s of the connection's end"
	}
	be.Lock()
	be.LogoutGate = "" // later sessions log out at once
	be.Unlock()
	// (a) the server goes on serving
	got := make(chan string, 1)
	go func() {
		c2, err := srv.Dial()
		if err != nil {
			got <- "dial: " + err.Error()
			return
		}
		defer c2.Close()
		rs, _, err := c2.Replies(nil)
		if err != nil || len(rs) != 1 || rs[0].Code != 220 {
			got <- fmt.Sprintf("greeting of a new connection: %v %v", codes(rs), err)
			return
		}
		got <- ""
	}()
	select {
	case m := <-got:
		if m != "" {
			return "while a Logout is in progress: " + m
		}
	case <-time.After(4 * time.Second):
		return "while a Logout is in progress a new connection is not greeted within 4 s:\n" + drv.GoroutineDump("go-smtp")
	}
	// (b) Shutdown returns when its context expires
	ctx, cancel := context.WithTimeout(context.Background(), 200*time.Millisecond)
	defer cancel()
	sd := make(chan error, 1)
	go func() { sd <- srv.S.Shutdown(ctx) }()
	select {
	case err := <-sd:
		if err == nil {
			return "Shutdown returned nil although a handler was still inside Logout"
		}
	case <-time.After(4 * time.Second):
		return "Shutdown did not return within 4 s although its context expired after 200 ms:\n" + drv.GoroutineDump("go-smtp")
	}
	return ""
}

func panicThenClose(cb string, lmtp bool) string {
	srv := drv.Start(drv.Cfg{LMTP: lmtp, MaxLine: 2000})
	cn, err := srv.Dial()
	if err != nil {
		srv.Stop()
		return "dial: " + err.Error()
	}
	cn.Output()
	be := srv.BE
	hello := "EHLO p.test\r\n"
	if lmtp {
		hello = "LHLO p.test\r\n"
	}
	be.Lock()
	switch cb {
	case "Data", "BDAT":
		be.DataPlans = []rec.DataPlan{{Panic: true}}
	default:
		be.PanicIn = cb
	}
	be.Unlock()
	script := map[string]string{
		"NewSession": hello,
		"Mail":       hello + "MAIL FROM:<a@x.test>\r\n",
		"Rcpt":       hello + "MAIL FROM:<a@x.test>\r\nRCPT TO:<b@x.test>\r\n",
		"Reset":      hello + "RSET\r\n",
		"Data":       hello + "MAIL FROM:<a@x.test>\r\nRCPT TO:<b@x.test>\r\nDATA\r\nhi\r\n.\r\n",
		"BDAT":       hello + "MAIL FROM:<a@x.test>\r\nRCPT TO:<b@x.test>\r\nBDAT 3 LAST\r\nhi\n",
		"Logout":     hello + "QUIT\r\n",
	}[cb]
	cn.Send([]byte(script))
	cn.WaitIdle() // (a wedged connection is found out by the close below)
	done := make(chan error, 1)
	go func() { done <- srv.S.Close() }()
	select {
	case <-done:
	case <-time.After(3 * time.Second):
		return "Server.Close did not return within 3 s:\n" + drv.GoroutineDump("go-smtp")
	}
	select {
	case <-srv.ServeErr:
	case <-time.After(3 * time.Second):
		return "Serve did not return after Close"
	}
	// a second Close reports that the server is closed, without blocking
	d2 := make(chan error, 1)
	go func() { d2 <- srv.S.Close() }()
	select {
	case err := <-d2:
		if err == nil {
			return "a second Close returned nil"
		}
	case <-time.After(3 * time.Second):
		return "a second Server.Close did not return within 3 s"
	}
	return ""
}
