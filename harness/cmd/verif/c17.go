package main

import (
	"encoding/json"
	"errors"
	"fmt"
	"regexp"
	"strings"
	"sync"
	"time"

	smtp "github.com/emersion/go-smtp"

	"verifharness/drv"
	"verifharness/evid"
	"verifharness/rec"
	"verifharness/sessrep"
	"verifharness/tlcrun"
	"verifharness/wire"
)

type wireLine struct {
	More bool     `json:"more"`
	Text []string `json:"text"`
}

type c17Case struct {
	Callback string     `json:"callback"`
	Code     int        `json:"code"`
	Enh      string     `json:"enh"` // set unset none
	Msg      [][]string `json:"msg"`
	Wire     []wireLine `json:"wire"`
	Client   struct {
		Enh string     `json:"enh"`
		Msg [][]string `json:"msg"`
	} `json:"client"`
	text    string
	enhStr  string
	generic bool
	// 0: fresh connection; 1, 2: the connection has already carried a chunked
	// transfer that the backend refused early with an error of its own (2: the
	// error of the case is then delivered through BDAT LAST instead of DATA)
	Hist int `json:"hist,omitempty"`
}

var codeLike = regexp.MustCompile(`^[0-9]+\.[0-9]+\.[0-9]+$`)

func concreteTok(t string, i int) string {
	switch t {
	case "w":
		return fmt.Sprintf("word%d", i)
	case "u":
		if i%3 == 2 {
			// text relayed from a system that does not speak UTF-8: the octets are the text
			return fmt.Sprintf("caf\xe9%d\xff\xfe", i)
		}
		return fmt.Sprintf("wörd%dé", i)
	case "e":
		return "4.2.2"
	}
	return " "
}

// tokenise a line of text back into the abstract alphabet; own is the
// enhanced code string the server is expected to prepend for this case.
func tokenise(line string, own string) []string {
	toks := []string{}
	cur := ""
	flush := func() {
		if cur == "" {
			return
		}
		switch {
		case cur == own && own != "":
			toks = append(toks, "E")
		case codeLike.MatchString(cur):
			toks = append(toks, "e")
		default:
			ascii := true
			for _, r := range cur {
				if r > 0x7e {
					ascii = false
				}
			}
			if ascii {
				toks = append(toks, "w")
			} else {
				toks = append(toks, "u")
			}
		}
		cur = ""
	}
	for _, r := range line {
		if r == ' ' {
			flush()
			toks = append(toks, "s")
		} else {
			cur += string(r)
		}
	}
	flush()
	return toks
}

func (c *c17Case) err() error {
	if c.generic {
		return errors.New(c.text)
	}
	e := &smtp.SMTPError{Code: c.Code, Message: c.text}
	switch c.Enh {
	case "set":
		e.EnhancedCode = smtp.EnhancedCode{c.Code / 100, 7, 1}
		c.enhStr = fmt.Sprintf("%d.7.1", c.Code/100)
	case "unset":
		e.EnhancedCode = smtp.EnhancedCodeNotSet
		c.enhStr = fmt.Sprintf("%d.0.0", c.Code/100)
	default:
		e.EnhancedCode = smtp.NoEnhancedCode
		c.enhStr = ""
	}
	return e
}

// script installs the error for the chosen callback.
func (c *c17Case) script(be *rec.Backend) {
	e := c.err()
	be.Lock()
	defer be.Unlock()
	switch c.Callback {
	case "NewSession":
		be.NewSessionErrs = []error{e}
	case "Mail":
		be.MailErrs = []error{e}
	case "Rcpt":
		be.RcptErrs = []error{e}
	case "Data":
		be.DataPlans = []rec.DataPlan{{Err: e}}
	}
}

func (c *c17Case) run() (string, error) {
	// ---- raw wire
	srv := drv.Start(drv.Cfg{MaxLine: 2000, UTF8: true})
	defer srv.Stop()
	cn, err := srv.Dial()
	if err != nil {
		return "", err
	}
	cn.Output()
	c.script(srv.BE)
	conv := []string{"EHLO c17.test\r\n", "MAIL FROM:<a@x.test>\r\n", "RCPT TO:<b@x.test>\r\n", "DATA\r\nhello\r\n.\r\n"}
	idx := map[string]int{"NewSession": 0, "Mail": 1, "Rcpt": 2, "Data": 3}[c.Callback]
	if c.Hist == 2 {
		conv[3] = "BDAT 7 LAST\r\nhello\r\n"
	}
	var reply wire.Reply
	for i := 0; i <= idx; i++ {
		if i == 1 && c.Hist > 0 {
			// the earlier transfer, with an error of its own
			be := srv.BE
			be.Lock()
			be.DataPlans = append([]rec.DataPlan{{ReadMode: rec.ReadNone, Err: &smtp.SMTPError{Code: 552, EnhancedCode: smtp.EnhancedCode{5, 2, 2}, Message: "the earlier message was refused"}}}, be.DataPlans...)
			if len(be.MailErrs) > 0 {
				be.MailErrs = append([]error{nil}, be.MailErrs...)
			}
			if len(be.RcptErrs) > 0 {
				be.RcptErrs = append([]error{nil}, be.RcptErrs...)
			}
			be.Unlock()
			prs, _, err := cn.Replies([]byte("MAIL FROM:<p@x.test>\r\nRCPT TO:<q@x.test>\r\nBDAT 7\r\n1234567"))
			if err != nil {
				cn.Close()
				return "", err
			}
			if len(prs) != 3 || prs[2].Code != 552 {
				cn.Close()
				return fmt.Sprintf("the earlier transfer was answered %v", codes(prs)), nil
			}
		}
		rs, _, err := cn.Replies([]byte(conv[i]))
		if err != nil {
			cn.Close()
			if strings.HasPrefix(err.Error(), "reply syntax") {
				return "server reply is not a valid reply: " + err.Error(), nil
			}
			return "", err
		}
		if len(rs) == 0 {
			cn.Close()
			return "no reply", nil
		}
		reply = rs[len(rs)-1]
	}
	cn.Close()
	wantCode := c.Code
	if c.generic {
		wantCode = 451
		c.enhStr = "4.0.0"
		if c.Callback == "Data" {
			wantCode = 554
			c.enhStr = "5.0.0"
		}
	}
	if reply.Code != wantCode {
		return fmt.Sprintf("reply code %d, backend error code %d", reply.Code, wantCode), nil
	}
	c.Wire = nil
	rawLines := strings.Split(strings.TrimSuffix(reply.Raw, "\r\n"), "\r\n")
	for i, rl := range rawLines {
		text := ""
		if len(rl) > 4 {
			text = rl[4:]
		}
		if c.generic && c.Callback == "Data" && i == 0 {
			// documented prefix of generic data errors
			p := c.enhStr + " Error: transaction failed: "
			if !strings.HasPrefix(text, p) {
				return fmt.Sprintf("generic Data error not reported as %q...: %q", p, text), nil
			}
			text = c.enhStr + " " + text[len(p):]
		}
		c.Wire = append(c.Wire, wireLine{More: len(rl) > 3 && rl[3] == '-', Text: tokenise(text, c.enhStr)})
	}
	// ---- through the real client
	srv2 := drv.Start(drv.Cfg{MaxLine: 2000, UTF8: true})
	defer srv2.Stop()
	cn2, err := srv2.Dial()
	if err != nil {
		return "", err
	}
	defer cn2.Close()
	c.script(srv2.BE)
	cl := smtp.NewClient(cn2.Raw)
	cl.CommandTimeout = 3 * time.Second
	cl.SubmissionTimeout = 3 * time.Second
	var cerr error
	done := make(chan struct{})
	go func() {
		defer close(done)
		if cerr = cl.Hello("c17.test"); cerr != nil || c.Callback == "NewSession" {
			return
		}
		if cerr = cl.Mail("a@x.test", nil); cerr != nil || c.Callback == "Mail" {
			return
		}
		if cerr = cl.Rcpt("b@x.test", nil); cerr != nil || c.Callback == "Rcpt" {
			return
		}
		w, err := cl.Data()
		if err != nil {
			cerr = err
			return
		}
		w.Write([]byte("hello\r\n"))
		cerr = w.Close()
	}()
	select {
	case <-done:
	case <-time.After(10 * time.Second):
		return "client did not return", nil
	}
	se, ok := cerr.(*smtp.SMTPError)
	if !ok {
		return fmt.Sprintf("client returned %T %v instead of *SMTPError", cerr, cerr), nil
	}
	if se.Code != wantCode {
		return fmt.Sprintf("client error code %d, backend error code %d", se.Code, wantCode), nil
	}
	cenh := fmt.Sprintf("%d.%d.%d", se.EnhancedCode[0], se.EnhancedCode[1], se.EnhancedCode[2])
	msg := se.Message
	if c.generic && c.Callback == "Data" {
		msg = strings.TrimPrefix(msg, "Error: transaction failed: ")
	}
	switch {
	case se.EnhancedCode == smtp.EnhancedCodeNotSet:
		c.Client.Enh = "none"
	case cenh == c.enhStr:
		c.Client.Enh = "E"
	default:
		c.Client.Enh = "e"
	}
	c.Client.Msg = nil
	for _, l := range strings.Split(msg, "\n") {
		c.Client.Msg = append(c.Client.Msg, tokenise(l, c.enhStr))
	}
	// exact text fidelity once the structure is right
	if !(c.Enh == "none" && len(c.Msg[0]) >= 2 && c.Msg[0][0] == "e" && c.Msg[0][1] == "s") {
		if msg != c.text {
			return fmt.Sprintf("client message %q, backend message %q", msg, c.text), nil
		}
	}
	return "", nil
}

func genC17(maxLines, maxToks int) []*c17Case {
	toks := []string{"w", "u", "e", "s", "E"}
	var lines [][]string
	var gl func(cur []string)
	gl = func(cur []string) {
		// two adjacent non-space tokens would read as one word: not a distinct shape
		if n := len(cur); n >= 2 && cur[n-1] != "s" && cur[n-2] != "s" {
			return
		}
		lines = append(lines, append([]string{}, cur...))
		if len(cur) == maxToks {
			return
		}
		for _, t := range toks {
			gl(append(cur, t))
		}
	}
	gl(nil)
	var msgs [][][]string
	for _, l := range lines {
		msgs = append(msgs, [][]string{l})
	}
	if maxLines >= 2 {
		for i, l1 := range lines {
			for j, l2 := range lines {
				if (i*31+j*17)%7 == 0 || len(l1)+len(l2) <= 2 {
					msgs = append(msgs, [][]string{l1, l2})
				}
			}
		}
	}
	if maxLines >= 3 {
		for i := range lines {
			msgs = append(msgs, [][]string{lines[i], lines[(i*5+1)%len(lines)], lines[(i*11+3)%len(lines)]})
		}
	}
	var out []*c17Case
	cbs := []string{"NewSession", "Mail", "Rcpt", "Data"}
	codesL := []int{421, 450, 451, 550, 552, 554}
	n := 0
	for _, m := range msgs {
		quotes := false
		for _, l := range m {
			for _, t := range l {
				if t == "E" {
					quotes = true
				}
			}
		}
		for _, enh := range []string{"set", "unset", "none"} {
			if quotes && enh == "none" {
				continue // no code of its own to quote
			}
			c := &c17Case{Callback: cbs[n%4], Code: codesL[(n/4)%6], Enh: enh, Msg: m}
			if c.Callback != "NewSession" {
				c.Hist = (n / 4) % 3
			}
			n++
			own := fmt.Sprintf("%d.7.1", c.Code/100)
			if enh == "unset" {
				own = fmt.Sprintf("%d.0.0", c.Code/100)
			}
			var ls []string
			k := 0
			for _, l := range m {
				s := ""
				for _, t := range l {
					k++
					if t == "E" {
						s += own
					} else {
						s += concreteTok(t, k)
					}
				}
				ls = append(ls, s)
			}
			c.text = strings.Join(ls, "\n")
			out = append(out, c)
		}
	}
	// generic (non-SMTPError) errors: single-line texts
	for i, l := range lines {
		if len(l) == 0 || l[0] == "s" || l[len(l)-1] == "s" || strings.Contains(strings.Join(l, ""), "E") {
			continue
		}
		c := &c17Case{Callback: cbs[i%4], Enh: "unset", Msg: [][]string{l}, generic: true}
		s := ""
		for k, t := range l {
			s += concreteTok(t, k+1)
		}
		c.text = s
		out = append(out, c)
	}
	return out
}

func init() {
	checks["C17"] = func(tier string) {
		run := evid.NewRun("C17", tier)
		cfg, ml, mt := "MC_Reply.cfg", 2, 3
		if tier == "thorough" {
			cfg, ml, mt = "MC_Reply_thorough.cfg", 3, 3
		}
		mc := modelCheck("Reply", cfg, 16)
		cases := genC17(ml, mt)
		var mu sync.Mutex
		var wg sync.WaitGroup
		sem := make(chan struct{}, 16)
		var good []*c17Case
		var firstErr error
		for _, c := range cases {
			wg.Add(1)
			go func(c *c17Case) {
				defer wg.Done()
				sem <- struct{}{}
				defer func() { <-sem }()
				msg, err := c.run()
				mu.Lock()
				defer mu.Unlock()
				if err != nil {
					if firstErr == nil {
						firstErr = err
					}
					return
				}
				if msg != "" {
					kind := msg
					if i := strings.IndexAny(msg, ":,\""); i > 0 {
						kind = strings.TrimSpace(msg[:i])
					}
					run.Report(evid.Div{Prop: "C17", Key: fmt.Sprintf("c17:%s:%s:%s:lines=%d", c.Callback, c.Enh, kind, len(c.Msg)),
						Msg: fmt.Sprintf("%s returns code %d enhanced %s message %q (generic=%v): %s", c.Callback, c.Code, c.Enh, c.text, c.generic, msg), Replay: c})
					return
				}
				good = append(good, c)
			}(c)
		}
		wg.Wait()
		if firstErr != nil {
			evid.Inconclusive("C17: %v", firstErr)
		}
		var nd strings.Builder
		for _, c := range good {
			b, _ := json.Marshal(c)
			nd.Write(b)
			nd.WriteByte('\n')
		}
		nbad := 0
		if len(good) > 0 {
			res, err := tlcrun.Run("Trace_Reply", "Trace_Reply.cfg", tlcrun.Opts{Workers: 1, Tags: []string{"BADCASES", "NCASES"}, Files: map[string][]byte{"cases.ndjson": []byte(nd.String())}})
			if res == nil || len(res.Tagged["BADCASES"]) == 0 || len(res.Tagged["NCASES"]) == 0 || res.Tagged["NCASES"][0] != fmt.Sprint(len(good)) {
				evid.Inconclusive("Trace_Reply gave no verdict: %v\n%s", err, tailOut(res))
			}
			var bad []int
			json.Unmarshal([]byte(res.Tagged["BADCASES"][0]), &bad)
			nbad = len(bad)
			for _, i := range bad {
				c := good[i-1]
				run.Report(evid.Div{Prop: "C17", Key: fmt.Sprintf("c17:structure:%s:%s:lines=%d", c.Callback, c.Enh, len(c.Msg)),
					Msg: fmt.Sprintf("%s returns code %d enhanced %s message %q: on the wire %+v, client got enh=%s msg=%v; Reply.tla requires the enhanced code on every line and the client to recover code and text", c.Callback, c.Code, c.Enh, c.text, c.Wire, c.Client.Enh, c.Client.Msg), Replay: c})
			}
		}
		fmt.Printf("C17: Reply.tla %d states (round trip holds for all messages up to the bound); %d backend errors sent through the real server and client, %d judged by TLC, %d rejected\n", mc.Distinct, len(cases), len(good), nbad)
		samples := []interface{}{}
		if len(good) > 1 {
			samples = append(samples, good[len(good)/3], good[len(good)-1])
		}
		// the verdict of an aborted chunked transfer that returns late must not replace
		// the error the backend returns for the next message (gated schedules, Verdict.tla)
		vst, vsc := verdictFamily(run)
		fmt.Printf("C17: Verdict.tla %d states; %d gated stale-verdict schedules validated by TLC\n", vst, vsc)
		nsent := c17SharedFamily(run)
		fmt.Printf("C17: %d LMTP conversations in which the backend returns one sentinel *SMTPError for every recipient and again from a later callback\n", nsent)
		// an error is also owed when the message stopped arriving (MC_Idle: the reader's
		// time-out passed on by the backend is reported with the generic data code)
		imc := modelCheck("MC_Idle", "MC_Idle.cfg", 8)
		ist := tourSome(run, dumpEdges("MC_Idle", "Dump_Idle.cfg"), func(e *sessrep.Edge) bool { return e.Lbl.Cmd.C == "DATASTALL" })
		fmt.Printf("C17: MC_Idle %d states; %d/%d stalled-DATA transitions replayed\n", imc.Distinct, ist.Covered, ist.Edges)
		run.Finish("model_checking", evid.Coverage{
			"states": mc.Distinct, "transitions": mc.Generated, "traces_validated_against_impl": len(good), "cases": len(cases),
			"samples": samples, "checker_cmd": mc.Cmd, "sentinel_conversations": nsent,
		}, []string{"message shapes over {ASCII word, non-ASCII word, enhanced-code look-alike, space}, up to 3 tokens per line and 2 (quick) / 3 (thorough) lines; codes {421,450,451,550,552,554}; enhanced code set / unset / explicitly absent; the four callbacks round-robin",
			"shapes ambiguous on the wire by construction (no enhanced code sent and the text starts with a look-alike) are only checked for the wire form"})
	}
}

func tailOut(r *tlcrun.Result) string {
	if r == nil {
		return ""
	}
	if len(r.Output) > 1500 {
		return r.Output[len(r.Output)-1500:]
	}
	return r.Output
}
