package main

// C17, the backend's error object is the backend's: an application keeps
// sentinel errors (one *SMTPError value returned again and again - for every
// recipient of an LMTP delivery, from Data and later from Rcpt).  Each reply
// must carry the sentinel's own text, and the server must not write into it.

import (
	"fmt"
	"time"

	smtp "github.com/emersion/go-smtp"

	"verifharness/drv"
	"verifharness/evid"
	"verifharness/rec"
)

type c17SharedCase struct {
	LMTPBackend bool   `json:"lmtpBackend"` // per-recipient statuses (SetStatus) or one Data result fanned out
	Chunked     bool   `json:"chunked"`
	Later       string `json:"later"` // the callback that returns the same sentinel afterwards
}

func runC17Shared(c c17SharedCase) (string, error) {
	srv := drv.Start(drv.Cfg{LMTP: true, LMTPBackend: c.LMTPBackend, MaxLine: 2000, Binarymime: true})
	defer srv.Stop()
	cn, err := srv.Dial()
	if err != nil {
		return "", err
	}
	defer cn.Close()
	cn.Output()
	sentinel := &smtp.SMTPError{Code: 452, EnhancedCode: smtp.EnhancedCode{4, 2, 2}, Message: "Mailbox full"}
	be := srv.BE
	be.Lock()
	if c.LMTPBackend {
		be.DataPlans = []rec.DataPlan{{Status: []rec.StatusOp{{Addr: "a@x.test", Err: sentinel}, {Addr: "b@x.test", Err: sentinel}}}}
	} else {
		be.DataPlans = []rec.DataPlan{{Err: sentinel}}
	}
	be.Unlock()
	msg := "DATA\r\nhello\r\n.\r\n"
	if c.Chunked {
		msg = "BDAT 7 LAST\r\nhello\r\n"
	}
	want := func(rcpt string) string { return "452 4.2.2 <" + rcpt + "> Mailbox full" }
	for i, step := range []string{"LHLO c17.test\r\n", "MAIL FROM:<s@x.test>\r\n", "RCPT TO:<a@x.test>\r\n", "RCPT TO:<b@x.test>\r\n", msg} {
		rs, _, err := cn.Replies([]byte(step))
		if err != nil {
			return "", err
		}
		if i < 4 {
			continue
		}
		var finals []string
		for _, r := range rs {
			if r.Code/100 != 3 {
				finals = append(finals, trimCRLF(r.Raw))
			}
		}
		if len(finals) != 2 || finals[0] != want("a@x.test") || finals[1] != want("b@x.test") {
			return fmt.Sprintf("one sentinel error for both recipients: replies %q, owed %q and %q", finals, want("a@x.test"), want("b@x.test")), nil
		}
	}
	if sentinel.Code != 452 || sentinel.Message != "Mailbox full" || sentinel.EnhancedCode != (smtp.EnhancedCode{4, 2, 2}) {
		return fmt.Sprintf("the server wrote into the backend's error value: it is now %d %v %q", sentinel.Code, sentinel.EnhancedCode, sentinel.Message), nil
	}
	// the same value again, from another callback, through the real client's eyes
	be.Lock()
	switch c.Later {
	case "Mail":
		be.MailErrs = []error{sentinel}
	case "Rcpt":
		be.RcptErrs = []error{sentinel}
	}
	be.Unlock()
	conv := []string{"MAIL FROM:<s2@x.test>\r\n", "RCPT TO:<c@x.test>\r\n"}
	n := map[string]int{"Mail": 1, "Rcpt": 2}[c.Later]
	var last string
	for _, step := range conv[:n] {
		rs, _, err := cn.Replies([]byte(step))
		if err != nil {
			return "", err
		}
		if len(rs) != 1 {
			return fmt.Sprintf("%q answered with %d replies", step, len(rs)), nil
		}
		last = trimCRLF(rs[0].Raw)
	}
	if last != "452 4.2.2 Mailbox full" {
		return fmt.Sprintf("%s returns the sentinel it returned for the delivery before: reply %q, owed %q", c.Later, last, "452 4.2.2 Mailbox full"), nil
	}
	return "", nil
}

func trimCRLF(s string) string {
	for len(s) > 0 && (s[len(s)-1] == '\n' || s[len(s)-1] == '\r') {
		s = s[:len(s)-1]
	}
	return s
}

func c17SharedFamily(run *evid.Run) int {
	n := 0
	for _, lb := range []bool{false, true} {
		for _, ch := range []bool{false, true} {
			for _, later := range []string{"Mail", "Rcpt"} {
				c := c17SharedCase{LMTPBackend: lb, Chunked: ch, Later: later}
				n++
				done := make(chan struct{})
				var msg string
				var err error
				go func() { defer close(done); msg, err = runC17Shared(c) }()
				select {
				case <-done:
				case <-time.After(20 * time.Second):
					msg = "the conversation did not finish"
				}
				if err != nil {
					evid.Inconclusive("C17 shared-sentinel family: %v", err)
				}
				if msg != "" {
					run.Report(evid.Div{Prop: "C17", Key: fmt.Sprintf("c17:sentinel:lmtpbackend=%v:chunked=%v", lb, ch),
						Msg: fmt.Sprintf("LMTP, %+v: %s", c, msg), Replay: map[string]interface{}{"engine": "c17-sentinel", "case": c}})
				}
			}
		}
	}
	return n
}
