package main

// Client session engine: binds spec/ClientSession.tla to the real Client.
//
// spec -> code: TLC dumps every labelled edge of MC_ClientSession (SMTP and
// LMTP client); transition tours execute each edge's API call on a real
// smtp.Client whose peer is a fake driven by the edge's peer decisions, and
// compare the command lines written, the class of the result, the status
// callbacks and the projected client state (hook VerifClientState) with the
// edge.  code -> spec: random API walks against a small conforming peer that
// chooses its replies at random are recorded and explained event by event by
// Trace_ClientSession.tla.

import (
	"bufio"
	"encoding/json"
	"errors"
	"fmt"
	"io"
	"math/rand"
	"os"
	"runtime/pprof"
	"sort"
	"strings"
	"sync"
	"time"

	smtp "github.com/emersion/go-smtp"

	"verifharness/evid"
	"verifharness/pipe"
	"verifharness/tlcrun"
)

type csState struct {
	Conn   string   `json:"conn"`
	G      string   `json:"g"`
	H      string   `json:"h"`
	Ext    []string `json:"ext"`
	Name   string   `json:"name"`
	Rcpts  []string `json:"rcpts"`
	Dw     string   `json:"dw"`
	Dwcb   bool     `json:"dwcb"`
	SHello bool     `json:"sHello"`
	STxn   bool     `json:"sTxn"`
	SList  []string `json:"sList"`
	SExt   []string `json:"sExt"`
}

type csDec struct {
	G  string   `json:"g"`
	E  string   `json:"e"`
	Es []string `json:"es"`
	F  string   `json:"f"`
	C  string   `json:"c"`
}

type csLabel struct {
	Call  string     `json:"call"`
	Args  []string   `json:"args"`
	Dec   csDec      `json:"dec"`
	Lines [][]string `json:"lines"`
	Res   string     `json:"res"`
	Reads int        `json:"reads"`
	Cbs   [][]string `json:"cbs"`
	V     []string   `json:"v,omitempty"`
	Cs    []string   `json:"cs,omitempty"` // SendMail: the peer's replies to the successive commands after the hello
}

type csEdge struct {
	Lmtp bool    `json:"lmtp"`
	Src  csState `json:"src"`
	Lbl  csLabel `json:"lbl"`
	Dst  csState `json:"dst"`

	src, dst string
	si, di   int // state numbers (indices into csGraph.out)
	covered  bool
	ran      bool
	tries    int
}

func (s *csState) key() string {
	c := *s
	c.Ext = append([]string{}, c.Ext...)
	c.SExt = append([]string{}, c.SExt...)
	sort.Strings(c.Ext)
	sort.Strings(c.SExt)
	b, _ := json.Marshal(c)
	return string(b)
}

// ---------------------------------------------------------------- fake peer

// csFake is the scripted peer: it answers each line with the decision that is
// current for the line's class and records what it received.
type csFake struct {
	mu    sync.Mutex
	end   *pipe.End
	lmtp  bool
	dec   csDec
	v     []string
	cs    []string
	lines []string // received since mark()
	extra []string // lines for which no decision was current
	body  []byte
}

func (f *csFake) set(d csDec, v []string, cs []string) {
	f.mu.Lock()
	f.dec, f.v, f.cs = d, v, append([]string{}, cs...)
	f.lines, f.extra = nil, nil
	f.mu.Unlock()
}

func (f *csFake) taken() ([]string, []string) {
	f.mu.Lock()
	defer f.mu.Unlock()
	return append([]string{}, f.lines...), append([]string{}, f.extra...)
}

func csReplyText(code string) string {
	switch code[0] {
	case '2':
		return code + " 2.0.0 fine\r\n"
	case '3':
		return code + " go ahead\r\n"
	case '4':
		return code + " 4.0.0 later\r\n"
	}
	return code + " 5.0.0 no\r\n"
}

func (f *csFake) greet(code string) {
	if code == "220" {
		f.end.Write([]byte("220 fake.test ESMTP\r\n"))
	} else {
		f.end.Write([]byte(code + " 5.0.0 go away\r\n"))
	}
}

func (f *csFake) serve() {
	r := bufio.NewReader(f.end)
	for {
		line, err := r.ReadString('\n')
		if err != nil {
			return
		}
		line = strings.TrimRight(line, "\r\n")
		up := strings.ToUpper(line)
		f.mu.Lock()
		d, v := f.dec, f.v
		f.lines = append(f.lines, line)
		if !strings.HasPrefix(up, "EHLO") && !strings.HasPrefix(up, "LHLO") && !strings.HasPrefix(up, "HELO") && len(f.cs) > 0 {
			// a call that writes several commands: one decision per command
			d.C = f.cs[0]
			f.cs = f.cs[1:]
		}
		f.mu.Unlock()
		unexpected := func() {
			f.mu.Lock()
			f.extra = append(f.extra, line)
			f.mu.Unlock()
		}
		switch {
		case strings.HasPrefix(up, "EHLO"), strings.HasPrefix(up, "LHLO"):
			switch d.E {
			case "250":
				// the greeting line, then one line per keyword; an empty set is a bare
				// single-line reply (an empty extension map, not "no change")
				ls := []string{"fake.test"}
				for _, e := range d.Es {
					if e == "SIZE" {
						e = "SIZE 1000"
					}
					ls = append(ls, e)
				}
				var sb strings.Builder
				for i, l := range ls {
					if i == len(ls)-1 {
						sb.WriteString("250 " + l + "\r\n")
					} else {
						sb.WriteString("250-" + l + "\r\n")
					}
				}
				f.end.Write([]byte(sb.String()))
			case "-", "":
				unexpected()
				f.end.Write([]byte("250 fake.test\r\n"))
			default:
				f.end.Write([]byte(csReplyText(d.E)))
			}
		case strings.HasPrefix(up, "HELO"):
			if d.F == "-" || d.F == "" {
				unexpected()
				f.end.Write([]byte("250 fake.test\r\n"))
			} else {
				f.end.Write([]byte(csReplyText(d.F)))
			}
		case up == "DATA" && d.C == "354":
			f.end.Write([]byte("354 go ahead\r\n"))
			var body []byte
			for {
				l, err := r.ReadString('\n')
				if err != nil {
					return
				}
				if l == ".\r\n" {
					break
				}
				body = append(body, l...)
			}
			f.mu.Lock()
			f.body = body
			f.lines = append(f.lines, "\x00BODY")
			v = f.v
			f.mu.Unlock()
			for _, c := range v {
				if c == "stall" {
					break
				}
				f.end.Write([]byte(csReplyText(c)))
			}
		default:
			if d.C == "stall" {
				// no reply: the client's CommandTimeout has to end the call
			} else if d.C == "-" || d.C == "" {
				unexpected()
				f.end.Write([]byte("250 2.0.0 fine\r\n"))
			} else {
				f.end.Write([]byte(csReplyText(d.C)))
			}
		}
	}
}

// ------------------------------------------------------------- real client

type csConn struct {
	lmtp   bool
	cl     *smtp.Client
	fake   *csFake
	w      io.WriteCloser
	cbs    [][]string
	hist   []*csEdge
	cliEnd *pipe.End
	wrote  bool // the message was written to the current writer
	sub    time.Duration
}

func newCsConn(lmtp bool, subTimeout time.Duration) *csConn {
	c, s := pipe.New()
	f := &csFake{end: s, lmtp: lmtp}
	go f.serve()
	var cl *smtp.Client
	if lmtp {
		cl = smtp.NewClientLMTP(c)
	} else {
		cl = smtp.NewClient(c)
	}
	cl.CommandTimeout = 5 * time.Second
	cl.SubmissionTimeout = subTimeout
	return &csConn{lmtp: lmtp, cl: cl, fake: f, cliEnd: c, sub: subTimeout}
}

func (c *csConn) discard() {
	c.cliEnd.Close()
	c.fake.end.Close()
}

func csErrClass(err error) string {
	if err == nil {
		return "nil"
	}
	var se *smtp.SMTPError
	if errors.As(err, &se) {
		return fmt.Sprintf("smtp%d", se.Code)
	}
	if strings.HasPrefix(err.Error(), "smtp: ") {
		return "local"
	}
	return "io"
}

func csAddr(name string) string { return name + "@x.test" }

// call performs one API call. It returns the result class and whether the
// call returned at all.
func (c *csConn) call(l *csLabel) (string, bool) {
	res := make(chan string, 1)
	if l.Dec.C == "stall" && l.Call != "WClose" {
		c.cl.CommandTimeout = 600 * time.Millisecond
	} else {
		c.cl.CommandTimeout = 5 * time.Second
	}
	if len(l.V) == 1 && l.V[0] == "stall" && c.sub <= time.Second {
		c.cl.SubmissionTimeout = 500 * time.Millisecond // the reply will not come: no need to wait long for it
	} else {
		c.cl.SubmissionTimeout = c.sub
	}
	go func() {
		switch l.Call {
		case "Noop":
			res <- csErrClass(c.cl.Noop())
		case "Verify":
			if len(l.Args) > 0 && l.Args[0] == "crlf" {
				res <- csErrClass(c.cl.Verify("who\r\nNOOP"))
			} else {
				res <- csErrClass(c.cl.Verify("who"))
			}
		case "Reset":
			res <- csErrClass(c.cl.Reset())
		case "Quit":
			res <- csErrClass(c.cl.Quit())
		case "Hello":
			if l.Args[0] == "crlf" {
				res <- csErrClass(c.cl.Hello("custom\r\nNOOP"))
			} else {
				res <- csErrClass(c.cl.Hello("custom"))
			}
		case "Extension":
			ok, _ := c.cl.Extension(l.Args[0])
			res <- fmt.Sprint(ok)
		case "Mail":
			if l.Args[0] == "crlf" {
				res <- csErrClass(c.cl.Mail("s@x.test>\r\nRCPT TO:<evil@x.test", nil))
				return
			}
			var o *smtp.MailOptions
			if l.Args[0] == "utf8" || l.Args[1] == "size" {
				o = &smtp.MailOptions{UTF8: l.Args[0] == "utf8"}
				if l.Args[1] == "size" {
					o.Size = 5
				}
			}
			res <- csErrClass(c.cl.Mail("s@x.test", o))
		case "Rcpt":
			if l.Args[0] == "crlf" {
				res <- csErrClass(c.cl.Rcpt("r@x.test>\r\nRCPT TO:<evil@x.test", nil))
			} else {
				res <- csErrClass(c.cl.Rcpt(csAddr(l.Args[0]), nil))
			}
		case "Data":
			w, err := c.cl.Data()
			if err == nil {
				c.w, c.cbs, c.wrote = w, nil, false
			}
			res <- csErrClass(err)
		case "LMTPData":
			w, err := c.cl.LMTPData(func(rcpt string, st *smtp.SMTPError) {
				code := "250"
				if st != nil {
					code = fmt.Sprint(st.Code)
				}
				c.cbs = append(c.cbs, []string{strings.TrimSuffix(rcpt, "@x.test"), code})
			})
			if err == nil {
				c.w, c.cbs, c.wrote = w, nil, false
			}
			res <- csErrClass(err)
		case "WClose":
			if c.w == nil {
				res <- "harness: no writer"
				return
			}
			c.cbs = nil
			if !c.wrote {
				// the message is written once; a repeated Close is only a Close
				c.wrote = true
				c.w.Write([]byte("x\r\n"))
			}
			res <- csErrClass(c.w.Close())
		case "SendMail":
			var to []string
			for _, a := range l.Args {
				to = append(to, csAddr(a))
			}
			res <- csErrClass(c.cl.SendMail("s@x.test", to, strings.NewReader("x\r\n")))
		case "Close":
			c.cl.Close()
			res <- "any"
		default:
			res <- "harness: unknown call " + l.Call
		}
	}()
	select {
	case r := <-res:
		return r, true
	case <-time.After(12 * time.Second):
		return "", false
	}
}

// tokens turns a received line into the specification's abstract line.
func csTokens(line string) []string {
	if line == "\x00BODY" {
		return []string{"BODY"}
	}
	f := strings.Fields(line)
	if len(f) == 0 {
		return []string{"?" + line}
	}
	switch f[0] {
	case "EHLO", "LHLO", "HELO":
		if len(f) == 2 {
			return []string{f[0], f[1]}
		}
	case "MAIL":
		if len(f) >= 2 && f[1] == "FROM:<s@x.test>" {
			return append([]string{"MAIL"}, f[2:]...)
		}
	case "RCPT":
		if len(f) == 2 && strings.HasPrefix(f[1], "TO:<") && strings.HasSuffix(f[1], "@x.test>") {
			return []string{"RCPT", strings.TrimSuffix(strings.TrimPrefix(f[1], "TO:<"), "@x.test>")}
		}
	case "VRFY":
		if len(f) == 2 && f[1] == "who" {
			return []string{"VRFY"}
		}
	case "NOOP", "RSET", "QUIT", "DATA":
		if len(f) == 1 {
			return f
		}
	}
	return []string{"?" + line}
}

func csProj(cl *smtp.Client) (g, h string, ext []string, name string, rcpts []string) {
	p := smtp.VerifClientState(cl)
	switch {
	case !p.DidGreet:
		g = "new"
	case p.GreetErr == nil:
		g = "ok"
	default:
		g = csErrClass(p.GreetErr)
	}
	switch {
	case !p.DidHello:
		h = "no"
	case p.HelloErr == nil:
		h = "ok"
	default:
		h = csErrClass(p.HelloErr)
	}
	if p.ExtNil {
		ext = []string{"<nil>"}
	} else {
		ext = []string{}
		for _, k := range p.Ext {
			if k == "PIPELINING" {
				continue // the fake's closing line, not part of the model's universe
			}
			ext = append(ext, k)
		}
		sort.Strings(ext)
	}
	name = p.LocalName
	rcpts = []string{}
	for _, r := range p.Rcpts {
		rcpts = append(rcpts, strings.TrimSuffix(r, "@x.test"))
	}
	return
}

// step executes one edge and returns a description of the first difference.
func (c *csConn) step(e *csEdge) (what, field string) {
	l := &e.Lbl
	c.fake.set(l.Dec, l.V, l.Cs)
	if l.Dec.G != "-" {
		c.fake.greet(l.Dec.G)
	}
	res, returned := c.call(l)
	c.hist = append(c.hist, e)
	if !returned {
		return fmt.Sprintf("%s did not return within 12 s", l.Call), "hang"
	}
	got, extra := c.fake.taken()
	var gl [][]string
	for _, x := range got {
		gl = append(gl, csTokens(x))
	}
	if a, b := fmt.Sprint(gl), fmt.Sprint(l.Lines); a != b && !(len(gl) == 0 && len(l.Lines) == 0) {
		return fmt.Sprintf("%s%v wrote %q, specification: lines %v", l.Call, l.Args, got, l.Lines), "lines"
	}
	if len(extra) > 0 {
		return fmt.Sprintf("%s%v wrote %q for which the peer had no decision", l.Call, l.Args, extra), "lines"
	}
	if l.Res != "any" && res != l.Res {
		return fmt.Sprintf("%s%v returned %s, specification: %s", l.Call, l.Args, res, l.Res), "result"
	}
	if l.Call == "WClose" {
		if a, b := fmt.Sprint(c.cbs), fmt.Sprint(l.Cbs); a != b && !(len(c.cbs) == 0 && len(l.Cbs) == 0) {
			return fmt.Sprintf("status callbacks %v, specification %v", c.cbs, l.Cbs), "callbacks"
		}
		if got := string(c.fake.body); len(l.Lines) == 1 && got != "x\r\n" {
			return fmt.Sprintf("the peer received the message %q, written \"x\\r\\n\"", got), "body"
		}
	}
	if l.Call == "SendMail" && len(l.Lines) > 0 && l.Lines[len(l.Lines)-1][0] == "BODY" {
		if got := string(c.fake.body); got != "x\r\n" {
			return fmt.Sprintf("SendMail: the peer received the message %q, given \"x\\r\\n\"", got), "body"
		}
	}
	g, h, ext, name, rcpts := csProj(c.cl)
	d := &e.Dst
	dext := append([]string{}, d.Ext...)
	sort.Strings(dext)
	switch {
	case g != d.G:
		return fmt.Sprintf("after %s%v: greeting state %q, specification %q", l.Call, l.Args, g, d.G), "g"
	case h != d.H:
		return fmt.Sprintf("after %s%v: hello state %q, specification %q", l.Call, l.Args, h, d.H), "h"
	case fmt.Sprint(ext) != fmt.Sprint(dext):
		return fmt.Sprintf("after %s%v: extension map %v, specification %v (peer's most recent EHLO reply: %v)", l.Call, l.Args, ext, dext, d.SExt), "ext"
	case name != d.Name:
		return fmt.Sprintf("after %s%v: local name %q, specification %q", l.Call, l.Args, name, d.Name), "name"
	case fmt.Sprint(rcpts) != fmt.Sprint(d.Rcpts) && !(len(rcpts) == 0 && len(d.Rcpts) == 0):
		return fmt.Sprintf("after %s%v: recipient list %v, specification %v (the peer accepted %v)", l.Call, l.Args, rcpts, d.Rcpts, d.SList), "rcpts"
	}
	return "", ""
}

// ------------------------------------------------------------------- tours

type csGraph struct {
	lmtp  bool
	edges []*csEdge
	ids   map[string]int // state key -> state number
	out   [][]*csEdge    // by state number
	init  int
}

func loadCsGraph(flavour string) *csGraph {
	res, err := tlcrun.Run("MC_ClientSession", "Dump_ClientSession_"+flavour+".cfg", tlcrun.Opts{Workers: 1, Tags: []string{"CEDGE"}})
	if err != nil || res == nil || !res.OK {
		evid.Inconclusive("TLC edge dump of ClientSession (%s): %v", flavour, err)
	}
	g := &csGraph{lmtp: flavour == "lmtp", ids: map[string]int{}}
	id := func(k string) int {
		if i, ok := g.ids[k]; ok {
			return i
		}
		g.ids[k] = len(g.out)
		g.out = append(g.out, nil)
		return len(g.out) - 1
	}
	for _, p := range res.Tagged["CEDGE"] {
		e := &csEdge{}
		if err := json.Unmarshal([]byte(p), e); err != nil {
			evid.Inconclusive("CEDGE: %v", err)
		}
		e.src, e.dst = e.Src.key(), e.Dst.key()
		e.si, e.di = id(e.src), id(e.dst)
		g.edges = append(g.edges, e)
		g.out[e.si] = append(g.out[e.si], e)
	}
	if len(g.edges) == 0 {
		evid.Inconclusive("ClientSession edge dump is empty")
	}
	init := csState{Conn: "open", G: "new", H: "no", Ext: []string{"<nil>"}, Name: "localhost", Rcpts: []string{}, Dw: "none", SList: []string{}, SExt: []string{}}
	ii, ok := g.ids[init.key()]
	if !ok {
		evid.Inconclusive("ClientSession edge dump has no initial state")
	}
	g.init = ii
	if len(g.out[g.init]) == 0 {
		evid.Inconclusive("ClientSession edge dump has no initial state")
	}
	return g
}

// path returns the shortest edge sequence from state `from` that ends with an
// uncovered edge wanted by the worker.
func (g *csGraph) path(from int, mu *sync.Mutex, want func(*csEdge) bool) []*csEdge {
	type node struct {
		st   int
		prev *node
		via  *csEdge
	}
	seen := make([]bool, len(g.out))
	seen[from] = true
	q := []*node{{st: from}}
	mu.Lock()
	defer mu.Unlock()
	for len(q) > 0 {
		n := q[0]
		q = q[1:]
		for _, e := range g.out[n.st] {
			if !e.covered && want(e) {
				p := []*csEdge{e}
				for m := n; m.via != nil; m = m.prev {
					p = append([]*csEdge{m.via}, p...)
				}
				return p
			}
		}
		for _, e := range g.out[n.st] {
			if !seen[e.di] {
				seen[e.di] = true
				q = append(q, &node{st: e.di, prev: n, via: e})
			}
		}
	}
	return nil
}

type csStats struct {
	edges, steps, conns, divs int
}

func csPropOf(field string, e *csEdge) []string {
	// which properties a divergence belongs to
	switch field {
	case "rcpts", "callbacks":
		return []string{"C18", "C16"}
	case "hang":
		if e.Lbl.Call == "WClose" {
			return []string{"C18", "C16"}
		}
		return []string{"C15"}
	case "body":
		return []string{"C16"}
	}
	if e.Lbl.Call == "WClose" {
		return []string{"C16", "C18"}
	}
	if e.Lbl.Call == "SendMail" {
		return []string{"C16", "C15", "C18"}
	}
	return []string{"C15"}
}

func csHistory(h []*csEdge) []string {
	var out []string
	for _, e := range h {
		out = append(out, fmt.Sprintf("%s%v dec=%+v cs=%v v=%v", e.Lbl.Call, e.Lbl.Args, e.Lbl.Dec, e.Lbl.Cs, e.Lbl.V))
	}
	return out
}

// confirm re-runs a history on a fresh connection with generous time-outs and
// reports whether the last edge diverges again in the same field.
func csConfirm(lmtp bool, hist []*csEdge, field string) (string, bool) {
	c := newCsConn(lmtp, 3*time.Second)
	defer c.discard()
	for i, e := range hist {
		what, f := c.step(e)
		if i == len(hist)-1 {
			return what, f == field
		}
		if f != "" {
			return what, false
		}
	}
	return "", false
}

func csTour(run *evid.Run, g *csGraph, workers int, sample func(*csEdge) bool) csStats {
	var mu sync.Mutex
	var st csStats
	var wg sync.WaitGroup
	flav := "smtp"
	if g.lmtp {
		flav = "lmtp"
	}
	idx := map[*csEdge]int{}
	for i, e := range g.edges {
		idx[e] = i
		if !sample(e) {
			e.covered = true // left to the thorough tier (still executed when on a path)
		}
	}
	for w := 0; w < workers; w++ {
		wg.Add(1)
		go func(w int) {
			defer wg.Done()
			want := func(e *csEdge) bool { return idx[e]%workers == w }
			var c *csConn
			cur := g.init
			for {
				mu.Lock()
				tooMany := st.divs > 40 || (os.Getenv("VERIF_CS_LIMIT") != "" && st.steps > 8000) // (the limit: profiling aid)
				mu.Unlock()
				if tooMany {
					break
				}
				if c == nil {
					c = newCsConn(g.lmtp, time.Second)
					cur = g.init
					mu.Lock()
					st.conns++
					mu.Unlock()
				}
				p := g.path(cur, &mu, want)
				if p == nil {
					if cur == g.init {
						break
					}
					c.discard()
					c = nil
					continue
				}
				target := p[len(p)-1]
				mu.Lock()
				target.tries++
				if target.tries >= 3 {
					target.covered = true
				}
				mu.Unlock()
				for _, e := range p {
					what, field := c.step(e)
					mu.Lock()
					st.steps++
					e.covered, e.ran = true, true
					mu.Unlock()
					if field == "" {
						cur = e.di
						continue
					}
					hist := append([]*csEdge{}, c.hist...)
					c.discard()
					c = nil
					if what2, again := csConfirm(g.lmtp, hist, field); again {
						mu.Lock()
						st.divs++
						mu.Unlock()
						for _, prop := range csPropOf(field, e) {
							run.Report(evid.Div{Prop: prop, Key: fmt.Sprintf("clientsession:%s:%s:%s", flav, e.Lbl.Call, field),
								Msg:    fmt.Sprintf("client session (%s), history %v: %s", flav, csHistory(hist), what2),
								Replay: map[string]interface{}{"engine": "clientsession", "lmtp": g.lmtp, "history": hist}})
						}
					} else {
						fmt.Printf("NOTE clientsession: a divergence did not reproduce on a fresh connection and is not reported: %s\n", what)
					}
					break
				}
			}
			if c != nil {
				c.discard()
			}
		}(w)
	}
	wg.Wait()
	for _, e := range g.edges {
		if e.ran {
			st.edges++
		}
	}
	return st
}

// ------------------------------------------------------- walks (code -> spec)

// csWalk drives random API calls against a peer that is a small conforming
// server choosing its replies at random, without consulting the specification,
// and returns the recorded events.
//
// script: when not nil the calls and decisions of an earlier walk are executed
// again instead of new ones being drawn (confirmation of a rejected walk on a
// fresh connection with generous time-outs).
func csWalk(lmtp bool, rng *rand.Rand, steps int, script []*csLabel, sub time.Duration) ([]map[string]interface{}, []*csLabel) {
	var labels []*csLabel
	c := newCsConn(lmtp, sub)
	defer c.discard()
	var evs []map[string]interface{}
	evs = append(evs, map[string]interface{}{"ev": "reset", "lmtp": lmtp})
	// the peer's own view
	greeted, txn := false, false
	var list []string
	dwOpen, stuck, closed := false, false, false
	hasWriter := false
	sets := [][]string{{}, {"8BITMIME", "SIZE"}, {"SMTPUTF8"}, {"8BITMIME", "SIZE", "SMTPUTF8"}}
	pick := func(xs ...string) string { return xs[rng.Intn(len(xs))] }
	for i := 0; i < steps; i++ {
		l := &csLabel{Dec: csDec{G: "-", E: "-", Es: []string{}, F: "-", C: "-"}, Args: []string{}}
		if script != nil {
			if i >= len(script) {
				break
			}
			cp := *script[i]
			l = &cp
		}
		labels = append(labels, func() *csLabel { cp := *l; return &cp }())
		var calls []string
		if script == nil {
			switch {
			case dwOpen:
				calls = []string{"WClose", "WClose", "WClose", "Close"}
			case stuck && !hasWriter:
				calls = []string{"Close"}
			case stuck:
				calls = []string{"WClose", "Close"}
			default:
				calls = []string{"Noop", "Verify", "Reset", "Quit", "Hello", "Extension", "Mail", "Mail", "SendMail", "Close", "BadArg"}
				if greeted {
					calls = append(calls, "Rcpt", "Rcpt", "Rcpt", "Data", "Data", "LMTPData")
				}
				if hasWriter {
					calls = append(calls, "WClose")
				}
			}
			l.Call = calls[rng.Intn(len(calls))]
			if l.Call == "Close" && rng.Intn(4) != 0 && !(stuck && !hasWriter) {
				l.Call = "Noop"
				if dwOpen || stuck {
					l.Call = "WClose"
				}
			}
			if (l.Call == "Mail" || l.Call == "SendMail") && txn {
				l.Call = "Rcpt" // discipline: no nested MAIL
				if !greeted {
					l.Call = "Noop"
				}
			}
			switch l.Call {
			case "BadArg":
				l.Call = pick("Hello", "Verify", "Mail", "Rcpt")
				l.Args = []string{"crlf"}
			case "Hello":
				l.Args = []string{"custom"}
			case "Extension":
				l.Args = []string{pick("8BITMIME", "SIZE", "SMTPUTF8")}
			case "Mail":
				l.Args = []string{pick("utf8", "ascii"), pick("size", "nosize")}
			case "Rcpt":
				l.Args = []string{pick("a", "b", "c", "d")}
			case "SendMail":
				l.Args = [][]string{{"a"}, {"a", "b"}}[rng.Intn(2)]
				l.Cs = []string{pick("250", "250", "250", "550")}
				for range l.Args {
					l.Cs = append(l.Cs, pick("250", "250", "250", "550"))
				}
				l.Cs = append(l.Cs, pick("354", "354", "354", "554"))
				n := 1
				if lmtp {
					n = len(l.Args)
				}
				for j := 0; j < n; j++ {
					if lmtp {
						l.V = append(l.V, pick("250", "250", "550", "421"))
					} else {
						l.V = append(l.V, pick("250", "554"))
					}
				}
				if rng.Intn(12) == 0 {
					l.V = []string{"stall"}
				}
			}
			// decisions: chosen for every class of line the call might write
			l.Dec.G = pick("220", "220", "220", "554")
			l.Dec.E = pick("250", "250", "250", "250", "500", "502", "550")
			l.Dec.Es = sets[rng.Intn(len(sets))]
			l.Dec.F = pick("250", "250", "550")
			switch l.Call {
			case "Noop":
				l.Dec.C = pick("250", "250", "502")
			case "Verify":
				l.Dec.C = pick("250", "550")
			case "Reset":
				l.Dec.C = pick("250", "250", "250", "502")
			case "Quit":
				l.Dec.C = pick("221", "221", "502")
			}
			switch l.Call {
			case "Noop", "Verify", "Reset", "Quit":
				if len(l.Args) == 0 && rng.Intn(15) == 0 {
					l.Dec.C = "stall"
				}
			case "Mail":
				l.Dec.C = pick("250", "250", "250", "451", "550")
			case "Rcpt":
				if !txn {
					l.Dec.C = "503"
				} else {
					l.Dec.C = pick("250", "250", "251", "550")
				}
			case "Data", "LMTPData":
				if len(list) == 0 {
					l.Dec.C = "503"
				} else {
					l.Dec.C = pick("354", "354", "354", "554")
				}
			}
			if l.Call == "WClose" && dwOpen {
				n := 1
				if lmtp {
					n = len(list)
				}
				for j := 0; j < n; j++ {
					if lmtp {
						l.V = append(l.V, pick("250", "250", "550", "421"))
					} else {
						l.V = append(l.V, pick("250", "554"))
					}
				}
				if rng.Intn(12) == 0 {
					l.V = []string{"stall"}
				}
			}
		}
		if script == nil {
			cp := *l
			labels[len(labels)-1] = &cp
		}
		greetingPending := !greeted && !closed
		c.fake.set(l.Dec, l.V, l.Cs)
		// the greeting is on the wire from the start in reality; here it is
		// sent when the first call that can read it begins
		sentGreeting := false
		if greetingPending && l.Call != "Close" && !(len(l.Args) > 0 && l.Args[0] == "crlf") && l.Call != "Rcpt" && l.Call != "Data" && l.Call != "LMTPData" && l.Call != "WClose" {
			c.fake.greet(l.Dec.G)
			sentGreeting = true
			if l.Dec.G == "220" {
				greeted = true
			} else {
				closed = true
			}
		}
		res, returned := c.call(l)
		if !returned {
			evs = append(evs, map[string]interface{}{"ev": "hang", "call": l.Call})
			return evs, labels
		}
		got, _ := c.fake.taken()
		lines := [][]string{}
		ci := 0
		for _, x := range got {
			t := csTokens(x)
			lines = append(lines, t)
			if len(l.Cs) > 0 && t[0] != "EHLO" && t[0] != "LHLO" && t[0] != "HELO" && t[0] != "BODY" {
				if ci < len(l.Cs) {
					l.Dec.C = l.Cs[ci]
				}
				ci++
			}
			// the peer's view follows what it answered
			switch t[0] {
			case "EHLO", "LHLO":
				if l.Dec.E == "250" {
					txn, list = false, nil
				}
			case "HELO":
				if l.Dec.F == "250" {
					txn, list = false, nil
				}
			case "MAIL":
				if l.Dec.C == "250" {
					txn, list = true, nil
				}
			case "RCPT":
				if l.Dec.C == "250" || l.Dec.C == "251" {
					list = append(list, t[1])
				}
			case "RSET":
				if l.Dec.C == "250" {
					txn, list = false, nil
				}
			case "DATA":
				if l.Dec.C == "354" && l.Call != "SendMail" {
					dwOpen, hasWriter = true, true
				}
			case "BODY":
				dwOpen, txn, list = false, false, nil
				if len(l.V) == 1 && l.V[0] == "stall" {
					stuck = true
				}
			case "QUIT":
				if l.Dec.C == "221" {
					closed = true
				}
			}
			switch t[0] {
			case "NOOP", "VRFY", "RSET", "QUIT":
				if l.Dec.C == "stall" {
					stuck = true
				}
			}
		}
		if l.Call == "Close" {
			closed = true
		}
		g, h, ext, name, rcpts := csProj(c.cl)
		cbs := [][]string{}
		if l.Call == "WClose" && c.cbs != nil {
			cbs = c.cbs
		}
		used := csDec{G: "-", E: "-", Es: []string{}, F: "-", C: "-"}
		if sentGreeting {
			used.G = l.Dec.G
		}
		evs = append(evs, map[string]interface{}{"ev": "step", "call": l.Call, "args": l.Args, "lines": lines, "res": res,
			"cbs": cbs, "g": g, "h": h, "ext": ext, "name": name, "rcpts": rcpts, "greeted": sentGreeting, "gcode": used.G})
		if closed && script == nil && rng.Intn(3) == 0 {
			return evs, labels
		}
	}
	return evs, labels
}

func clientSessionEngine(run *evid.Run, tier string) map[string]interface{} {
	cov := map[string]interface{}{}
	if pf := os.Getenv("VERIF_CS_CPUPROFILE"); pf != "" {
		if f, err := os.Create(pf); err == nil {
			pprof.StartCPUProfile(f)
			defer pprof.StopCPUProfile()
		}
	}
	var states, trans int64
	for _, f := range []string{"smtp", "lmtp"} {
		mc := modelCheck("MC_ClientSession", "MC_ClientSession_"+f+".cfg", 8)
		states += mc.Distinct
		trans += mc.Generated
	}
	seed := evid.Seed()
	var wg sync.WaitGroup
	stats := make([]csStats, 2)
	graphs := make([]*csGraph, 2)
	for i, f := range []string{"smtp", "lmtp"} {
		graphs[i] = loadCsGraph(f)
	}
	for i := range graphs {
		if os.Getenv("VERIF_CS_SKIP_TOURS") != "" {
			break // development aid
		}
		wg.Add(1)
		go func(i int) {
			defer wg.Done()
			n := 0
			stats[i] = csTour(run, graphs[i], 8, func(e *csEdge) bool {
				n++
				if tier == "thorough" {
					return true
				}
				rot := func(k int64) bool { return (int64(n)+seed)%k == 0 }
				if len(e.Lbl.V) == 1 && e.Lbl.V[0] == "stall" {
					if e.Lbl.Call == "SendMail" {
						return rot(30) // (there are thousands of them, one real time-out each)
					}
					return rot(3) // a third of the time-out edges in the quick tier
				}
				if e.Lbl.Dec.C == "stall" {
					return rot(24) // commands that are never answered (CommandTimeout)
				}
				// quick tier: the calls that carry this property's clauses are toured
				// completely, the others are sampled (and still executed on the way)
				core := map[string]map[string]int64{
					"C15": {"Mail": 1, "Hello": 1, "Reset": 1, "Rcpt": 1, "SendMail": 4},
					"C16": {"WClose": 1, "Data": 1, "LMTPData": 1, "Close": 1, "SendMail": 2},
					"C18": {"WClose": 1, "LMTPData": 1, "Data": 1, "Rcpt": 1, "Mail": 2, "Reset": 1, "SendMail": 2},
				}[run.Prop]
				if run.Prop == "C18" && !e.Lmtp {
					return rot(8)
				}
				if k, ok := core[e.Lbl.Call]; ok {
					return rot(k)
				}
				return rot(6)
			})
		}(i)
	}
	wg.Wait()
	// walks
	nwalks := 150
	if tier == "thorough" {
		nwalks = 1500
	}
	rng := rand.New(rand.NewSource(seed*7919 + 11))
	var nd strings.Builder
	nev := 0
	var walks [][]map[string]interface{}
	var scripts [][]*csLabel
	for i := 0; i < nwalks; i++ {
		evs, labels := csWalk(i%2 == 1, rng, 25, nil, time.Second)
		walks = append(walks, evs)
		scripts = append(scripts, labels)
		for _, e := range evs {
			b, _ := json.Marshal(e)
			nd.Write(b)
			nd.WriteByte('\n')
			nev++
		}
	}
	rejected := csValidateWalks(run, walks, scripts, nd.String(), nev)
	cov["clientsession_states"] = states
	cov["clientsession_transitions"] = trans
	cov["clientsession_edges_replayed"] = stats[0].edges + stats[1].edges
	cov["clientsession_edges_total"] = len(graphs[0].edges) + len(graphs[1].edges)
	cov["clientsession_steps"] = stats[0].steps + stats[1].steps
	cov["clientsession_connections"] = stats[0].conns + stats[1].conns
	cov["clientsession_walks"] = nwalks
	cov["clientsession_walk_events"] = nev
	cov["clientsession_walks_rejected"] = rejected
	fmt.Printf("clientsession: ClientSession.tla %d states / %d transitions; %d of %d edges replayed on the real Client (%d steps, %d connections); %d random API walks (%d events) validated by TLC, %d rejected\n",
		states, trans, stats[0].edges+stats[1].edges, len(graphs[0].edges)+len(graphs[1].edges), stats[0].steps+stats[1].steps, stats[0].conns+stats[1].conns, nwalks, nev, rejected)
	return cov
}

// csValidateWalks lets TLC explain the recorded walks; a walk whose events are
// not all explained is reported with the first unexplained event.
func csValidateWalks(run *evid.Run, walks [][]map[string]interface{}, scripts [][]*csLabel, nd string, nev int) int {
	rejected := 0
	// all walks of a flavour at once first; on rejection, each walk alone
	allOK := true
	for _, lmtp := range []bool{false, true} {
		var sb strings.Builder
		n := 0
		for _, w := range walks {
			if w[0]["lmtp"] != lmtp {
				continue
			}
			for _, e := range w {
				b, _ := json.Marshal(e)
				sb.Write(b)
				sb.WriteByte('\n')
				n++
			}
		}
		if n == 0 {
			continue
		}
		if ok, _ := csValidate(lmtp, sb.String(), n); !ok {
			allOK = false
		}
	}
	if allOK {
		return 0
	}
	for wi, w := range walks {
		enc := func(w []map[string]interface{}) string {
			var sb strings.Builder
			for _, e := range w {
				b, _ := json.Marshal(e)
				sb.Write(b)
				sb.WriteByte('\n')
			}
			return sb.String()
		}
		ok, hwm := csValidate(w[0]["lmtp"] == true, enc(w), len(w))
		if ok {
			continue
		}
		// the same calls and decisions again on a fresh connection with generous
		// time-outs: only a rejection that repeats is reported
		w2, _ := csWalk(w[0]["lmtp"] == true, nil, len(scripts[wi]), scripts[wi], 4*time.Second)
		if ok2, hwm2 := csValidate(w[0]["lmtp"] == true, enc(w2), len(w2)); ok2 {
			fmt.Printf("NOTE clientsession: a rejected walk was accepted when repeated and is not reported\n")
			continue
		} else {
			w, hwm = w2, hwm2
		}
		rejected++
		if rejected > 6 {
			continue
		}
		// hwm is the index of the next event to consume that was reached
		bad := hwm - 1
		if bad < 0 || bad >= len(w) {
			bad = len(w) - 1
		}
		ev := w[bad]
		call := fmt.Sprint(ev["call"])
		props := []string{"C15"}
		if call == "WClose" {
			props = []string{"C16", "C18"}
		}
		if ev["ev"] == "hang" {
			props = []string{"C15", "C16", "C18"}
		}
		b, _ := json.Marshal(ev)
		for _, p := range props {
			run.Report(evid.Div{Prop: p, Key: fmt.Sprintf("clientsession:walk:%s", call),
				Msg:    fmt.Sprintf("random API walk: event %d is not a behaviour ClientSession.tla allows after the %d events before it: %s", bad+1, bad, b),
				Replay: map[string]interface{}{"engine": "clientsession-walk", "events": w[:bad+1]}})
		}
	}
	return rejected
}

func csValidate(lmtp bool, nd string, nev int) (bool, int) {
	cfg := "Trace_ClientSession_smtp.cfg"
	if lmtp {
		cfg = "Trace_ClientSession_lmtp.cfg"
	}
	res, err := tlcrun.Run("Trace_ClientSession", cfg, tlcrun.Opts{Workers: 1, Tags: []string{"HWM"}, Files: map[string][]byte{"cs_trace.ndjson": []byte(nd)}})
	if res == nil || len(res.Tagged["HWM"]) == 0 {
		evid.Inconclusive("Trace_ClientSession gave no verdict: %v\n%s", err, func() string {
			if res != nil {
				return res.Output
			}
			return ""
		}())
	}
	hwm := 0
	fmt.Sscan(strings.Trim(res.Tagged["HWM"][len(res.Tagged["HWM"])-1], "\""), &hwm)
	return hwm == nev+1 && res.OK, hwm
}
