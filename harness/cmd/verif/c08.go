package main

import (
	"fmt"
	"strings"
	"time"

	"verifharness/drv"
	"verifharness/evid"
	"verifharness/sessrep"
)

// leftBehind returns the stacks of goroutines that still serve a connection.
func leftBehind() string {
	var dump string
	for dl := time.Now().Add(2 * time.Second); ; {
		dump = ""
		for _, g := range strings.Split(drv.GoroutineDump("github.com/emersion/go-smtp."), "\n\n") {
			if strings.Contains(g, "go-smtp.(*Conn).") || strings.Contains(g, ").handleConn(") {
				dump += g + "\n\n"
			}
		}
		if dump == "" || time.Now().After(dl) {
			return dump
		}
		time.Sleep(200 * time.Microsecond)
	}
}

func init() {
	checks["C08"] = func(tier string) {
		run := evid.NewRun("C08", tier)
		mc := modelCheck("MC_Session", "MC_Session.cfg", 16)
		gs := dumpEdges("MC_Session", "Dump_Session.cfg")
		emc := modelCheck("MC_Err", "MC_Err.cfg", 16)
		mc.Distinct += emc.Distinct
		mc.Generated += emc.Generated
		gs = append(gs, dumpEdges("MC_Err", "Dump_Err.cfg")...)
		// spec -> code: every edge that ends the connection (QUIT, 4th error,
		// over-long line, panic, peer EOF, cuts), each with commands already
		// pipelined behind it, and every edge that involves a Logout
		st := tourSome(run, gs, func(e *sessrep.Edge) bool {
			if e.Dst.Closed {
				return true
			}
			for _, cb := range e.Lbl.Cbs {
				if cb.N == "Logout" || cb.N == "NewSession" {
					return true
				}
			}
			return false
		})
		// TLS family: STARTTLS logs the plaintext session out
		amc := modelCheck("MC_Auth", "MC_Auth.cfg", 16)
		ags := dumpEdges("MC_Auth", "Dump_Auth.cfg")
		ast := tourSome(run, ags, func(e *sessrep.Edge) bool {
			if e.Dst.Closed || e.Lbl.Cmd.C == "STARTTLS" {
				return true
			}
			return false
		})
		// idle timeout as the close reason (each such edge costs a real ReadTimeout)
		imc := modelCheck("MC_Idle", "MC_Idle.cfg", 8)
		mc.Distinct += imc.Distinct
		mc.Generated += imc.Generated
		ist := tourSome(run, dumpEdges("MC_Idle", "Dump_Idle.cfg"), func(e *sessrep.Edge) bool {
			if e.Lbl.Cmd.C != "IDLE" {
				return false
			}
			if e.Lbl.Cmd.A == "auth" {
				return true // silence inside a SASL exchange: few edges, all of them
			}
			return tier == "thorough" || e.ID%4 == 1 // quick: a quarter of them
		})
		st.Covered += ist.Covered
		st.Edges += ist.Edges
		st.Convs += ist.Convs
		// cut sweep, one server at a time, with a goroutine census after each conversation set
		per, maxLen := 2, 10
		if tier == "thorough" {
			per, maxLen = 25, 16
		}
		leaks := 0
		convs, paths, samples := cutSweepAll(run, gs, per, maxLen, true, func(srv *drv.Server, g *sessrep.Graph) {
			if d := leftBehind(); d != "" {
				leaks++
				run.Report(evid.Div{Prop: "C08", Key: "goroutine-left-behind:" + firstFunc(d), Msg: "after every connection of the sweep had ended a goroutine serving a connection is still alive:\n" + d,
					Replay: map[string]interface{}{"engine": "cut", "cfg": g.Cfg}})
			}
		})
		// code -> spec
		var cfgs []sessrep.CfgRec
		for _, g := range gs {
			cfgs = append(cfgs, g.Cfg)
		}
		perCfg, steps := 10, 40
		if tier == "thorough" {
			perCfg, steps = 100, 60
		}
		walks := walkAll(run, cfgs, perCfg, steps)
		vs, err := sessrep.ValidateWalks(run, walks, 1)
		if err != nil {
			evid.Inconclusive("trace validation: %v", err)
		}
		// the repository's own tests, run with the verif tag: observer invariants on every connection
		rc, rev := repoTestTraces(run, map[string]bool{"C08": true})
		fmt.Printf("C08: %d connections (%d hook events) of the repository's own test suite validated by TLC against the observer invariants\n", rc, rev)
		// a connection that is closed while its session is still being created: whatever
		// session the backend then returns gets its one Logout
		nns := 0
		for _, lm := range []bool{false, true} {
			for _, how := range []string{"server-close", "reject"} {
				nns++
				if msg := closeDuringNewSession(lm, how); msg != "" {
					run.Report(evid.Div{Prop: "C08", Key: "newsession-window:" + how, Msg: fmt.Sprintf("connection closed (%s, lmtp=%v) while NewSession was running: %s", how, lm, msg), Replay: map[string]interface{}{"engine": "newsession-window", "how": how, "lmtp": lm}})
				}
			}
		}
		fmt.Printf("C08: %d scenarios with the connection closed during NewSession\n", nns)
		// the delivery goroutine held before it calls the backend: no callback begins after Logout
		mcv := modelCheck("Verdict", "MC_Verdict.cfg", 4)
		nl := lateStartFamily(run)
		fmt.Printf("C08: Verdict.tla %d states; %d late-start schedules (delivery goroutine held at its start) judged by TLC\n", mcv.Distinct, nl)
		fmt.Printf("C08: TLC %d+%d states; %d/%d closing/logout edges replayed (+%d/%d TLS family); %d conversations cut at every octet (%d cut points), goroutine census after each; %d walks validated\n",
			mc.Distinct, amc.Distinct, st.Covered, st.Edges, ast.Covered, ast.Edges, paths, convs, vs.Walks)
		run.Finish("model_checking", evid.Coverage{
			"states": mc.Distinct + amc.Distinct, "transitions": mc.Generated + amc.Generated,
			"traces_validated_against_impl": st.Convs + ast.Convs + convs + vs.Walks,
			"closing_edges_replayed":        st.Covered + ast.Covered, "closing_edges": st.Edges + ast.Edges,
			"conversations_swept": paths, "cut_points": convs, "goroutine_census_failures": leaks,
			"recorded_walks_validated": vs.Walks, "repo_test_connections_validated": rc, "repo_test_hook_events": rev,
			"late_start_schedules": nl, "verdict_model_states": mcv.Distinct,
			"samples": samples, "checker_cmd": mc.Cmd,
		}, []string{"every closing step is sent with three more commands pipelined behind it in the same segment",
			"in the ordinary engines the command loop is held (gate bdat-spawned) until a launched delivery has begun its Data callback; the opposite schedule - the goroutine not scheduled until the transfer or the session has ended - is the late-start family (Verdict.tla), a known finding",
			"Logout after a concurrent Server.Close is the lifecycle family (C20)"})
	}
}

func firstFunc(dump string) string {
	for _, l := range strings.Split(dump, "\n") {
		if strings.Contains(l, "go-smtp.") {
			if i := strings.LastIndexByte(l, '('); i > 0 {
				return strings.TrimSpace(l[:i])
			}
		}
	}
	return "?"
}

// closeDuringNewSession: the connection ends (Server.Close from outside, or the
// backend calling Conn.Reject itself) while Backend.NewSession has not returned;
// the session it returns afterwards must be logged out exactly once.
func closeDuringNewSession(lmtp bool, how string) string {
	srv := drv.Start(drv.Cfg{LMTP: lmtp, MaxLine: 2000})
	defer srv.Stop()
	cn, err := srv.Dial()
	if err != nil {
		return "dial: " + err.Error()
	}
	defer cn.Close()
	cn.Output()
	be := srv.BE
	be.Lock()
	if how == "reject" {
		be.NewSessionReject = true
	} else {
		be.NewSessionGate = "ns"
	}
	be.Unlock()
	if how != "reject" {
		be.Hold("ns")
	}
	hello := "EHLO w.test\r\n"
	if lmtp {
		hello = "LHLO w.test\r\n"
	}
	cn.Send([]byte(hello))
	if how != "reject" {
		for dl := time.Now().Add(3 * time.Second); be.Parked("ns") == 0 && time.Now().Before(dl); {
			time.Sleep(200 * time.Microsecond)
		}
		if be.Parked("ns") == 0 {
			return "NewSession was never called"
		}
		done := make(chan struct{})
		go func() { srv.S.Close(); close(done) }()
		select {
		case <-done:
		case <-time.After(3 * time.Second):
			be.Release("ns")
			return "Server.Close did not return while NewSession was running"
		}
		be.Release("ns")
	}
	// the handler ends; count the callbacks on the session
	for dl := time.Now().Add(3 * time.Second); !cn.Ended() && time.Now().Before(dl); {
		time.Sleep(time.Millisecond)
	}
	time.Sleep(5 * time.Millisecond)
	created, logouts := 0, 0
	for _, c := range be.Calls() {
		if c.Name == "NewSession" && c.Sess != 0 {
			created++
		}
		if c.Name == "Logout" {
			logouts++
		}
	}
	if !cn.Ended() {
		return "the connection's handler did not end"
	}
	if created != 1 || logouts != 1 {
		return fmt.Sprintf("%d session(s) returned by the backend, %d Logout call(s)", created, logouts)
	}
	return ""
}
