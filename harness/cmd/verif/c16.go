package main

import (
	"bytes"
	"encoding/json"
	"fmt"
	"math/rand"
	"strings"
	"sync"
	"time"

	smtp "github.com/emersion/go-smtp"

	"verifharness/drv"
	"verifharness/evid"
	"verifharness/rec"
	"verifharness/tlcrun"
)

type c16Case struct {
	Body     []string `json:"body"`
	Received []string `json:"received"`
	Lmtp     bool     `json:"lmtp"`
	Reject   bool     `json:"reject"`
	Part     string   `json:"partition"`
	Prior    string   `json:"prior,omitempty"` // an earlier message on the same connection: "", "accepted", "refused"
	Slow     bool     `json:"slow,omitempty"`  // the writer pauses for longer than the client's command timeout
	concrete []byte
}

func c16Concrete(toks []string, rot int) []byte {
	var b []byte
	others := []byte{'a', 0x80, 0xff, ' ', 0x00, 'Z', '\t', ':'}
	for i, t := range toks {
		switch t {
		case "d":
			b = append(b, '.')
		case "l":
			b = append(b, '\n')
		case "n":
			b = append(b, '\r', '\n')
		default:
			b = append(b, others[(rot+i)%len(others)])
		}
	}
	return b
}

func classesOf(b []byte) []string {
	out := []string{}
	for _, c := range b {
		switch c {
		case '.':
			out = append(out, "d")
		case '\r':
			out = append(out, "c")
		case '\n':
			out = append(out, "l")
		default:
			out = append(out, "o")
		}
	}
	return out
}

func (c *c16Case) run(idx int, rng *rand.Rand) (string, error) {
	// a seventh of the cases: the server's size limit is exactly the size of the
	// message as it is to arrive (dot-stuffing is transport, it does not count),
	// and the backend reads in small pieces
	var limit int64
	if idx%7 == 3 && len(c.concrete) > 0 && c.Prior == "" {
		n := 0
		for i, b := range c.concrete {
			if b == '\n' && (i == 0 || c.concrete[i-1] != '\r') {
				n++ // bare LF becomes CRLF
			}
			n++
		}
		if !bytes.HasSuffix(c.concrete, []byte("\n")) {
			n += 2 // a final CRLF is ensured
		}
		limit = int64(n)
	}
	srv := drv.Start(drv.Cfg{LMTP: c.Lmtp, MaxLine: 2000, MaxBytes: limit})
	defer srv.Stop()
	cn, err := srv.Dial()
	if err != nil {
		return "", err
	}
	defer cn.Close()
	plan := rec.DataPlan{}
	if limit > 0 {
		plan.Buf = 3
		plan.Propagate = true
	}
	marker := fmt.Sprintf("refused-%d", idx)
	if c.Reject {
		plan.Err = &smtp.SMTPError{Code: 554, EnhancedCode: smtp.EnhancedCode{5, 6, 0}, Message: marker}
	}
	srv.BE.Lock()
	srv.BE.DataPlans = []rec.DataPlan{plan}
	if c.Prior != "" {
		pp := rec.DataPlan{}
		if c.Prior == "refused" {
			pp.Err = &smtp.SMTPError{Code: 554, EnhancedCode: smtp.EnhancedCode{5, 6, 0}, Message: "earlier message refused"}
		}
		srv.BE.DataPlans = []rec.DataPlan{pp, plan}
	}
	srv.BE.Unlock()
	var cl *smtp.Client
	if c.Lmtp {
		cl = smtp.NewClientLMTP(cn.Raw)
	} else {
		cl = smtp.NewClient(cn.Raw)
	}
	cl.CommandTimeout = 3 * time.Second
	cl.SubmissionTimeout = 3 * time.Second
	pause := func() {}
	if c.Slow {
		// the time allowed for a command's reply is not a limit on how long the
		// application may take to produce the message
		cl.CommandTimeout = 150 * time.Millisecond
		pause = func() { time.Sleep(260 * time.Millisecond) }
	}
	from := fmt.Sprintf("from%d@x.test", idx)
	to := []string{fmt.Sprintf("to%d@x.test", idx), "second@x.test"}
	if idx%3 == 1 {
		// every atext character is allowed in a local part, '%' (the percent hack) and the rest
		from = "fr%om%%x+tag=" + fmt.Sprint(idx) + "!#$&'*/?^_`{|}~@x.test"
		to = []string{"user%host" + fmt.Sprint(idx) + "@relay.test", "100%@x.test"}
	}
	refuseOne := idx%4 == 2 && c.Prior == ""
	if refuseOne {
		srv.BE.Lock()
		srv.BE.RcptErrs = []error{&smtp.SMTPError{Code: 550, EnhancedCode: smtp.EnhancedCode{5, 1, 1}, Message: "no such user"}}
		srv.BE.Unlock()
	}
	res := make(chan string, 1)
	go func() {
		if c.Prior != "" {
			// an earlier message with its own envelope; the client goes straight on to the next one
			if err := cl.Mail("earlier@x.test", nil); err != nil {
				res <- "Mail (earlier message): " + err.Error()
				return
			}
			if err := cl.Rcpt("bob@x.test", nil); err != nil {
				res <- "Rcpt (earlier message): " + err.Error()
				return
			}
			w, err := cl.Data()
			if err != nil {
				res <- "Data (earlier message): " + err.Error()
				return
			}
			w.Write([]byte("earlier\r\n"))
			if cerr := w.Close(); (cerr != nil) != (c.Prior == "refused") {
				res <- fmt.Sprintf("Close of the earlier message (%s) returned %v", c.Prior, cerr)
				return
			}
		}
		if err := cl.Mail(from, nil); err != nil {
			res <- "Mail: " + err.Error()
			return
		}
		if refuseOne {
			// a recipient the server refuses is not part of the transaction
			if err := cl.Rcpt("nobody@x.test", nil); err == nil {
				res <- "Rcpt(nobody@x.test): the server's refusal was not reported"
				return
			}
		}
		for _, t := range to {
			if err := cl.Rcpt(t, nil); err != nil {
				res <- "Rcpt: " + err.Error()
				return
			}
		}
		w, err := cl.Data()
		if err != nil {
			res <- "Data: " + err.Error()
			return
		}
		body := c.concrete
		pause()
		switch c.Part {
		case "whole":
			w.Write(body)
		case "bytewise":
			for i := range body {
				w.Write(body[i : i+1])
			}
		default:
			if len(body) > 1 {
				k := 1 + rng.Intn(len(body)-1)
				w.Write(body[:k])
				pause()
				w.Write(body[k:])
			} else {
				w.Write(body)
			}
		}
		cerr := w.Close()
		if c.Reject {
			se, ok := cerr.(*smtp.SMTPError)
			if !ok || se.Code != 554 || !strings.Contains(se.Message, marker) {
				res <- fmt.Sprintf("Close returned %v, the server's verdict for this message was 554 %s", cerr, marker)
				return
			}
		} else if cerr != nil {
			res <- fmt.Sprintf("Close returned %v, the server accepted the message", cerr)
			return
		}
		// Close again: an error, and no second exchange with the server
		if err2 := w.Close(); err2 == nil {
			res <- "second Close returned nil"
			return
		}
		if err := cl.Noop(); err != nil {
			res <- fmt.Sprintf("after a second Close the next command is answered %v: something extra was sent to the server", err)
			return
		}
		res <- ""
	}()
	var msg string
	select {
	case msg = <-res:
	case <-time.After(10 * time.Second):
		return "client did not finish", nil
	}
	if msg != "" {
		return msg, nil
	}
	cn.WaitIdle()
	calls := srv.BE.Calls()
	// the envelope as a backend sees it that keeps sender and recipients until
	// it is told the transaction is over (Reset / Logout), at the moment the
	// last message is handed over
	var gotFrom, curFrom string
	var gotTo, curTo []string
	var data []byte
	ends := 0
	for _, cl := range calls {
		switch {
		case cl.Name == "Mail":
			curFrom = cl.From
		case cl.Name == "Rcpt":
			if cl.Err == "" {
				curTo = append(curTo, cl.To)
			}
		case cl.Name == "Reset" || cl.Name == "Logout":
			curFrom, curTo = "", nil
		case cl.Phase == "begin":
			gotFrom, gotTo = curFrom, append([]string{}, curTo...)
		case cl.Phase == "end":
			data = cl.Data
			ends++
			if cl.ReadErr != "EOF" {
				return "backend reader ended with " + cl.ReadErr, nil
			}
		}
	}
	wantEnds := 1
	if c.Prior != "" {
		wantEnds = 2
	}
	if ends != wantEnds {
		return fmt.Sprintf("%d Data callbacks", ends), nil
	}
	if gotFrom != from || strings.Join(gotTo, ",") != strings.Join(to, ",") {
		return fmt.Sprintf("envelope at the backend when the message is handed over: from %q to %v, given %q %v", gotFrom, gotTo, from, to), nil
	}
	c.Received = classesOf(data)
	// the "other" octets must be the original ones, in order
	var wantO, gotO []byte
	for _, b := range c.concrete {
		if b != '.' && b != '\r' && b != '\n' {
			wantO = append(wantO, b)
		}
	}
	for _, b := range data {
		if b != '.' && b != '\r' && b != '\n' {
			gotO = append(gotO, b)
		}
	}
	if !bytes.Equal(wantO, gotO) {
		return fmt.Sprintf("octets changed: wrote %q, backend read %q", c.concrete, data), nil
	}
	return "", nil
}

func init() {
	checks["C16"] = func(tier string) {
		run := evid.NewRun("C16", tier)
		cfg, maxLen, nRandom := "MC_DotEnc.cfg", 5, 200
		if tier == "thorough" {
			cfg, maxLen, nRandom = "MC_DotEnc_thorough.cfg", 7, 5000
		}
		mc := modelCheck("DotEnc", cfg, 16)
		var bodies [][]string
		var gen func(cur []string)
		gen = func(cur []string) {
			bodies = append(bodies, append([]string{}, cur...))
			if len(cur) == maxLen {
				return
			}
			for _, t := range []string{"d", "l", "n", "o"} {
				gen(append(cur, t))
			}
		}
		gen(nil)
		rng := rand.New(rand.NewSource(run.Seed))
		for i := 0; i < nRandom; i++ {
			n := 8 + rng.Intn(60)
			b := make([]string, n)
			for j := range b {
				b[j] = []string{"d", "l", "n", "o", "o", "d"}[rng.Intn(6)]
			}
			bodies = append(bodies, b)
		}
		parts := []string{"whole", "split", "bytewise"}
		var cases []*c16Case
		for i, b := range bodies {
			cases = append(cases, &c16Case{Body: b, Lmtp: i%4 == 1, Reject: i%3 == 1, Part: parts[i%3], Prior: []string{"", "", "accepted", "refused", "refused"}[i%5], Slow: i%97 == 5, concrete: c16Concrete(b, i)})
			if len(b) <= 3 {
				// short bodies: every combination
				for _, lm := range []bool{false, true} {
					for _, rj := range []bool{false, true} {
						for _, p := range parts {
							cases = append(cases, &c16Case{Body: b, Lmtp: lm, Reject: rj, Part: p, concrete: c16Concrete(b, i)})
						}
					}
				}
			}
		}
		var mu sync.Mutex
		var wg sync.WaitGroup
		sem := make(chan struct{}, 16)
		var good []*c16Case
		var firstErr error
		for i, c := range cases {
			wg.Add(1)
			go func(i int, c *c16Case) {
				defer wg.Done()
				sem <- struct{}{}
				defer func() { <-sem }()
				msg, err := c.run(i, rand.New(rand.NewSource(run.Seed*31+int64(i))))
				mu.Lock()
				defer mu.Unlock()
				if err != nil {
					if firstErr == nil {
						firstErr = err
					}
					return
				}
				if msg != "" {
					kind := msg
					if j := strings.IndexAny(msg, ":,"); j > 0 {
						kind = msg[:j]
					}
					if len(kind) > 40 {
						kind = kind[:40]
					}
					run.Report(evid.Div{Prop: "C16", Key: fmt.Sprintf("c16:%s:lmtp=%v:reject=%v", kind, c.Lmtp, c.Reject),
						Msg: fmt.Sprintf("body %q written %s (lmtp=%v, server rejects=%v): %s", c.concrete, c.Part, c.Lmtp, c.Reject, msg), Replay: map[string]interface{}{"engine": "c16", "case": c, "body": c.concrete}})
					return
				}
				good = append(good, c)
			}(i, c)
		}
		wg.Wait()
		if firstErr != nil {
			evid.Inconclusive("C16: %v", firstErr)
		}
		var nd strings.Builder
		for _, c := range good {
			b, _ := json.Marshal(c)
			nd.Write(b)
			nd.WriteByte('\n')
		}
		nbad := 0
		if len(good) > 0 {
			res, err := tlcrun.Run("Trace_DotEnc", "Trace_DotEnc.cfg", tlcrun.Opts{Workers: 1, Tags: []string{"BADCASES", "NCASES"}, Files: map[string][]byte{"cases.ndjson": []byte(nd.String())}})
			if res == nil || len(res.Tagged["BADCASES"]) == 0 || len(res.Tagged["NCASES"]) == 0 || res.Tagged["NCASES"][0] != fmt.Sprint(len(good)) {
				evid.Inconclusive("Trace_DotEnc gave no verdict: %v\n%s", err, tailOut(res))
			}
			var bad []int
			json.Unmarshal([]byte(res.Tagged["BADCASES"][0]), &bad)
			nbad = len(bad)
			for _, i := range bad {
				c := good[i-1]
				run.Report(evid.Div{Prop: "C16", Key: fmt.Sprintf("c16:normalize:%s", strings.Join(c.Body[:min(len(c.Body), 5)], "")),
					Msg: fmt.Sprintf("body %q (tokens %v) written %s: the backend read classes %v, DotEnc.tla requires Normalize(body)", c.concrete, c.Body, c.Part, c.Received), Replay: map[string]interface{}{"engine": "c16", "case": c, "body": c.concrete}})
			}
		}
		fmt.Printf("C16: DotEnc.tla %d states (encode/decode theorem up to the bound); %d messages written through the real client to the real server, %d judged by TLC, %d rejected\n", mc.Distinct, len(cases), len(good), nbad)
		samples := []interface{}{}
		if len(good) > 1 {
			samples = append(samples, map[string]interface{}{"body": string(good[len(good)/2].concrete), "case": good[len(good)/2]}, map[string]interface{}{"body": string(good[len(good)-1].concrete), "case": good[len(good)-1]})
		}
		csCov := clientSessionEngine(run, tier)
		run.Finish("model_checking", evid.Coverage{
			"clientsession": csCov,
			"states":        mc.Distinct, "transitions": mc.Generated, "traces_validated_against_impl": len(good), "messages": len(cases),
			"samples": samples, "checker_cmd": mc.Cmd,
		}, []string{"bodies over {'.', bare LF, CRLF, other} up to length 5 (quick) / 7 (thorough) plus seeded random longer ones; Write partitions whole / one random split / bytewise; verdict accept / reject with a marker error; SMTP and LMTP",
			"every run also closes the writer a second time and requires an error and an undisturbed next command"})
	}
}
