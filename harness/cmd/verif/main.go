// Command verif is the single driver of the model-based checks:
//
//	verif check <ID> [--tier quick|thorough]
//	verif replay <file>
package main

import (
	"fmt"
	"os"
	"time"
)

type checkFn func(tier string)

var checks = map[string]checkFn{}

func main() {
	if len(os.Args) < 3 {
		fmt.Println("usage: verif check <ID> [--tier quick|thorough] | verif replay <file>")
		os.Exit(2)
	}
	switch os.Args[1] {
	case "check":
		id := os.Args[2]
		tier := os.Getenv("VERIF_TIER")
		for i := 3; i < len(os.Args); i++ {
			if os.Args[i] == "--tier" && i+1 < len(os.Args) {
				tier = os.Args[i+1]
			}
		}
		if tier == "" {
			tier = "quick"
		}
		f, ok := checks[id]
		if !ok {
			fmt.Printf("no check for %s\n", id)
			os.Exit(2)
		}
		// watchdog: a check that runs far beyond its budget is inconclusive,
		// never silently stuck
		limit := 20 * time.Minute
		if tier == "thorough" {
			limit = 90 * time.Minute
		}
		go func() {
			time.Sleep(limit)
			fmt.Printf("INCONCLUSIVE: check %s exceeded its %v watchdog\n", id, limit)
			os.Exit(2)
		}()
		f(tier)
	case "replay":
		replayFile(os.Args[2])
	default:
		os.Exit(2)
	}
}
