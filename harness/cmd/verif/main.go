// Command verif is the single driver of the model-based checks:
//
//	verif check <ID> [--tier quick|thorough]
//	verif replay <file>
package main

import (
	"bytes"
	"crypto/sha1"
	"fmt"
	"io"
	"os"
	"os/exec"
	"path/filepath"
	"strings"
	"time"

	"verifharness/tlcrun"
)

// superviseCheck runs the check in a child process.  The server under test
// lives in the same process as the harness, so a panic that go-smtp does not
// recover from (a goroutine of the library crashing on network input) takes
// the whole process down: that is not an inconclusive run but the plainest of
// violations, and it is reported as one, with the crash report as the replay.
func superviseCheck(id string) {
	cmd := exec.Command(os.Args[0], os.Args[1:]...)
	cmd.Env = append(os.Environ(), "VERIF_CHILD=1")
	var tail bytes.Buffer
	cmd.Stdout = io.MultiWriter(os.Stdout, &tail)
	cmd.Stderr = io.MultiWriter(os.Stderr, &tail)
	err := cmd.Run()
	if err == nil {
		os.Exit(0)
	}
	code := 2
	if ee, ok := err.(*exec.ExitError); ok {
		code = ee.ExitCode()
	}
	out := tail.String()
	crashed := (strings.Contains(out, "\npanic: ") || strings.HasPrefix(out, "panic: ") || strings.Contains(out, "fatal error: ")) && strings.Contains(out, "goroutine ")
	if code == 1 || !crashed {
		os.Exit(code)
	}
	// whose code crashed: the first frames of the crashing goroutine
	i := strings.LastIndex(out, "\npanic: ")
	if i < 0 {
		i = strings.LastIndex(out, "fatal error: ")
	}
	if i < 0 {
		i = 0
	}
	report := out[i:]
	if len(report) > 20000 {
		report = report[:20000]
	}
	lib := strings.Contains(report, "github.com/emersion/go-smtp.") || strings.Contains(report, "go-smtp/")
	harnessFirst := false
	for _, l := range strings.Split(report, "\n") {
		if strings.HasPrefix(l, "verifharness/") || strings.HasPrefix(l, "main.") {
			harnessFirst = true
			break
		}
		if strings.HasPrefix(l, "github.com/emersion/go-smtp.") {
			break
		}
	}
	if !lib || harnessFirst {
		fmt.Printf("INCONCLUSIVE: the check process crashed in the harness itself\n")
		os.Exit(2)
	}
	sum := sha1.Sum([]byte(firstLine(report)))
	dir := filepath.Join(tlcrun.VerifDir(), "replay")
	os.MkdirAll(dir, 0o755)
	path := filepath.Join(dir, fmt.Sprintf("%s-crash-%x.txt", id, sum[:6]))
	os.WriteFile(path, []byte(report), 0o644)
	fmt.Printf("DIVERGENCE crash: the process serving the connections died inside go-smtp while the check of %s was driving it: %s\n", id, firstLine(report))
	fmt.Printf("VIOLATION property=%s replay=%s\n", id, path)
	os.Exit(1)
}

func firstLine(s string) string {
	s = strings.TrimLeft(s, "\n")
	if i := strings.IndexByte(s, '\n'); i >= 0 {
		return s[:i]
	}
	return s
}

type checkFn func(tier string)

var checks = map[string]checkFn{}

func main() {
	if len(os.Args) < 3 {
		fmt.Println("usage: verif check <ID> [--tier quick|thorough] | verif replay <file>")
		os.Exit(2)
	}
	switch os.Args[1] {
	case "check":
		id := os.Args[2]
		tier := os.Getenv("VERIF_TIER")
		for i := 3; i < len(os.Args); i++ {
			if os.Args[i] == "--tier" && i+1 < len(os.Args) {
				tier = os.Args[i+1]
			}
		}
		if tier == "" {
			tier = "quick"
		}
		f, ok := checks[id]
		if !ok {
			fmt.Printf("no check for %s\n", id)
			os.Exit(2)
		}
		if os.Getenv("VERIF_CHILD") == "" {
			superviseCheck(id)
		}
		// watchdog: a check that runs far beyond its budget is inconclusive,
		// never silently stuck
		limit := 20 * time.Minute
		if tier == "thorough" {
			limit = 90 * time.Minute
		}
		go func() {
			time.Sleep(limit)
			fmt.Printf("INCONCLUSIVE: check %s exceeded its %v watchdog\n", id, limit)
			os.Exit(2)
		}()
		f(tier)
	case "replay":
		replayFile(os.Args[2])
	default:
		os.Exit(2)
	}
}
