package main

import (
	"encoding/json"
	"fmt"
	"math/rand"
	"reflect"
	"strings"
	"sync"
	"time"
	"unicode/utf8"

	smtp "github.com/emersion/go-smtp"

	"verifharness/drv"
	"verifharness/evid"
	"verifharness/rec"
	"verifharness/tlcrun"
)

type xtCase struct {
	Mode string `json:"mode"`
	Str  []int  `json:"str"`
	Wire []int  `json:"wire"`
}

func runesToString(cps []int) string {
	var sb strings.Builder
	for _, c := range cps {
		sb.WriteRune(rune(c))
	}
	return sb.String()
}

func wireSafe(w string, sevenBit bool) string {
	for i := 0; i < len(w); i++ {
		b := w[i]
		if b <= ' ' || b == '=' || b == 0x7f || (sevenBit && b >= 0x80) {
			return fmt.Sprintf("octet 0x%02x in the encoded form %q", b, w)
		}
	}
	return ""
}

// e2eOptions sends every subset of option fields through the real client to
// a real server with the extensions enabled and compares what the backend saw.
func e2eOptions(run *evid.Run, rng *rand.Rand, rounds int) int {
	n := 0
	vals := func(nonASCII bool) string {
		pool := []string{"a", "B", "7", " ", "+", "=", "\\", "{", "}", "x", "~", "!", "\"", "<", ">", "@", ";", ",", ".", "%"}
		// values that look like their own encoding: a '+' followed by two hex digits is
		// still three characters of the value
		pool = append(pool, "+4A", "+2B", "+20", "+3D")
		if nonASCII {
			pool = append(pool, "é", "ß", "€", "日", "😀", "\u0080", "߿", "￿")
		}
		var sb strings.Builder
		for i := 0; i < 1+rng.Intn(6); i++ {
			sb.WriteString(pool[rng.Intn(len(pool))])
		}
		return sb.String()
	}
	for r := 0; r < rounds; r++ {
		for mask := 0; mask < 1<<9; mask++ {
			utf8Srv := (mask+r)%2 == 0
			srv := drv.Start(drv.Cfg{MaxLine: 4000, TLSAvail: true, ImplicitTLS: true, DSN: true, RRVS: true, RequireTLS: true, UTF8: utf8Srv, InsecureAuth: true, AuthBackend: true, Binarymime: true})
			cn, err := srv.DialForClient()
			if err != nil {
				srv.Stop()
				evid.Inconclusive("C14 dial: %v", err)
			}
			cl := smtp.NewClient(cn.ClientConn())
			cl.CommandTimeout = 3 * time.Second
			mo := &smtp.MailOptions{}
			ro := &smtp.RcptOptions{}
			if mask&1 != 0 {
				mo.Size = int64(1 + rng.Intn(1<<30))
			}
			if mask&2 != 0 {
				mo.RequireTLS = true
			}
			if mask&4 != 0 && utf8Srv {
				mo.UTF8 = true
			}
			if mask&8 != 0 {
				mo.Return = []smtp.DSNReturn{smtp.DSNReturnFull, smtp.DSNReturnHeaders}[rng.Intn(2)]
			}
			if mask&16 != 0 {
				mo.EnvelopeID = vals(false)
			}
			if mask&32 != 0 {
				a := "user" + strings.Map(func(r rune) rune {
					if strings.ContainsRune(" <>\\\"@;,.", r) {
						return 'q'
					}
					return r
				}, vals(false)) + "@x.test"
				if rng.Intn(5) == 0 {
					a = ""
				}
				mo.Auth = &a
			}
			if mask&64 != 0 {
				sets := [][]smtp.DSNNotify{{smtp.DSNNotifyNever}, {smtp.DSNNotifySuccess}, {smtp.DSNNotifyDelayed, smtp.DSNNotifyFailure}, {smtp.DSNNotifySuccess, smtp.DSNNotifyFailure, smtp.DSNNotifyDelayed}}
				ro.Notify = sets[rng.Intn(len(sets))]
			}
			if mask&128 != 0 {
				if rng.Intn(2) == 0 {
					ro.OriginalRecipientType, ro.OriginalRecipient = smtp.DSNAddressTypeRFC822, vals(false)
				} else {
					ro.OriginalRecipientType, ro.OriginalRecipient = smtp.DSNAddressTypeUTF8, vals(true)
				}
			}
			if mask&256 != 0 {
				// the instant is what has to arrive, whatever zone the caller's time value is in
				zones := []*time.Location{time.UTC, time.FixedZone("east", 2*3600), time.FixedZone("west", -5*3600), time.FixedZone("half", 5*3600+1800)}
				ro.RequireRecipientValidSince = time.Unix(int64(rng.Intn(2000000000)), int64(rng.Intn(2))*500000000).In(zones[rng.Intn(len(zones))])
			}
			from, to := fmt.Sprintf("from%d@x.test", mask), fmt.Sprintf("to%d@x.test", mask)
			if mask%3 == 1 {
				from = "fr%om%%x+tag=" + fmt.Sprint(mask) + "!#$&'*/?^_`{|}~@x.test"
				to = "user%host" + fmt.Sprint(mask) + "%s@relay.test"
			}
			if mo.UTF8 {
				// internationalised mailboxes: local part and domain
				u := []string{"é", "ß", "à", "Å", "ą", "я", "…", "日", "😀", "ü"}
				pick := func() string {
					var sb strings.Builder
					for i := 0; i < 1+rng.Intn(4); i++ {
						sb.WriteString(u[rng.Intn(len(u))])
						sb.WriteString([]string{"", "a", "-", "1"}[rng.Intn(4)])
					}
					return sb.String()
				}
				from = pick() + fmt.Sprint(mask) + "@" + pick() + ".test"
				to = pick() + fmt.Sprint(mask) + "@x" + pick() + ".example"
			}
			// a quarter of the envelopes follow, on the same connection, a MAIL and a RCPT
			// that carried every option and were refused by the backend: nothing of a
			// refused command belongs to the next one
			after := mask%4 == 2
			var errPre error
			if after {
				refusal := &smtp.SMTPError{Code: 550, EnhancedCode: smtp.EnhancedCode{5, 7, 1}, Message: "not this one"}
				srv.BE.Lock()
				srv.BE.MailErrs = []error{refusal}
				srv.BE.RcptErrs = []error{refusal}
				srv.BE.Unlock()
				pa := "pre@x.test"
				if err := cl.Mail("refused@x.test", &smtp.MailOptions{Size: 4096, RequireTLS: true, UTF8: utf8Srv, Return: smtp.DSNReturnHeaders, EnvelopeID: "pre", Auth: &pa}); err == nil {
					errPre = fmt.Errorf("the MAIL the backend refuses was accepted")
				}
			}
			errM := cl.Mail(from, mo)
			var errR error
			if errM == nil && after {
				if err := cl.Rcpt("refused@x.test", &smtp.RcptOptions{Notify: []smtp.DSNNotify{smtp.DSNNotifySuccess}, OriginalRecipientType: smtp.DSNAddressTypeRFC822, OriginalRecipient: "pre@x.test",
					RequireRecipientValidSince: time.Unix(1500000000, 0)}); err == nil {
					errPre = fmt.Errorf("the RCPT the backend refuses was accepted")
				}
			}
			if errM == nil {
				errR = cl.Rcpt(to, ro)
			}
			if errPre != nil {
				evid.Inconclusive("C14 e2e: %v", errPre)
			}
			// (the client calls are synchronous: the callbacks precede the replies)
			calls := srv.BE.Calls()
			cn.Raw.Close()
			srv.Stop()
			n++
			ctx := fmt.Sprintf("MailOptions %+v (auth %v) RcptOptions %+v, server SMTPUTF8=%v, after a refused MAIL/RCPT with every option: %v", *mo, derefS(mo.Auth), *ro, utf8Srv, after)
			rp := map[string]interface{}{"engine": "c14-e2e", "mail": mo, "rcpt": ro, "utf8": utf8Srv}
			if errM != nil || errR != nil {
				run.Report(evid.Div{Prop: "C14", Key: fmt.Sprintf("c14:e2e:refused:mask=%d", mask&(16|32|128)), Msg: fmt.Sprintf("%s: Mail -> %v, Rcpt -> %v", ctx, errM, errR), Replay: rp})
				continue
			}
			var gotM *rec.Call
			var gotR *rec.Call
			for i := range calls {
				if calls[i].Name == "Mail" {
					gotM = &calls[i]
				}
				if calls[i].Name == "Rcpt" {
					gotR = &calls[i]
				}
			}
			if gotM == nil || gotR == nil {
				run.Report(evid.Div{Prop: "C14", Key: "c14:e2e:no-callback", Msg: ctx + ": backend was not called", Replay: rp})
				continue
			}
			wantM := *mo
			wantM.Body = smtp.Body8BitMIME // the client always adds BODY=8BITMIME when offered
			if gotM.From != from || !reflect.DeepEqual(*gotM.MailOpts, wantM) {
				run.Report(evid.Div{Prop: "C14", Key: fmt.Sprintf("c14:e2e:mail-options:%s", diffFields(*gotM.MailOpts, wantM)), Msg: fmt.Sprintf("%s: backend saw from %q options %+v (auth %v)", ctx, gotM.From, *gotM.MailOpts, derefS(gotM.MailOpts.Auth)), Replay: rp})
			}
			wantR := *ro
			gr := *gotR.RcptOpts
			if len(gr.Notify) == 0 {
				gr.Notify = nil
			}
			if gotR.To != to || !reflect.DeepEqual(gr.Notify, wantR.Notify) || gr.OriginalRecipient != wantR.OriginalRecipient ||
				gr.OriginalRecipientType != wantR.OriginalRecipientType || !gr.RequireRecipientValidSince.Equal(wantR.RequireRecipientValidSince.Truncate(time.Second)) {
				run.Report(evid.Div{Prop: "C14", Key: "c14:e2e:rcpt-options", Msg: fmt.Sprintf("%s: backend saw to %q options %+v", ctx, gotR.To, gr), Replay: rp})
			}
		}
	}
	return n
}

func derefS(p *string) string {
	if p == nil {
		return "<nil>"
	}
	return fmt.Sprintf("%q", *p)
}

func diffFields(a, b smtp.MailOptions) string {
	var d []string
	if a.Body != b.Body {
		d = append(d, "Body")
	}
	if a.Size != b.Size {
		d = append(d, "Size")
	}
	if a.RequireTLS != b.RequireTLS {
		d = append(d, "RequireTLS")
	}
	if a.UTF8 != b.UTF8 {
		d = append(d, "UTF8")
	}
	if a.Return != b.Return {
		d = append(d, "Return")
	}
	if a.EnvelopeID != b.EnvelopeID {
		d = append(d, "EnvelopeID")
	}
	if derefS(a.Auth) != derefS(b.Auth) {
		d = append(d, "Auth")
	}
	return strings.Join(d, "+")
}

func init() {
	checks["C14"] = func(tier string) {
		run := evid.NewRun("C14", tier)
		cfg := "MC_Xtext.cfg"
		if tier == "thorough" {
			cfg = "MC_Xtext_thorough.cfg"
		}
		mc := modelCheck("Xtext", cfg, 16)
		res, err := tlcrun.Run("Xtext", "Dump_Xtext.cfg", tlcrun.Opts{Workers: 1, Tags: []string{"XT"}})
		if err != nil || !res.OK {
			evid.Inconclusive("TLC dump of Xtext: %v", err)
		}
		// (1) the real encoders must produce exactly the specified wire form and the real decoders invert it
		nd := 0
		for _, p := range res.Tagged["XT"] {
			var c xtCase
			if err := json.Unmarshal([]byte(p), &c); err != nil {
				evid.Inconclusive("XT: %v", err)
			}
			nd++
			str, want := runesToString(c.Str), runesToString(c.Wire)
			var got, back string
			var derr error
			if c.Mode == "mbox" {
				// c.Wire is the UTF-8 octet sequence Xtext.tla computes for local@domain
				octs := make([]byte, len(c.Wire))
				for i, o := range c.Wire {
					octs[i] = byte(o)
				}
				addr := str + "@" + str
				if string(octs) != addr {
					evid.Inconclusive("Xtext.tla's UTF-8 of %q is %q", addr, octs)
				}
				for _, reverse := range []bool{true, false} {
					mbox, _, perr := smtp.VerifParsePath("<"+addr+"> SMTPUTF8", reverse)
					if perr != nil || mbox != addr {
						run.Report(evid.Div{Prop: "C14", Key: "c14:mailbox:spec-case", Msg: fmt.Sprintf("mailbox %q (reverse-path=%v): the server's path parser returns %q (%v), Xtext.tla (ParseMailbox) the mailbox itself", addr, reverse, mbox, perr), Replay: c})
					}
				}
				continue
			}
			switch c.Mode {
			case "xtext":
				got = smtp.VerifEncodeXtext(str)
				back, derr = smtp.VerifDecodeXtext(got)
			case "u8x":
				got = smtp.VerifEncodeUTF8AddrXtext(str)
				back, derr = smtp.VerifDecodeUTF8AddrXtext(got)
			default:
				got = smtp.VerifEncodeUTF8AddrUnitext(str)
				back, derr = smtp.VerifDecodeUTF8AddrXtext(got)
			}
			cls := "other"
			if len(c.Str) > 0 {
				switch r := c.Str[len(c.Str)-1]; {
				case r < 16:
					cls = "ctl<0x10"
				case r == '\\':
					cls = "backslash"
				case r < 32:
					cls = "ctl"
				case r >= 128:
					cls = "non-ascii"
				}
			}
			if got != want {
				run.Report(evid.Div{Prop: "C14", Key: fmt.Sprintf("c14:wire:%s:%s", c.Mode, cls), Msg: fmt.Sprintf("%s encoding of %q: encoder %q, Xtext.tla %q", c.Mode, str, got, want), Replay: c})
			}
			if derr != nil || back != str {
				run.Report(evid.Div{Prop: "C14", Key: fmt.Sprintf("c14:roundtrip:%s:%s", c.Mode, cls), Msg: fmt.Sprintf("%s: %q encodes to %q which decodes to %q (%v)", c.Mode, str, got, back, derr), Replay: c})
			}
		}
		// (2) every character of the domains individually
		ns := 0
		for c := 0; c < 128; c++ {
			s := string(rune(c))
			w := smtp.VerifEncodeXtext(s)
			back, err := smtp.VerifDecodeXtext(w)
			ns++
			if err != nil || back != s || wireSafe(w, true) != "" {
				run.Report(evid.Div{Prop: "C14", Key: fmt.Sprintf("c14:scalar:xtext:%s", map[bool]string{true: "ctl<0x10", false: "other"}[c < 16]), Msg: fmt.Sprintf("xtext: U+%04X encodes to %q, decodes to %q (%v) %s", c, w, back, err, wireSafe(w, true))})
			}
		}
		stride := 1
		if tier != "thorough" {
			stride = 61
		}
		var mu sync.Mutex
		var wg sync.WaitGroup
		for part := 0; part < 16; part++ {
			wg.Add(1)
			go func(part int) {
				defer wg.Done()
				cnt := 0
				for c := 0x20 + part*stride; c <= 0x10FFFF; c += 16 * stride {
					if c == 0x7f || (c >= 0xD800 && c <= 0xDFFF) || !utf8.ValidRune(rune(c)) {
						continue
					}
					s := "a" + string(rune(c)) + "z"
					if c >= 0x80 {
						// the same character inside a sender / recipient mailbox
						addr := s + "@d" + string(rune(c)) + "q.test"
						mbox, _, perr := smtp.VerifParsePath("<"+addr+">", cnt%2 == 0)
						cnt++
						if perr != nil || mbox != addr {
							mu.Lock()
							run.Report(evid.Div{Prop: "C14", Key: fmt.Sprintf("c14:mailbox:scalar:%x", addr[len(addr)-8]), Msg: fmt.Sprintf("mailbox %q with U+%04X: the server's path parser returns %q (%v)", addr, c, mbox, perr)})
							mu.Unlock()
						}
					}
					for _, mode := range []string{"u8x", "uni"} {
						var w string
						if mode == "u8x" {
							w = smtp.VerifEncodeUTF8AddrXtext(s)
						} else {
							w = smtp.VerifEncodeUTF8AddrUnitext(s)
						}
						back, err := smtp.VerifDecodeUTF8AddrXtext(w)
						cnt++
						if err != nil || back != s || wireSafe(w, mode == "u8x") != "" {
							cls := "other"
							if c == '\\' {
								cls = "backslash"
							}
							mu.Lock()
							run.Report(evid.Div{Prop: "C14", Key: fmt.Sprintf("c14:scalar:%s:%s", mode, cls), Msg: fmt.Sprintf("%s: U+%04X encodes to %q, decodes to %q (%v) %s", mode, c, w, back, err, wireSafe(w, mode == "u8x"))})
							mu.Unlock()
						}
					}
				}
				mu.Lock()
				ns += cnt
				mu.Unlock()
			}(part)
		}
		wg.Wait()
		// (3) end to end through client and server: all option subsets
		rounds := 1
		if tier == "thorough" {
			rounds = 6
		}
		ne := e2eOptions(run, rand.New(rand.NewSource(run.Seed)), rounds)
		fmt.Printf("C14: Xtext.tla %d states (round trip and wire safety); %d specified wire forms compared with the real encoders; %d single characters round-tripped; %d option subsets sent client -> server\n", mc.Distinct, nd, ns, ne)
		run.Finish("model_checking", evid.Coverage{
			"states": mc.Distinct, "transitions": mc.Generated, "traces_validated_against_impl": nd + ne,
			"wire_forms_compared": nd, "single_characters": ns, "e2e_option_subsets": ne,
			"samples":     []interface{}{map[string]string{"string": "a b+c=d\\e", "xtext": smtp.VerifEncodeXtext("a b+c=d\\e"), "unitext": smtp.VerifEncodeUTF8AddrUnitext("a b+c=d\\eé")}},
			"checker_cmd": mc.Cmd,
		}, []string{"domain of the utf-8 forms: printable ASCII and non-ASCII scalar values (RFC 6533's HEXPOINT cannot express U+000A..U+000F, U+001A..U+001F); xtext: all of 7-bit ASCII",
			"quick samples 1/61 of the Unicode scalar values (rotating start), thorough takes all"})
	}
}
