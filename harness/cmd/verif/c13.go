package main

import (
	"encoding/json"
	"fmt"
	"strings"
	"sync"
	"verifharness/sessrep"

	smtp "github.com/emersion/go-smtp"

	"verifharness/drv"
	"verifharness/evid"
	"verifharness/rec"
	"verifharness/tlcrun"
	"verifharness/wire"
)

type lmtpCall struct {
	Addr  string `json:"addr"`
	OK    bool   `json:"ok"`    // status nil
	After bool   `json:"after"` // issued after the message was consumed
}

type lmtpCase struct {
	Rcpts   []string         `json:"rcpts"`
	Sets    map[string][]int `json:"sets"`
	Fin     int              `json:"fin"`
	Emitted []int            `json:"emitted"`
	Calls   []lmtpCall       `json:"calls"`
	Outcome string           `json:"outcome"` // nil err panic
	Mode    string           `json:"mode"`    // data bdat1 bdat2 bdatfail plain-data plain-bdat
}

// the two abstract addresses a, b of Lmtp.tla are rendered in several ways:
// plainly different, and different only in the case of a letter (mailbox
// names are case-sensitive: RFC 5321 section 2.4)
// (neither is the domain folded by the server: two spellings are two recipients
// with a status each)
var addrScheme = [][2]string{{"a@x.test", "b@x.test"}, {"Bob@x.test", "bob@x.test"}, {"carol@x.test", "caroL@x.test"}, {"dave@X.Test", "dave@x.test"}, {"a@x.test", "b@x.test"}}

func addrOfIdx(a string, idx int) string {
	sc := addrScheme[idx%len(addrScheme)]
	if a == "a" {
		return sc[0]
	}
	return sc[1]
}

func runLmtpCase(c *lmtpCase, idx int) (string, error) {
	plain := strings.HasPrefix(c.Mode, "plain")
	srv := drv.Start(drv.Cfg{LMTP: true, LMTPBackend: !plain, MaxLine: 200})
	defer srv.Stop()
	cn, err := srv.Dial()
	if err != nil {
		return "", err
	}
	defer cn.Close()
	cn.Output()
	plan := rec.DataPlan{Buf: []int{1, 4096}[idx%2]}
	c.Sets = map[string][]int{"a": {}, "b": {}}
	for i, cl := range c.Calls {
		var st error
		if cl.OK {
			c.Sets[cl.Addr] = append(c.Sets[cl.Addr], 0)
		} else {
			st = &smtp.SMTPError{Code: 550, EnhancedCode: smtp.EnhancedCode{5, 1, 1}, Message: fmt.Sprintf("marker-%d", i+1)}
			c.Sets[cl.Addr] = append(c.Sets[cl.Addr], i+1)
		}
		plan.Status = append(plan.Status, rec.StatusOp{Addr: addrOfIdx(cl.Addr, idx), Err: st, After: cl.After})
	}
	switch c.Outcome {
	case "err":
		plan.Err = &smtp.SMTPError{Code: 451, EnhancedCode: smtp.EnhancedCode{4, 3, 0}, Message: "ret-err"}
		c.Fin = 99
	case "panic":
		plan.Panic = true
		c.Fin = 421
	default:
		c.Fin = 0
	}
	if c.Mode == "bdatfail" {
		plan.ReadMode = rec.ReadK
		plan.K = 2
	}
	srv.BE.Lock()
	srv.BE.DataPlans = []rec.DataPlan{plan}
	srv.BE.Unlock()
	pre := "LHLO c13.test\r\nMAIL FROM:<s@x.test>\r\n"
	for _, r := range c.Rcpts {
		pre += "RCPT TO:<" + addrOfIdx(r, idx) + ">\r\n"
	}
	out, _, err := cn.Step([]byte(pre))
	if err != nil {
		return "", err
	}
	rs, _, _ := wire.ParseAll(out)
	if len(rs) != 2+len(c.Rcpts) {
		return fmt.Sprintf("preamble: %d replies", len(rs)), nil
	}
	var finals []wire.Reply
	switch c.Mode {
	case "data", "plain-data":
		out, _, err = cn.Step([]byte("DATA\r\n"))
		if err != nil {
			return "", err
		}
		o2, _, err := cn.Step([]byte("msg!\r\n.\r\n"))
		if err != nil {
			return "", err
		}
		rs, rest, syn := wire.ParseAll(append(out, o2...))
		if syn != "" || len(rest) > 0 || len(rs) == 0 || rs[0].Code != 354 {
			return fmt.Sprintf("DATA: bad reply stream %q %s", append(out, o2...), syn), nil
		}
		finals = rs[1:]
	case "bdat1", "bdatfail", "plain-bdat":
		out, _, err = cn.Step([]byte("BDAT 6 LAST\r\nmsg!\r\n"))
		if err != nil {
			return "", err
		}
		rs, rest, syn := wire.ParseAll(out)
		if syn != "" || len(rest) > 0 {
			return fmt.Sprintf("BDAT: bad reply stream %q %s", out, syn), nil
		}
		finals = rs
	case "bdat2":
		out, _, err = cn.Step([]byte("BDAT 2\r\nms"))
		if err != nil {
			return "", err
		}
		rs, _, _ := wire.ParseAll(out)
		if len(rs) != 1 || rs[0].Code != 250 {
			return fmt.Sprintf("first chunk answered %v", codes(rs)), nil
		}
		out, _, err = cn.Step([]byte("BDAT 4 LAST\r\ng!\r\n"))
		if err != nil {
			return "", err
		}
		rs, rest, syn := wire.ParseAll(out)
		if syn != "" || len(rest) > 0 {
			return fmt.Sprintf("BDAT: bad reply stream %q %s", out, syn), nil
		}
		finals = rs
	}
	c.Emitted = []int{}
	for i, r := range finals {
		if i < len(c.Rcpts) {
			want := "<" + addrOfIdx(c.Rcpts[i], idx) + "> "
			if !strings.HasPrefix(r.Text(), want) {
				return fmt.Sprintf("reply %d does not name %s: %q", i, want, r.Text()), nil
			}
		}
		txt := r.Text()
		switch {
		case r.Code == 250:
			c.Emitted = append(c.Emitted, 0)
		case strings.Contains(txt, "marker-"):
			var k int
			fmt.Sscanf(txt[strings.Index(txt, "marker-"):], "marker-%d", &k)
			if r.Code != 550 || r.Enh != "5.1.1" {
				return fmt.Sprintf("marker reply %d has code %d %s", i, r.Code, r.Enh), nil
			}
			c.Emitted = append(c.Emitted, k)
		case strings.Contains(txt, "ret-err"):
			c.Emitted = append(c.Emitted, 99)
		case r.Code == 421:
			c.Emitted = append(c.Emitted, 421)
		default:
			return fmt.Sprintf("unrecognised final reply %d %q", r.Code, txt), nil
		}
	}
	return "", nil
}

// genLmtp enumerates recipient lists over {a,b} and every backend program
// within the contract.
func genLmtp(maxR int) []*lmtpCase {
	var out []*lmtpCase
	var rls [][]string
	var gen func(cur []string)
	gen = func(cur []string) {
		if len(cur) > 0 {
			rls = append(rls, append([]string{}, cur...))
		}
		if len(cur) == maxR {
			return
		}
		for _, a := range []string{"a", "b"} {
			gen(append(cur, a))
		}
	}
	gen(nil)
	modes := []string{"data", "bdat1", "bdat2", "bdatfail", "plain-data", "plain-bdat"}
	n := 0
	for _, rl := range rls {
		mult := map[string]int{}
		for _, r := range rl {
			mult[r]++
		}
		// all call sequences respecting multiplicities
		var seqs [][]string
		var gs func(cur []string, left map[string]int)
		gs = func(cur []string, left map[string]int) {
			seqs = append(seqs, append([]string{}, cur...))
			for _, a := range []string{"a", "b"} {
				if left[a] > 0 {
					left[a]--
					gs(append(cur, a), left)
					left[a]++
				}
			}
		}
		gs(nil, map[string]int{"a": mult["a"], "b": mult["b"]})
		for _, sq := range seqs {
			for okmask := 0; okmask < 1<<uint(len(sq)); okmask++ {
				if len(sq) > 2 && okmask != 0 && okmask != (1<<uint(len(sq)))-1 && okmask%3 != 0 {
					continue // thin out mixed patterns on long programs
				}
				for split := 0; split <= len(sq); split++ {
					for _, oc := range []string{"nil", "err", "panic"} {
						mode := modes[(n/3+n)%len(modes)]
						n++
						plain := strings.HasPrefix(mode, "plain")
						if plain && (len(sq) > 0 || oc == "panic") {
							mode = "data"
						}
						if mode == "bdatfail" && oc != "err" {
							mode = "bdat1"
						}
						c := &lmtpCase{Rcpts: rl, Outcome: oc, Mode: mode}
						for i, a := range sq {
							c.Calls = append(c.Calls, lmtpCall{Addr: a, OK: okmask&(1<<uint(i)) != 0, After: i >= split})
						}
						out = append(out, c)
					}
				}
			}
		}
	}
	return out
}

func init() {
	checks["C13"] = func(tier string) {
		run := evid.NewRun("C13", tier)
		cfgName, maxR := "MC_Lmtp.cfg", 3
		if tier == "thorough" {
			cfgName, maxR = "MC_Lmtp_thorough.cfg", 4
		}
		mc := modelCheck("Lmtp", cfgName, 16)
		cases := genLmtp(maxR)
		var mu sync.Mutex
		var wg sync.WaitGroup
		sem := make(chan struct{}, 16)
		var firstErr error
		var good []*lmtpCase
		for i, c := range cases {
			wg.Add(1)
			go func(i int, c *lmtpCase) {
				defer wg.Done()
				sem <- struct{}{}
				defer func() { <-sem }()
				if drv.TooManyHangs() {
					return
				}
				msg, err := runLmtpCase(c, i)
				mu.Lock()
				defer mu.Unlock()
				key := fmt.Sprintf("lmtp:%s:%s:%s", strings.Join(c.Rcpts, ""), c.Mode, c.Outcome)
				if err != nil {
					var stuck *drv.StuckError
					if asStuck(err, &stuck) {
						run.Report(evid.Div{Prop: "C13", Key: "hang:" + c.Mode + ":" + stuck.Where, Msg: fmt.Sprintf("recipients %v, backend program %+v -> %s (%s): the final response never completes: %v", c.Rcpts, c.Calls, c.Outcome, c.Mode, stuck), Replay: c})
						return
					}
					if firstErr == nil {
						firstErr = err
					}
					return
				}
				if msg != "" {
					run.Report(evid.Div{Prop: "C13", Key: key + ":shape", Msg: fmt.Sprintf("recipients %v, program %+v -> %s (%s): %s", c.Rcpts, c.Calls, c.Outcome, c.Mode, msg), Replay: c})
					return
				}
				good = append(good, c)
			}(i, c)
		}
		wg.Wait()
		if firstErr != nil {
			evid.Inconclusive("LMTP case: %v", firstErr)
		}
		var nd strings.Builder
		for _, c := range good {
			b, _ := json.Marshal(map[string]interface{}{"rcpts": c.Rcpts, "sets": c.Sets, "fin": c.Fin, "emitted": c.Emitted})
			nd.Write(b)
			nd.WriteByte('\n')
		}
		nbad := 0
		if len(good) > 0 {
			res, err := tlcrun.Run("Trace_Lmtp", "Trace_Lmtp.cfg", tlcrun.Opts{Workers: 1, Tags: []string{"BADCASES", "NCASES"}, Files: map[string][]byte{"cases.ndjson": []byte(nd.String())}})
			if res == nil || len(res.Tagged["BADCASES"]) == 0 || len(res.Tagged["NCASES"]) == 0 || res.Tagged["NCASES"][0] != fmt.Sprint(len(good)) {
				evid.Inconclusive("Trace_Lmtp gave no verdict: %v", err)
			}
			var bad []int
			json.Unmarshal([]byte(res.Tagged["BADCASES"][0]), &bad)
			nbad = len(bad)
			for _, i := range bad {
				c := good[i-1]
				run.Report(evid.Div{Prop: "C13", Key: fmt.Sprintf("lmtp-status:%s:%s:%s:%d-calls", strings.Join(c.Rcpts, ""), c.Mode, c.Outcome, len(c.Calls)),
					Msg: fmt.Sprintf("recipients %v, statuses set %v, final value %d (%s): the server wrote %v, Lmtp.tla requires one status per recipient in order, the k-th set for an address to its k-th occurrence, else the final value", c.Rcpts, c.Sets, c.Fin, c.Mode, c.Emitted), Replay: c})
			}
		}
		// the LMTP half of the session model: every transition of the bounded graph
		// on the real server (one final reply per accepted recipient, named, in order,
		// from every history the model distinguishes)
		smc := modelCheck("MC_Session", "MC_Session.cfg", 16)
		var lgs []*sessrep.Graph
		for _, g := range dumpEdges("MC_Session", "Dump_Session.cfg") {
			if g.Cfg.Lmtp {
				lgs = append(lgs, g)
			}
		}
		lst := tourAll(run, lgs, 0)
		fmt.Printf("C13: session model %d states; %d/%d transitions of the %d LMTP configurations replayed on the real server\n", smc.Distinct, lst.Covered, lst.Edges, len(lgs))
		// silence inside a message or a final chunk (a real ReadTimeout): one reply per
		// recipient is still owed, with a plain and with a per-recipient backend
		imc := modelCheck("MC_Idle", "MC_Idle.cfg", 8)
		var igs []*sessrep.Graph
		for _, g := range dumpEdges("MC_Idle", "Dump_Idle.cfg") {
			if g.Cfg.Lmtp {
				igs = append(igs, g)
			}
		}
		ist := tourSome(run, igs, func(e *sessrep.Edge) bool { return e.Lbl.Cmd.C == "DATASTALL" || e.Lbl.Cmd.C == "BDATSTALL" })
		fmt.Printf("C13: MC_Idle %d states; %d/%d stalled-message transitions of the LMTP configurations replayed\n", imc.Distinct, ist.Covered, ist.Edges)
		// a delivery that outlives its aborted transfer must not write into the next transfer's statuses
		vst, vsc := verdictFamily(run)
		fmt.Printf("C13: Verdict.tla %d states; %d gated stale-verdict schedules (SMTP and LMTP, plain and per-recipient backends) validated by TLC\n", vst, vsc)
		fmt.Printf("C13: Lmtp.tla %d states (no deadlock, termination); %d backend programs run on the real LMTP server, %d judged by TLC, %d rejected\n", mc.Distinct, len(cases), len(good), nbad)
		samples := []interface{}{}
		if len(good) > 2 {
			samples = append(samples, good[len(good)/2], good[len(good)-1])
		}
		run.Finish("model_checking", evid.Coverage{
			"states": mc.Distinct, "transitions": mc.Generated,
			"traces_validated_against_impl": len(good) + lst.Convs, "programs_run": len(cases), "exhaustive": true,
			"lmtp_session_edges_replayed": lst.Covered, "lmtp_session_edges": lst.Edges,
			"samples": samples, "checker_cmd": mc.Cmd,
		}, []string{"backend programs stay within the documented contract (at most one SetStatus per occurrence of an address, none after LMTPData returned); over-calling is schedule dependent and not judged",
			"modes: DATA, BDAT LAST in one or two chunks, backend failing inside the LAST chunk, plain (non-LMTPSession) backend via DATA and BDAT"})
	}
}
