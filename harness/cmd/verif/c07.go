package main

import (
	"fmt"
	"math/rand"
	"sync"

	"verifharness/drv"
	"verifharness/evid"
	"verifharness/sessrep"
)

// cutSweepAll runs the cut-point sweep on random transfer-containing paths of
// every graph: every octet offset of every conversation.
func cutSweepAll(run *evid.Run, gs []*sessrep.Graph, pathsPer, maxLen int, serial bool, after func(srv *drv.Server, g *sessrep.Graph)) (convs, paths int, samples []interface{}) {
	var mu sync.Mutex
	var wg sync.WaitGroup
	par := 16
	if serial {
		par = 1
	}
	sem := make(chan struct{}, par)
	var firstErr error
	for gi, g := range gs {
		wg.Add(1)
		go func(gi int, g *sessrep.Graph) {
			defer wg.Done()
			sem <- struct{}{}
			defer func() { <-sem }()
			srv := drv.Start(sessrep.DrvCfg(g.Cfg))
			defer srv.Stop()
			rng := rand.New(rand.NewSource(run.Seed*104729 + int64(gi)))
			for i := 0; i < pathsPer && !drv.TooManyHangs(); i++ {
				path := g.CutPath(rng, 4+rng.Intn(maxLen))
				if path == nil {
					continue
				}
				n, divs, err := sessrep.CutSweep(g, srv, path, rng, 1)
				mu.Lock()
				convs += n
				paths++
				if err != nil && firstErr == nil {
					firstErr = err
				}
				if len(samples) < 2 {
					var cmds []string
					for _, e := range path {
						cmds = append(cmds, e.Lbl.Cmd.String())
					}
					samples = append(samples, map[string]interface{}{"cfg": g.Cfg, "conversation_cut_at_every_octet": cmds, "cut_points": n})
				}
				mu.Unlock()
				if err != nil {
					return
				}
				for _, d := range divs {
					run.Report(d)
				}
				if after != nil {
					after(srv, g)
				}
			}
		}(gi, g)
	}
	wg.Wait()
	if firstErr != nil {
		evid.Inconclusive("cut sweep: %v", firstErr)
	}
	return
}

func isTransferState(e *sessrep.Edge) bool { return e.Src.Bdat != "none" }

func init() {
	checks["C07"] = func(tier string) {
		run := evid.NewRun("C07", tier)
		mc := modelCheck("MC_Session", "MC_Session.cfg", 16)
		gs := dumpEdges("MC_Session", "Dump_Session.cfg")
		// spec -> code: every edge that cuts or abandons a transfer
		st := tourSome(run, gs, func(e *sessrep.Edge) bool {
			c := e.Lbl.Cmd.C
			// (and every BDAT command whose size is not acceptable: a chunk that is
			// never framed can never complete a message)
			return c == "DATACUT" || c == "BDATCUT" || (isTransferState(e) && e.Dst.Bdat == "none") || (c == "BDAT" && e.Lbl.Cmd.A == "badsize")
		})
		// the peer falls silent inside a message or a chunk (MC_Idle): a message that
		// stopped arriving is no more complete than one that was cut
		imc := modelCheck("MC_Idle", "MC_Idle.cfg", 8)
		mc.Distinct += imc.Distinct
		mc.Generated += imc.Generated
		ist := tourSome(run, dumpEdges("MC_Idle", "Dump_Idle.cfg"), func(e *sessrep.Edge) bool {
			return e.Lbl.Cmd.C == "DATASTALL" || (e.Lbl.Cmd.C == "BDATSTALL" && e.Lbl.Cmd.A != "refused")
		})
		st.Covered += ist.Covered
		st.Edges += ist.Edges
		st.Convs += ist.Convs
		per, maxLen := 4, 10
		if tier == "thorough" {
			per, maxLen = 40, 16
		}
		convs, paths, samples := cutSweepAll(run, gs, per, maxLen, false, nil)
		// unit level: every class stream is also a truncated stream
		t, runs, _ := loadDataTable()
		crossCheck(t, runs)
		ml := 7
		if tier == "thorough" {
			ml = 9
		}
		ds := sweepData(t, ml, []int{0}, 2000, run.Seed, func(data []byte, segs []int, rb, bud int, msg string) {
			run.Report(evid.Div{Prop: dataProp(msg, bud), Key: dataKey(t, data, msg), Msg: fmt.Sprintf("stream %q: %s", data, msg),
				Replay: map[string]interface{}{"engine": "datareader", "data": data, "segs": segs, "rb": rb, "bud": bud}})
		})
		fmt.Printf("C07: TLC %d states; %d/%d cutting/abandoning edges replayed; %d conversations cut at every octet (%d cut points); %d reader streams\n",
			mc.Distinct, st.Covered, st.Edges, paths, convs, ds.streams)
		run.Finish("model_checking", evid.Coverage{
			"states": mc.Distinct, "transitions": mc.Generated,
			"traces_validated_against_impl":  st.Convs + convs,
			"abandon_and_cut_edges_replayed": st.Covered, "abandon_and_cut_edges": st.Edges,
			"conversations_swept": paths, "cut_points": convs, "reader_streams_truncated": ds.streams,
			"samples": samples, "checker_cmd": mc.Cmd,
		}, []string{"cut = the peer half-closes after the prefix (the server reads EOF); idle timeouts and Server.Close are exercised by C20's lifecycle family",
			"backends in the cut corpus read everything and pass the reader's error on (a backend that ignores a read error is outside the server's responsibility)"})
	}
}
