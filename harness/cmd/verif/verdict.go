package main

import (
	"encoding/json"
	"fmt"
	"strconv"
	"strings"
	"time"

	"verifharness/drv"
	"verifharness/evid"
	"verifharness/rec"
	"verifharness/tlcrun"
	"verifharness/wire"
)

type vEvent struct {
	Ev string `json:"ev"`
	T  int    `json:"t"`
	V  int    `json:"v"`
}

// verdictSchedules enumerates the orders of events for k transfers of which the
// first k-1 are aborted and the last completed, the backends of the aborted
// ones finishing at every possible later point.
func verdictSchedules(k int) [][]vEvent {
	// base order: start1 abort1 start2 abort2 ... startk lastk [finishk] replyk
	var base []vEvent
	for t := 1; t <= k; t++ {
		base = append(base, vEvent{Ev: "start", T: t})
		if t < k {
			base = append(base, vEvent{Ev: "abort", T: t})
		}
	}
	base = append(base, vEvent{Ev: "last", T: k}, vEvent{Ev: "finish", T: k}, vEvent{Ev: "reply", T: k})
	// insert finish(t) for t<k anywhere after abort(t)
	out := [][]vEvent{base}
	for t := 1; t < k; t++ {
		var next [][]vEvent
		for _, s := range out {
			ai := -1
			for i, e := range s {
				if e.Ev == "abort" && e.T == t {
					ai = i
				}
			}
			for pos := ai + 1; pos <= len(s); pos++ {
				n := append(append(append([]vEvent{}, s[:pos]...), vEvent{Ev: "finish", T: t}), s[pos:]...)
				next = append(next, n)
			}
		}
		out = next
	}
	return out
}

// variant of the next schedule run: per-recipient LMTP backend, stale deliveries panic
var vsPerRcpt, vsPanic bool

// runVerdictSchedule replays one schedule with a gated backend; returns the
// recorded trace (reply events carry the verdict the server actually reported).
func runVerdictSchedule(sched []vEvent, lmtp bool, abortWith string) ([]vEvent, string, error) {
	// (LMTP: the plain backend and the per-recipient backend alternate)
	srv := drv.Start(drv.Cfg{LMTP: lmtp, LMTPBackend: lmtp && vsPerRcpt, MaxLine: 2000})
	defer srv.Stop()
	cn, err := srv.Dial()
	if err != nil {
		return nil, "", err
	}
	defer cn.Close()
	cn.Output()
	be := srv.BE
	k := 0
	for _, e := range sched {
		if e.Ev == "start" && e.T > k {
			k = e.T
		}
	}
	be.Lock()
	for t := 1; t <= k; t++ {
		plan := rec.DataPlan{Err: fmt.Errorf("verdict-%d", t), GateReturn: fmt.Sprintf("g%d", t)}
		if t < k && vsPanic {
			// the backend of an aborted transfer does not return late, it PANICS late:
			// that, too, is nobody's business but its own transfer's
			plan.Panic = true
		}
		be.DataPlans = append(be.DataPlans, plan)
	}
	be.Unlock()
	for t := 1; t <= k; t++ {
		be.Hold(fmt.Sprintf("g%d", t))
	}
	hello := "EHLO v.test\r\n"
	if lmtp {
		hello = "LHLO v.test\r\n"
	}
	if _, _, err := cn.Replies([]byte(hello)); err != nil {
		return nil, "", err
	}
	rec0 := []vEvent{{Ev: "reset"}}
	waitEnd := func(t int) bool {
		for dl := time.Now().Add(3 * time.Second); time.Now().Before(dl); {
			for _, c := range be.Calls() {
				if c.Phase == "end" && c.Xfer == t {
					return true
				}
			}
			time.Sleep(100 * time.Microsecond)
		}
		return false
	}
	waitParked := func(name string) bool {
		for dl := time.Now().Add(3 * time.Second); time.Now().Before(dl); {
			if be.Parked(name) > 0 {
				return true
			}
			time.Sleep(100 * time.Microsecond)
		}
		return false
	}
	pendingLast := 0
	for _, e := range sched {
		switch e.Ev {
		case "start":
			rs, _, err := cn.Replies([]byte(fmt.Sprintf("MAIL FROM:<s%d@x.test>\r\nRCPT TO:<r%d@x.test>\r\nBDAT 3\r\nabc", e.T, e.T)))
			if err != nil {
				return rec0, "", err
			}
			if len(rs) != 3 || rs[2].Code != 250 {
				return rec0, fmt.Sprintf("start of transfer %d answered %v", e.T, codes(rs)), nil
			}
			rec0 = append(rec0, vEvent{Ev: "start", T: e.T})
			begun := false
			for _, c := range be.Calls() {
				if c.Phase == "begin" && c.Xfer == e.T {
					begun = true
				}
			}
			if !begun {
				return rec0, fmt.Sprintf("the delivery of transfer %d had not begun when its first chunk was answered", e.T), nil
			}
			rec0 = append(rec0, vEvent{Ev: "begin", T: e.T})
		case "abort":
			cmd := "RSET\r\n"
			if abortWith == "greet" {
				cmd = hello
			}
			rs, _, err := cn.Replies([]byte(cmd))
			if err != nil {
				return rec0, "", err
			}
			if len(rs) != 1 || rs[0].Code != 250 {
				return rec0, fmt.Sprintf("abort of transfer %d answered %v", e.T, codes(rs)), nil
			}
			if !waitParked(fmt.Sprintf("g%d", e.T)) {
				return rec0, fmt.Sprintf("the backend of the aborted transfer %d did not get its reader error", e.T), nil
			}
			rec0 = append(rec0, vEvent{Ev: "abort"})
		case "last":
			if err := cn.Send([]byte("BDAT 0 LAST\r\n")); err != nil {
				return rec0, "", err
			}
			if !waitParked(fmt.Sprintf("g%d", e.T)) {
				return rec0, fmt.Sprintf("the backend of transfer %d did not reach the end of the message after LAST", e.T), nil
			}
			pendingLast = e.T
			rec0 = append(rec0, vEvent{Ev: "last"})
		case "finish":
			be.Release(fmt.Sprintf("g%d", e.T))
			if !waitEnd(e.T) {
				return rec0, fmt.Sprintf("the backend of transfer %d did not return after its gate was opened", e.T), nil
			}
			rec0 = append(rec0, vEvent{Ev: "finish", T: e.T})
		case "reply":
			if !cn.WaitIdle() {
				return rec0, "", cn.NotIdleError(fmt.Sprintf("waiting for the final reply of transfer %d", pendingLast))
			}
			out, _ := cn.Output()
			rs, _, _ := wire.ParseAll(out)
			if len(rs) < 1 {
				return rec0, fmt.Sprintf("no final reply for transfer %d", e.T), nil
			}
			v := 0
			txt := rs[0].Text()
			if i := strings.Index(txt, "verdict-"); i >= 0 {
				v, _ = strconv.Atoi(strings.TrimSpace(txt[i+8:]))
			}
			rec0 = append(rec0, vEvent{Ev: "reply", T: e.T, V: v})
		}
	}
	// nothing may be left blocked once every gate is open
	be.ReleaseAll()
	return rec0, "", nil
}

// verdictFamily runs the gated stale-verdict schedules and lets TLC validate them.
func verdictFamily(run *evid.Run) (states int64, nsched int) {
	mc := modelCheck("Verdict", "MC_Verdict.cfg", 4)
	for _, cfg := range []string{"MC_Verdict_deviation.cfg", "MC_Verdict_latebegin.cfg", "MC_Verdict_latebegin_c08.cfg"} {
		dev, err := tlcrun.Run("Verdict", cfg, tlcrun.Opts{Workers: 1})
		if err != nil || dev.OK || dev.Violation == "" {
			evid.Inconclusive("Verdict.tla with a deviation switched on (%s) must violate its properties (non-vacuity): %v ok=%v", cfg, err, dev != nil && dev.OK)
		}
	}
	var all []vEvent
	var starts []int
	var scheds [][]vEvent
	for _, k := range []int{2, 3} {
		for si, s := range verdictSchedules(k) {
			// variants: SMTP; LMTP with the plain and the per-recipient backend; the
			// backends of aborted transfers returning late or panicking late
			type variant struct{ lmtp, perRcpt, panics bool }
			vars := []variant{{false, false, false}, {true, false, false}, {true, true, false}, {true, true, true}, {false, false, true}}
			for vi, v := range vars {
				if vi > 0 && (si+vi)%2 == 1 {
					continue // every other schedule for the variants beyond plain SMTP
				}
				lmtp := v.lmtp
				vsPerRcpt, vsPanic = v.perRcpt, v.panics
				abortWith := []string{"rset", "greet"}[si%2]
				recd, msg, err := runVerdictSchedule(s, lmtp, abortWith)
				nsched++
				// nothing of a finished schedule may be left behind: the server is stopped,
				// every gate open (C20: no goroutine outlives its connection)
				if err == nil {
					left := ""
					for dl := time.Now().Add(500 * time.Millisecond); ; {
						left = drv.GoroutineDump("go-smtp.(*Conn).handleBdat")
						if left == "" || time.Now().After(dl) {
							break
						}
						time.Sleep(2 * time.Millisecond)
					}
					if left != "" {
						lp := vprop(run)
						if run.Prop == "C20" {
							lp = "C20"
						}
						run.Report(evid.Div{Prop: lp, Key: "verdict:goroutine-left-behind", Msg: fmt.Sprintf("schedule %v (lmtp=%v, abort by %s): after the connection and the server have ended a delivery goroutine is still there:\n%s", s, lmtp, abortWith, left),
							Replay: map[string]interface{}{"engine": "verdict", "schedule": s, "lmtp": lmtp, "abort": abortWith}})
					}
				}
				rp := map[string]interface{}{"engine": "verdict", "schedule": s, "lmtp": lmtp, "abort": abortWith, "recorded": recd}
				if err != nil {
					var stuck *drv.StuckError
					if asStuck(err, &stuck) {
						hp := vprop(run)
						if run.Prop == "C20" {
							hp = "C20"
						}
						run.Report(evid.Div{Prop: hp, Key: "verdict:hang:" + stuck.Where, Msg: fmt.Sprintf("schedule %v (lmtp=%v, abort by %s): %v", s, lmtp, abortWith, stuck), Replay: rp})
						continue
					}
					evid.Inconclusive("verdict schedule %v: %v", s, err)
				}
				if msg != "" {
					run.Report(evid.Div{Prop: vprop(run), Key: "verdict:flow:" + firstWords(msg, 6), Msg: fmt.Sprintf("schedule %v (lmtp=%v, abort by %s): %s", s, lmtp, abortWith, msg), Replay: rp})
					continue
				}
				starts = append(starts, len(all)+1)
				scheds = append(scheds, s)
				all = append(all, recd...)
			}
		}
	}
	var nd strings.Builder
	for _, e := range all {
		b, _ := json.Marshal(e)
		nd.Write(b)
		nd.WriteByte('\n')
	}
	res, err := tlcrun.Run("Trace_Verdict", "Trace_Verdict.cfg", tlcrun.Opts{Workers: 1, Tags: []string{"HWM"}, Files: map[string][]byte{"trace.ndjson": []byte(nd.String())}})
	if err != nil {
		evid.Inconclusive("Trace_Verdict: %v", err)
	}
	hwm := 0
	if h := res.Tagged["HWM"]; len(h) > 0 {
		hwm, _ = strconv.Atoi(h[len(h)-1])
	}
	if !(res.OK && hwm == len(all)+1) {
		if hwm == 0 {
			evid.Inconclusive("Trace_Verdict did not run: %s\n%s", res.Violation, tailOut(res))
		}
		bad := hwm
		if res.Violation != "" && !strings.Contains(res.Violation, "ostcondition") && hwm > 1 {
			bad = hwm - 1
		}
		wi := 0
		for i := range starts {
			if starts[i] <= bad {
				wi = i
			}
		}
		ev := all[bad-1]
		run.Report(evid.Div{Prop: vprop(run), Key: fmt.Sprintf("verdict:attribution:%s", ev.Ev), Msg: fmt.Sprintf("gated schedule %v: recorded event %+v is not what Verdict.tla allows (%s): the final reply of a transfer must carry that transfer's own verdict", scheds[wi], ev, res.Violation),
			Replay: map[string]interface{}{"engine": "verdict", "schedule": scheds[wi], "event": ev}})
	}
	return mc.Distinct, nsched
}

// ---- late-start schedules (C03, C08) ----

// runLateStart holds the delivery goroutine of a chunked transfer before it
// calls the backend, ends the transfer with endWith, lets the goroutine go and
// records the order of events for Trace_Verdict.
func runLateStart(lmtp bool, endWith string) ([]vEvent, string, error) {
	srv := drv.Start(drv.Cfg{LMTP: lmtp, MaxLine: 2000})
	defer srv.Stop()
	cn, err := srv.Dial()
	if err != nil {
		return nil, "", err
	}
	defer cn.Close()
	cn.Output()
	be := srv.BE
	hello := "EHLO v.test\r\n"
	if lmtp {
		hello = "LHLO v.test\r\n"
	}
	if _, _, err := cn.Replies([]byte(hello)); err != nil {
		return nil, "", err
	}
	rec0 := []vEvent{{Ev: "reset"}}
	cn.HoldDeliveryStart()
	defer cn.ReleaseDeliveryStart()
	// an empty first chunk: the goroutine is launched, nothing has to be read yet
	rs, _, err := cn.Replies([]byte("MAIL FROM:<s1@x.test>\r\nRCPT TO:<r1@x.test>\r\nBDAT 0\r\n"))
	if err != nil {
		return rec0, "", err
	}
	if len(rs) != 3 || rs[2].Code != 250 {
		return rec0, fmt.Sprintf("start of the transfer answered %v", codes(rs)), nil
	}
	rec0 = append(rec0, vEvent{Ev: "start", T: 1})
	has := func(name, phase string) bool {
		for _, c := range be.Calls() {
			if c.Name == name && (phase == "" || c.Phase == phase) {
				return true
			}
		}
		return false
	}
	hasData := func(phase string) bool { return has("Data", phase) || has("LMTPData", phase) }
	if hasData("begin") {
		return rec0, "the delivery began although its goroutine is held at the gate", nil
	}
	endEv, endCb := "abort", "Reset"
	switch endWith {
	case "rset":
		err = cn.Send([]byte("RSET\r\n"))
	case "greet":
		err = cn.Send([]byte(hello))
	case "quit":
		err = cn.Send([]byte("QUIT\r\n"))
		endEv, endCb = "close", "Logout"
	case "eof":
		cn.CloseWrite()
		endEv, endCb = "close", "Logout"
	}
	if err != nil {
		return rec0, "", err
	}
	// either the end of the transfer is signalled to the backend while the
	// delivery is still held (recorded in that order), or the server waits for
	// the delivery: then it is let go first
	ended := false
	for dl := time.Now().Add(400 * time.Millisecond); time.Now().Before(dl); {
		if has(endCb, "") {
			ended = true
			break
		}
		time.Sleep(200 * time.Microsecond)
	}
	if ended {
		rec0 = append(rec0, vEvent{Ev: endEv})
	}
	cn.ReleaseDeliveryStart()
	for dl := time.Now().Add(3 * time.Second); time.Now().Before(dl) && !(hasData("end") || (ended && srvQuiet(be))); {
		time.Sleep(200 * time.Microsecond)
	}
	time.Sleep(2 * time.Millisecond)
	if hasData("begin") {
		rec0 = append(rec0, vEvent{Ev: "begin", T: 1})
		if !hasData("end") {
			return rec0, "the late delivery did not return", nil
		}
		rec0 = append(rec0, vEvent{Ev: "finish", T: 1})
	}
	if !ended {
		for dl := time.Now().Add(3 * time.Second); time.Now().Before(dl) && !has(endCb, ""); {
			time.Sleep(200 * time.Microsecond)
		}
		if !has(endCb, "") {
			return rec0, fmt.Sprintf("%s was never signalled to the backend", endCb), nil
		}
		rec0 = append(rec0, vEvent{Ev: endEv})
	}
	return rec0, "", nil
}

func srvQuiet(be *rec.Backend) bool { return be.Quiet() }

// lateStartFamily runs the late-start schedules and lets TLC judge each of
// them; a rejected one is a Data callback that began after the Reset that
// ended its transaction (C03) or after Logout (C08).
func lateStartFamily(run *evid.Run) int {
	n := 0
	for _, lmtp := range []bool{false, true} {
		for _, endWith := range []string{"rset", "greet", "quit", "eof"} {
			recd, msg, err := runLateStart(lmtp, endWith)
			n++
			prop := "C03"
			if endWith == "quit" || endWith == "eof" {
				prop = "C08"
			}
			rp := map[string]interface{}{"engine": "late-start", "lmtp": lmtp, "end": endWith, "recorded": recd}
			if err != nil {
				evid.Inconclusive("late-start schedule (%s): %v", endWith, err)
			}
			if msg != "" {
				run.Report(evid.Div{Prop: prop, Key: "late-start:flow:" + firstWords(msg, 6), Msg: fmt.Sprintf("late-start schedule (lmtp=%v, ended by %s): %s", lmtp, endWith, msg), Replay: rp})
				continue
			}
			var nd strings.Builder
			for _, e := range recd {
				b, _ := json.Marshal(e)
				nd.Write(b)
				nd.WriteByte('\n')
			}
			res, err := tlcrun.Run("Trace_Verdict", "Trace_Verdict.cfg", tlcrun.Opts{Workers: 1, Tags: []string{"HWM"}, Files: map[string][]byte{"trace.ndjson": []byte(nd.String())}})
			if err != nil {
				evid.Inconclusive("Trace_Verdict: %v", err)
			}
			hwm := 0
			if h := res.Tagged["HWM"]; len(h) > 0 {
				hwm, _ = strconv.Atoi(h[len(h)-1])
			}
			if res.OK && hwm == len(recd)+1 {
				continue
			}
			if hwm == 0 {
				evid.Inconclusive("Trace_Verdict did not run: %s\n%s", res.Violation, tailOut(res))
			}
			bad := hwm
			if bad > len(recd) {
				bad = len(recd)
			}
			ev := recd[bad-1]
			what := "after the Reset that ended its transaction"
			kind := "after-reset"
			if prop == "C08" {
				what, kind = "after Logout", "after-logout"
			}
			key := fmt.Sprintf("late-delivery-start:%s", kind)
			if ev.Ev != "begin" {
				key = fmt.Sprintf("late-start:rejected:%s:%s", ev.Ev, endWith)
			}
			run.Report(evid.Div{Prop: prop, Key: key, Msg: fmt.Sprintf("late-start schedule (lmtp=%v, first chunk BDAT 0, transfer ended by %s while the delivery goroutine had not been scheduled yet): recorded %v - Verdict.tla rejects event %+v: the Data callback began %s", lmtp, endWith, recd, ev, what), Replay: rp})
		}
	}
	return n
}

// vprop: the stale-verdict family speaks for C04 (a reply carries its own
// message's verdict) and, in LMTP mode, for C13 (each recipient's own status);
// it reports under the property whose check is running it.
func vprop(run *evid.Run) string {
	if run.Prop == "C13" || run.Prop == "C17" {
		// (C17: the error the backend returned for THIS message is the one the peer is owed)
		return run.Prop
	}
	return "C04" // (when C20 runs the family only hangs and left-behind goroutines are its business)
}
