package main

import (
	"bytes"
	"fmt"
	"math/rand"
	"strings"
	"sync"
	"time"

	"verifharness/drv"
	"verifharness/evid"
	"verifharness/rec"
	"verifharness/sessrep"
	"verifharness/wire"
)

type c05Chunk struct {
	N       int    `json:"n"`
	Last    bool   `json:"last"`
	Variant string `json:"variant"`   // "", "3args", "badlast"
	Kind    string `json:"kind"`      // payload generator
	SizeTxt string `json:"size_text"` // how the size is written (RFC 3030: 1*DIGIT, decimal; leading zeros allowed)
	payload []byte
}

type c05Conv struct {
	Lmtp     bool       `json:"lmtp"`
	MaxBytes int        `json:"maxBytes"`
	State    string     `json:"state"` // ok | nomail | rcptrej
	Plan     string     `json:"plan"`  // acc rej early mid1 mid4 eacc eacc1 eacc4
	Chunks   []c05Chunk `json:"chunks"`
	Marker   bool       `json:"marker"` // a NOOP between chunks
	Prior    int        `json:"prior"`  // octets of an earlier, completed chunked message on the same connection (0: none)
}

func c05Payload(kind string, n int, rng *rand.Rand) []byte {
	var src string
	switch kind {
	case "crlfdot":
		src = "\r\n.\r\n.\r\n\r\n.\r\n"
	case "cmd":
		src = "MAIL FROM:<bait@x>\r\nRCPT TO:<bait@x>\r\nQUIT\r\n"
	case "bin":
		b := make([]byte, n)
		for i := range b {
			b[i] = []byte{0, 0xff, 0x80, '\n', '\r', 0x7f, 1}[rng.Intn(7)]
		}
		return b
	default:
		src = "zzzzzzzzzzzzzzzzzzzzzzzz" // LF-free
	}
	var b []byte
	for len(b) < n {
		b = append(b, src...)
	}
	return b[:n]
}

// c05Step is one command of a conversation with its payload.
type c05Step struct {
	cmd     sessrep.CmdRec
	wire    []byte
	lineEnd int
	setup   func(be *rec.Backend)
}

func (cv *c05Conv) steps(idx int) []c05Step {
	var st []c05Step
	add := func(c sessrep.CmdRec, line string, payload []byte) {
		w := append([]byte(line+"\r\n"), payload...)
		st = append(st, c05Step{cmd: c, wire: w, lineEnd: len(line) + 2})
	}
	verb := "EHLO"
	if cv.Lmtp {
		verb = "LHLO"
	}
	add(sessrep.CmdRec{C: verb, A: "ok"}, verb+" c05.test", nil)
	if cv.State != "nomail" {
		add(sessrep.CmdRec{C: "MAIL", A: "ok"}, "MAIL FROM:<s@x.test>", nil)
		if cv.State == "rcptrej" {
			add(sessrep.CmdRec{C: "RCPT", A: "rej"}, "RCPT TO:<r1@x.test>", nil)
			st[len(st)-1].setup = func(be *rec.Backend) { be.RcptErrs = []error{fmt.Errorf("no such user")} }
		} else {
			add(sessrep.CmdRec{C: "RCPT", A: "ok"}, "RCPT TO:<r1@x.test>", nil)
			if cv.Lmtp && idx%2 == 0 {
				add(sessrep.CmdRec{C: "RCPT", A: "ok"}, "RCPT TO:<r2@x.test>", nil)
			}
		}
	}
	for i, ch := range cv.Chunks {
		line := "BDAT " + ch.SizeTxt
		switch ch.Variant {
		case "3args":
			if ch.Last {
				line += " LAST X"
			} else {
				line += " X Y"
			}
		case "badlast":
			line += " FOO"
		default:
			if ch.Last {
				line += " LAST"
			}
		}
		add(sessrep.CmdRec{C: "BDAT", A: ch.Variant, N: ch.N, L: ch.Last && ch.Variant != "badlast"}, line, ch.payload)
		if cv.Marker && i+1 < len(cv.Chunks) {
			add(sessrep.CmdRec{C: "NOOP"}, "NOOP", nil)
		}
	}
	add(sessrep.CmdRec{C: "NOOP"}, "NOOP", nil)
	return st
}

func (cv *c05Conv) plan(idx int) rec.DataPlan {
	p := rec.DataPlan{Buf: []int{1, 5, 4096}[idx%3]}
	switch cv.Plan {
	case "rej":
		p.Err = fmt.Errorf("verdict-%d", idx)
	case "early":
		p.ReadMode = rec.ReadNone
		p.Err = fmt.Errorf("verdict-%d", idx)
	case "mid1", "mid4":
		p.ReadMode = rec.ReadK
		p.K = map[string]int{"mid1": 1, "mid4": 4}[cv.Plan]
		p.Err = fmt.Errorf("verdict-%d", idx)
	case "eacc":
		p.ReadMode = rec.ReadNone // accepts at once
	case "eacc1", "eacc4":
		p.ReadMode = rec.ReadK // accepts after 1 / 4 octets
		p.K = map[string]int{"eacc1": 1, "eacc4": 4}[cv.Plan]
	}
	return p
}

type c05Obs struct {
	replies []wire.Reply
	calls   []rec.Call
	perStep [][]wire.Reply
	perCall [][]rec.Call
	synErr  string
}

func summarizeCalls(cs []rec.Call) string {
	var sb strings.Builder
	for _, c := range cs {
		sb.WriteString(c.Name + c.Phase)
		if c.Name == "Mail" {
			sb.WriteString("(" + c.From + ")")
		}
		if c.Name == "Rcpt" {
			sb.WriteString("(" + c.To + ")")
		}
		if c.Phase == "end" {
			fmt.Fprintf(&sb, "[%x|%s]", c.Data, c.ReadErr)
		}
		sb.WriteByte(' ')
	}
	return sb.String()
}

// run the conversation in a discipline; "lockstep" also returns per-step observations
func (cv *c05Conv) run(idx int, discipline string, rng *rand.Rand) (*c05Obs, sessrep.CfgRec, error) {
	cfg := sessrep.CfgRec{Lmtp: cv.Lmtp, MaxBytes: cv.MaxBytes, Binarymime: true}
	srv := drv.Start(sessrep.DrvCfg(cfg))
	defer srv.Stop()
	cn, err := srv.Dial()
	if err != nil {
		return nil, cfg, err
	}
	defer cn.Close()
	cn.Output()
	be := srv.BE
	steps := cv.steps(idx)
	be.Lock()
	be.DataPlans = []rec.DataPlan{cv.plan(idx)}
	for _, s := range steps {
		if s.setup != nil {
			s.setup(be)
		}
	}
	be.Unlock()
	obs := &c05Obs{}
	mark := be.NumCalls()
	var head []rec.Call
	if cv.Prior > 0 {
		// the greeting, then a complete chunked message of its own: the
		// conversation proper starts on a connection that has been used
		out, _, err := cn.Step(steps[0].wire)
		if err != nil {
			return nil, cfg, err
		}
		rs, _, _ := wire.ParseAll(out)
		obs.perStep = append(obs.perStep, rs)
		obs.perCall = append(obs.perCall, be.Since(mark))
		obs.replies = append(obs.replies, rs...)
		head = be.Since(mark)
		be.Lock()
		be.DataPlans = append([]rec.DataPlan{{}}, be.DataPlans...)
		if len(be.RcptErrs) > 0 {
			be.RcptErrs = append([]error{nil}, be.RcptErrs...)
		}
		if len(be.MailErrs) > 0 {
			be.MailErrs = append([]error{nil}, be.MailErrs...)
		}
		be.Unlock()
		prs, _, err := cn.Replies([]byte(fmt.Sprintf("MAIL FROM:<p@x.test>\r\nRCPT TO:<q@x.test>\r\nBDAT %d LAST\r\n%s", cv.Prior, strings.Repeat("p", cv.Prior))))
		if err != nil {
			return nil, cfg, err
		}
		if len(prs) != 3 || prs[2].Code != 250 {
			return nil, cfg, fmt.Errorf("the earlier message of %d octets was answered %v", cv.Prior, codes(prs))
		}
		for i := 0; i < 2000 && !be.Quiet(); i++ {
			time.Sleep(50 * time.Microsecond)
		}
		steps = steps[1:]
		mark = be.NumCalls()
	}
	waitData := func() {
		// an empty first chunk spawns the delivery without waiting for it
		if s := cn.State(); s != nil && s.Bdat {
			for i := 0; i < 20000 && be.InFlight() == 0 && !hasBegin(be.Since(mark)); i++ {
				cn.WaitIdle()
			}
		}
		cn.WaitIdle()
	}
	switch discipline {
	case "lockstep":
		for _, s := range steps {
			m := be.NumCalls()
			out, _, err := cn.Step(s.wire)
			if err != nil {
				return nil, cfg, err
			}
			if s.cmd.C == "BDAT" {
				waitData()
				o2, _ := cn.Output()
				out = append(out, o2...)
			}
			rs, rest, syn := wire.ParseAll(out)
			if syn != "" || len(rest) > 0 {
				obs.synErr = syn + fmt.Sprintf(" rest=%q", rest)
			}
			obs.perStep = append(obs.perStep, rs)
			obs.perCall = append(obs.perCall, be.Since(m))
			obs.replies = append(obs.replies, rs...)
		}
	default:
		var all []byte
		for _, s := range steps {
			all = append(all, s.wire...)
		}
		var segs [][]byte
		switch discipline {
		case "whole":
			segs = [][]byte{all}
		case "split": // command lines and payloads in separate writes, payloads octet by octet
			for _, s := range steps {
				segs = append(segs, s.wire[:s.lineEnd])
				step := 1
				if n := len(s.wire) - s.lineEnd; n > 24 {
					step = (n + 23) / 24 // long payloads: at most 24 pieces
				}
				for i := s.lineEnd; i < len(s.wire); i += step {
					j := i + step
					if j > len(s.wire) {
						j = len(s.wire)
					}
					segs = append(segs, s.wire[i:j])
				}
			}
		default:
			for left := all; len(left) > 0; {
				n := 1 + rng.Intn(len(left))
				if n > 37 {
					n = 1 + rng.Intn(37)
				}
				segs = append(segs, left[:n])
				left = left[n:]
			}
		}
		if discipline == "split" {
			// one segment at a time, waiting in between, so that a backend
			// failure inside a chunk happens while the rest of the chunk has
			// not arrived yet
			for _, sg := range segs {
				if err := cn.Send(sg); err != nil {
					break
				}
				if !cn.WaitIdle() {
					return nil, cfg, cn.NotIdleError("C05 split discipline")
				}
			}
		} else if err := cn.SendSegs(segs); err != nil {
			return nil, cfg, err
		}
		if !cn.WaitIdle() {
			return nil, cfg, cn.NotIdleError("C05 conversation")
		}
		waitData()
		out, _ := cn.Output()
		rs, rest, syn := wire.ParseAll(out)
		if syn != "" || len(rest) > 0 {
			obs.synErr = syn + fmt.Sprintf(" rest=%q", rest)
		}
		obs.replies = append(obs.replies, rs...)
	}
	obs.calls = append(head, be.Since(mark)...)
	return obs, cfg, nil
}

func hasBegin(cs []rec.Call) bool {
	for _, c := range cs {
		if c.Phase == "begin" {
			return true
		}
	}
	return false
}

// loopCalls keeps the command-loop callbacks in order and the data callbacks
// sorted to the end (their position relative to loop callbacks is scheduler business).
func normCalls(cs []rec.Call) string {
	var loop, data []rec.Call
	for _, c := range cs {
		if c.Name == "Data" || c.Name == "LMTPData" {
			data = append(data, c)
		} else {
			loop = append(loop, c)
		}
	}
	return summarizeCalls(loop) + "| " + summarizeCalls(data)
}

func genC05(rng *rand.Rand, n int) []*c05Conv {
	var out []*c05Conv
	sizes := []int{0, 0, 1, 2, 3, 5, 7, 11}
	kinds := []string{"crlfdot", "cmd", "bin", "run"}
	for i := 0; i < n; i++ {
		cv := &c05Conv{Lmtp: rng.Intn(3) == 0, Marker: rng.Intn(2) == 0}
		cv.State = []string{"ok", "ok", "ok", "ok", "nomail", "rcptrej"}[rng.Intn(6)]
		cv.Plan = []string{"acc", "acc", "rej", "early", "mid1", "mid4", "eacc", "eacc1", "eacc4"}[rng.Intn(9)]
		if rng.Intn(4) == 0 {
			cv.MaxBytes = 10
		}
		if rng.Intn(3) == 0 {
			cv.Prior = 1 + rng.Intn(9)
		}
		nch := 1 + rng.Intn(4)
		for j := 0; j < nch; j++ {
			ch := c05Chunk{N: sizes[rng.Intn(len(sizes))], Kind: kinds[rng.Intn(len(kinds))]}
			if rng.Intn(12) == 0 {
				ch.N = 260 // longer than the line limit (200), LF-free or not
			}
			if rng.Intn(14) == 0 {
				ch.Variant = []string{"3args", "badlast"}[rng.Intn(2)]
				if ch.N == 0 {
					ch.N = 6
				}
			}
			ch.Last = j == nch-1 && rng.Intn(5) != 0 || (ch.Variant == "3args" && rng.Intn(2) == 0)
			ch.SizeTxt = fmt.Sprint(ch.N)
			if rng.Intn(4) == 0 {
				ch.SizeTxt = strings.Repeat("0", 1+rng.Intn(3)) + ch.SizeTxt // still decimal
			}
			ch.payload = c05Payload(ch.Kind, ch.N, rng)
			cv.Chunks = append(cv.Chunks, ch)
		}
		out = append(out, cv)
	}
	return out
}

func init() {
	checks["C05"] = func(tier string) {
		run := evid.NewRun("C05", tier)
		mc := modelCheck("MC_Session", "MC_Session.cfg", 16)
		gs := dumpEdges("MC_Session", "Dump_Session.cfg")
		// (every BDAT command, and whatever abandons or ends a transfer between two chunks)
		st := tourSome(run, gs, func(e *sessrep.Edge) bool {
			return e.Lbl.Cmd.C == "BDAT" || (e.Src.Bdat != "none" && (e.Dst.Bdat == "none" || e.Dst.Closed))
		})
		zmc := modelCheck("MC_Size", "MC_Size.cfg", 16)
		zs := tourSome(run, dumpEdges("MC_Size", "Dump_Size.cfg"), func(e *sessrep.Edge) bool { return e.Lbl.Cmd.C == "BDAT" })
		nconv := 300
		if tier == "thorough" {
			nconv = 2000
		}
		rng := rand.New(rand.NewSource(run.Seed))
		convs := genC05(rng, nconv)
		var mu sync.Mutex
		var walks []sessrep.OneWalk
		var wg sync.WaitGroup
		sem := make(chan struct{}, 16)
		var firstErr error
		ndisc := 0
		for idx, cv := range convs {
			wg.Add(1)
			go func(idx int, cv *c05Conv) {
				defer wg.Done()
				sem <- struct{}{}
				defer func() { <-sem }()
				lrng := rand.New(rand.NewSource(run.Seed*7907 + int64(idx)))
				base, cfg, err := cv.run(idx, "lockstep", lrng)
				fail := func(err error) {
					mu.Lock()
					if firstErr == nil {
						firstErr = err
					}
					mu.Unlock()
				}
				if err != nil {
					var stuck *drv.StuckError
					if asStuck(err, &stuck) {
						run.Report(evid.Div{Prop: "C05", Key: "hang:" + stuck.Where, Msg: fmt.Sprintf("conversation %+v: %v", cv, stuck), Replay: cv})
						return
					}
					fail(err)
					return
				}
				rp := map[string]interface{}{"engine": "c05", "conversation": cv, "idx": idx}
				ctx := fmt.Sprintf("state=%s plan=%s lmtp=%v limit=%d chunks=%s", cv.State, cv.Plan, cv.Lmtp, cv.MaxBytes, chunkStr(cv.Chunks))
				key := fmt.Sprintf("c05:%s:%s:lmtp=%v:lim=%d", cv.State, cv.Plan, cv.Lmtp, cv.MaxBytes)
				if base.synErr != "" {
					run.Report(evid.Div{Prop: "C04", Key: key + ":syntax", Msg: ctx + ": malformed replies: " + base.synErr, Replay: rp})
					return
				}
				// ---- concretisation-level oracle on the lock-step run
				steps := cv.steps(idx)
				// payload octets copied into the FIRST transfer of the conversation
				var done []byte
				ended, completed := false, false
				for i, s := range steps {
					if s.cmd.C != "BDAT" || s.cmd.A != "" || ended {
						continue
					}
					rs := base.perStep[i]
					if len(rs) == 0 {
						continue
					}
					switch rs[0].Code {
					case 502:
						// no envelope: refused, payload discarded
					case 552:
						ended = len(done) > 0 || ended // over the limit: an open transfer is aborted
					default:
						done = append(done, s.wire[s.lineEnd:]...)
						if s.cmd.L {
							ended, completed = true, rs[0].Code != 552
						} else if rs[0].Code != 250 {
							ended = true
						}
					}
				}
				_ = completed
				concat := done
				for _, c := range base.calls {
					if strings.Contains(c.From, "bait") || strings.Contains(c.To, "bait") {
						run.Report(evid.Div{Prop: "C05", Key: key + ":bait", Msg: ctx + ": payload octets were executed as a command: " + c.Short(), Replay: rp})
					}
					if c.Phase == "end" && c.Xfer == firstXfer(base.calls) {
						if c.ReadErr == "EOF" && !bytes.Equal(c.Data, done) {
							run.Report(evid.Div{Prop: "C05", Key: key + ":octets", Msg: fmt.Sprintf("%s: backend read %q and end-of-file, the chunks' payloads are %q", ctx, c.Data, done), Replay: rp})
						}
						if c.ReadErr != "EOF" && !bytes.HasPrefix(append(append([]byte{}, done...), concat...), c.Data) && !bytes.HasPrefix(concat, c.Data) {
							run.Report(evid.Div{Prop: "C05", Key: key + ":octets-prefix", Msg: fmt.Sprintf("%s: backend read %q, not a prefix of the payloads %q", ctx, c.Data, done), Replay: rp})
						}
					}
				}
				begins := 0
				for _, c := range base.calls {
					if c.Phase == "begin" {
						begins++
					}
				}
				_ = begins
				// ---- trace for TLC
				w := sessrep.OneWalk{Cfg: cfg, Seed: int64(idx)}
				w.Events = append(w.Events, sessrep.TraceEvent{Ev: "reset", Cfg: &cfg, Replies: []sessrep.ReplyRec{}, Cbs: []sessrep.CbRec{}})
				firstData := true
				for i, s := range steps {
					c := s.cmd
					ev := sessrep.TraceEvent{Ev: "step", Replies: []sessrep.ReplyRec{}, Cbs: []sessrep.CbRec{}, NoSt: true, St: &sessrep.ProjRec{}}
					for _, r := range base.perStep[i] {
						ev.Replies = append(ev.Replies, sessrep.ReplyRec{Code: r.Code, Enh: enhInts(r.Enh)})
					}
					sawBegin := false
					for _, cl := range base.perCall[i] {
						cb := sessrep.CallName(cl)
						ev.Cbs = append(ev.Cbs, cb)
						if strings.HasSuffix(cb.N, ".begin") {
							sawBegin = true
						}
					}
					if c.C == "BDAT" && c.A == "" && sawBegin && firstData {
						c.P = cv.Plan
					}
					if sawBegin {
						firstData = false
						// later transfers of the conversation use the default plan
					}
					cc := c
					ev.Cmd = &cc
					w.Events = append(w.Events, ev)
					w.Hist = append(w.Hist, sessrep.StepRec{Cmd: cc.String(), Sent: []string{string(s.wire)}})
				}
				mu.Lock()
				walks = append(walks, w)
				mu.Unlock()
				// ---- segmentation independence: the same conversation under three more disciplines
				for _, d := range []string{"whole", "random", "split"} {
					o, _, err := cv.run(idx, d, lrng)
					if err != nil {
						var stuck *drv.StuckError
						if asStuck(err, &stuck) {
							run.Report(evid.Div{Prop: "C05", Key: "hang:" + d + ":" + stuck.Where, Msg: fmt.Sprintf("%s, discipline %s: %v", ctx, d, stuck), Replay: rp})
							continue
						}
						fail(err)
						return
					}
					mu.Lock()
					ndisc++
					mu.Unlock()
					if fmt.Sprint(codes(o.replies)) != fmt.Sprint(codes(base.replies)) || o.synErr != "" {
						run.Report(evid.Div{Prop: "C05", Key: key + ":segmentation-replies:" + d, Msg: fmt.Sprintf("%s: replies lock-step %v, %s %v %s", ctx, codes(base.replies), d, codes(o.replies), o.synErr), Replay: rp})
					}
					if normCalls(o.calls) != normCalls(base.calls) {
						run.Report(evid.Div{Prop: "C05", Key: key + ":segmentation-callbacks:" + d, Msg: fmt.Sprintf("%s: backend saw (lock-step) %s; (%s) %s", ctx, normCalls(base.calls), d, normCalls(o.calls)), Replay: rp})
					}
				}
			}(idx, cv)
		}
		wg.Wait()
		if firstErr != nil {
			evid.Inconclusive("C05 conversation: %v", firstErr)
		}
		vs, err := sessrep.ValidateWalks(run, walks, 1)
		if err != nil {
			evid.Inconclusive("trace validation: %v", err)
		}
		// the peer falls silent inside a chunk for longer than ReadTimeout (MC_Idle)
		imc := modelCheck("MC_Idle", "MC_Idle.cfg", 8)
		ist := tourSome(run, dumpEdges("MC_Idle", "Dump_Idle.cfg"), func(e *sessrep.Edge) bool { return e.Lbl.Cmd.C == "BDATSTALL" })
		fmt.Printf("C05: MC_Idle %d states; %d/%d stalled-chunk transitions replayed (a real ReadTimeout each)\n", imc.Distinct, ist.Covered, ist.Edges)
		fmt.Printf("C05: TLC %d states; %d+%d BDAT edges replayed; %d chunked conversations recorded and validated by TLC (%d accepted), each re-run under 3 more disciplines (%d runs)\n",
			mc.Distinct+zmc.Distinct, st.Covered, zs.Covered, vs.Walks, vs.Accepted, ndisc)
		samples := []interface{}{}
		if len(convs) > 1 {
			samples = append(samples, map[string]interface{}{"conversation": convs[0], "chunks": chunkStr(convs[0].Chunks)}, map[string]interface{}{"conversation": convs[1], "chunks": chunkStr(convs[1].Chunks)})
		}
		run.Finish("model_checking", evid.Coverage{
			"states": mc.Distinct + zmc.Distinct, "transitions": mc.Generated + zmc.Generated,
			"traces_validated_against_impl": st.Convs + zs.Convs + vs.Walks,
			"bdat_edges_replayed":           st.Covered + zs.Covered, "chunked_conversations": len(convs), "discipline_reruns": ndisc,
			"samples": samples, "checker_cmd": mc.Cmd,
		}, []string{"chunk sizes {0,1,2,3,5,7,11,260} in up to 4 chunks; payload generators: CRLF.CRLF runs, command look-alikes, NUL/8-bit/CR/LF mixes, LF-free runs (260 > line limit 200)",
			"segmentation independence is checked differentially: lock-step vs one write vs random segments vs line/payload split octet by octet with pauses"})
	}
}

func firstXfer(cs []rec.Call) int {
	for _, c := range cs {
		if c.Phase == "begin" {
			return c.Xfer
		}
	}
	return -1
}

func allPayload(cv *c05Conv) []byte {
	var b []byte
	for _, c := range cv.Chunks {
		b = append(b, c.payload...)
	}
	return b
}

func chunkStr(cs []c05Chunk) string {
	var sb strings.Builder
	for _, c := range cs {
		fmt.Fprintf(&sb, "[%d", c.N)
		if c.Last {
			sb.WriteString(" LAST")
		}
		if c.Variant != "" {
			sb.WriteString(" " + c.Variant)
		}
		sb.WriteString(" " + c.Kind + "]")
	}
	return sb.String()
}
