package main

import (
	"encoding/json"
	"errors"
	"fmt"
	"math/rand"
	"os"
	"sort"
	"strings"
	"sync"

	"verifharness/drv"

	"verifharness/evid"
	"verifharness/sessrep"
	"verifharness/tlcrun"
)

// sessionFamily runs the TLC model check of an MC_* instance of SmtpServer,
// dumps its edge graph and replays every edge on the real server.
type familyResult struct {
	MC     *tlcrun.Result
	Graphs []*sessrep.Graph
	Stats  sessrep.Stats
}

func modelCheck(module, cfg string, workers int) *tlcrun.Result {
	res, err := tlcrun.Run(module, cfg, tlcrun.Opts{Workers: workers})
	if err != nil {
		evid.Inconclusive("TLC %s/%s: %v", module, cfg, err)
	}
	if !res.OK {
		evid.Inconclusive("TLC reports an error in the specification itself (%s/%s): %s\n%s", module, cfg, res.Violation, res.Output)
	}
	return res
}

func dumpEdges(module, cfg string) []*sessrep.Graph {
	res, err := tlcrun.Run(module, cfg, tlcrun.Opts{Workers: 1, Tags: []string{"EDGE"}})
	if err != nil {
		evid.Inconclusive("TLC edge dump %s/%s: %v", module, cfg, err)
	}
	if !res.OK {
		evid.Inconclusive("TLC edge dump failed: %s\n%s", res.Violation, res.Output)
	}
	gs, err := sessrep.Load(res.Tagged["EDGE"])
	if err != nil {
		evid.Inconclusive("edge dump: %v", err)
	}
	return gs
}

func tourAll(run *evid.Run, gs []*sessrep.Graph, maxEdges int) sessrep.Stats {
	return tourSome(run, gs, nil)
}

func tourSome(run *evid.Run, gs []*sessrep.Graph, want func(*sessrep.Edge) bool) sessrep.Stats {
	maxEdges := 0
	var mu sync.Mutex
	var total sessrep.Stats
	var wg sync.WaitGroup
	sem := make(chan struct{}, 16)
	var firstErr error
	if os.Getenv("VERIF_DEBUG") != "" {
		sessrep.Debug = true
		gs = gs[:1]
	}
	for i, g := range gs {
		wg.Add(1)
		go func(i int, g *sessrep.Graph) {
			defer wg.Done()
			sem <- struct{}{}
			defer func() { <-sem }()
			rng := rand.New(rand.NewSource(run.Seed*1000 + int64(i)))
			st, err := sessrep.TourFiltered(g, run, rng, maxEdges, want)
			mu.Lock()
			defer mu.Unlock()
			if err != nil && firstErr == nil {
				firstErr = err
			}
			total.Edges += st.Edges
			total.Covered += st.Covered
			total.Steps += st.Steps
			total.Convs += st.Convs
			if len(total.Samples) < 3 {
				total.Samples = append(total.Samples, st.Samples...)
			}
		}(i, g)
	}
	wg.Wait()
	if firstErr != nil {
		evid.Inconclusive("replay: %v", firstErr)
	}
	return total
}

// walkAll records random walks on real servers (one server per
// configuration, walks in parallel over configurations).
func walkAll(run *evid.Run, cfgs []sessrep.CfgRec, perCfg, steps int) []sessrep.OneWalk {
	var mu sync.Mutex
	var all []sessrep.OneWalk
	var wg sync.WaitGroup
	sem := make(chan struct{}, 16)
	var firstErr error
	for i, cfg := range cfgs {
		wg.Add(1)
		go func(i int, cfg sessrep.CfgRec) {
			defer wg.Done()
			sem <- struct{}{}
			defer func() { <-sem }()
			srv := drv.Start(sessrep.DrvCfg(cfg))
			defer func() { srv.Stop() }()
			var mine []sessrep.OneWalk
			for w := 0; w < perCfg && !drv.TooManyHangs(); w++ {
				seed := run.Seed*1000003 + int64(i)*1009 + int64(w)
				rng := rand.New(rand.NewSource(seed))
				evs, hist, err := sessrep.Walk(srv, cfg, rng, steps)
				var stuck *drv.StuckError
				if errors.As(err, &stuck) {
					last := "?"
					if len(hist) > 0 {
						last = hist[len(hist)-1].Cmd
					}
					run.Report(evid.Div{Prop: "C04", Key: "hang:walk:" + stuck.Where, Msg: fmt.Sprintf("random walk: no reply after %s - %v\n%s", last, stuck, stuck.Dump),
						Replay: map[string]interface{}{"engine": "trace", "cfg": cfg, "walk_seed": seed, "transcript": hist}})
					// the server is wedged on that connection: use a fresh one
					srv.Stop()
					srv = drv.Start(sessrep.DrvCfg(cfg))
					continue
				}
				if err != nil && strings.Contains(err.Error(), "TLS handshake after 220 failed") {
					// the server said 220 to STARTTLS and then did not do a TLS handshake
					// (for instance because the connection was under TLS already)
					run.Report(evid.Div{Prop: "C10", Key: "walk:starttls-220-without-handshake", Msg: fmt.Sprintf("random walk: STARTTLS answered 220, then %v; transcript %v", err, hist),
						Replay: map[string]interface{}{"engine": "trace", "cfg": cfg, "walk_seed": seed, "transcript": hist}})
					srv.Stop()
					srv = drv.Start(sessrep.DrvCfg(cfg))
					continue
				}
				if err != nil {
					mu.Lock()
					if firstErr == nil {
						firstErr = fmt.Errorf("walk cfg %+v seed %d: %v (transcript %v)", cfg, seed, err, hist)
					}
					mu.Unlock()
					return
				}
				mine = append(mine, sessrep.OneWalk{Events: evs, Hist: hist, Cfg: cfg, Seed: seed})
			}
			mu.Lock()
			all = append(all, mine...)
			mu.Unlock()
		}(i, cfg)
	}
	wg.Wait()
	if firstErr != nil {
		evid.Inconclusive("random walk: %v", firstErr)
	}
	sort.SliceStable(all, func(i, j int) bool { return all[i].Seed < all[j].Seed })
	return all
}

func replayFile(path string) {
	b, err := os.ReadFile(path)
	if err != nil {
		fmt.Println(err)
		os.Exit(2)
	}
	var f struct {
		Property string          `json:"property"`
		Key      string          `json:"key"`
		Msg      string          `json:"msg"`
		Replay   json.RawMessage `json:"replay"`
	}
	if err := json.Unmarshal(b, &f); err != nil {
		fmt.Println(err)
		os.Exit(2)
	}
	var eng struct {
		Engine string `json:"engine"`
	}
	json.Unmarshal(f.Replay, &eng)
	fmt.Printf("replaying %s (%s): %s\n", f.Property, eng.Engine, f.Key)
	fn, ok := replayers[eng.Engine]
	if !ok {
		fmt.Printf("no replayer for engine %q\n", eng.Engine)
		os.Exit(2)
	}
	if fn(f.Property, f.Replay) {
		fmt.Printf("VIOLATION property=%s replay=%s\n", f.Property, path)
		os.Exit(1)
	}
	fmt.Println("not reproduced")
	os.Exit(0)
}

var replayers = map[string]func(prop string, raw json.RawMessage) bool{}

type sessrepGraph = sessrep.Graph

func asStuck(err error, target **drv.StuckError) bool { return errors.As(err, target) }
