package main

import (
	"fmt"
	"math/rand"
	"sync"

	"verifharness/drv"
	"verifharness/evid"
	"verifharness/sessrep"
)

// pipelinedAll replays random paths of every graph fully pipelined and in
// random segmentations.
func pipelinedAll(run *evid.Run, gs []*sessrep.Graph, perGraph, maxLen int) (n int, samples []interface{}) {
	var mu sync.Mutex
	var wg sync.WaitGroup
	sem := make(chan struct{}, 16)
	var firstErr error
	for gi, g := range gs {
		wg.Add(1)
		go func(gi int, g *sessrep.Graph) {
			defer wg.Done()
			sem <- struct{}{}
			defer func() { <-sem }()
			srv := drv.Start(sessrep.DrvCfg(g.Cfg))
			defer srv.Stop()
			rng := rand.New(rand.NewSource(run.Seed*7919 + int64(gi)))
			for i := 0; i < perGraph && !drv.TooManyHangs(); i++ {
				path := g.RandomPath(rng, 2+rng.Intn(maxLen))
				if len(path) == 0 {
					continue
				}
				for _, mode := range []string{"pipelined", "segmented"} {
					divs, tr, err := sessrep.Pipelined(g, srv, path, mode, rng)
					mu.Lock()
					if err != nil && firstErr == nil {
						firstErr = err
					}
					n++
					if len(samples) < 2 && len(path) > 5 && tr != nil {
						samples = append(samples, tr)
					}
					mu.Unlock()
					if err != nil {
						return
					}
					for _, d := range divs {
						run.Report(d)
					}
				}
			}
		}(gi, g)
	}
	wg.Wait()
	if firstErr != nil {
		evid.Inconclusive("pipelined replay: %v", firstErr)
	}
	return
}

func init() {
	checks["C04"] = func(tier string) {
		run := evid.NewRun("C04", tier)
		mc := modelCheck("MC_Session", "MC_Session.cfg", 16)
		gs := dumpEdges("MC_Session", "Dump_Session.cfg")
		emc := modelCheck("MC_Err", "MC_Err.cfg", 16)
		mc.Distinct += emc.Distinct
		mc.Generated += emc.Generated
		gs = append(gs, dumpEdges("MC_Err", "Dump_Err.cfg")...)
		st := tourAll(run, gs, 0)
		// the TLS / AUTH family, lock-step only (a TLS upgrade cannot be pipelined)
		amc := modelCheck("MC_Auth", "MC_Auth.cfg", 16)
		mc.Distinct += amc.Distinct
		mc.Generated += amc.Generated
		ast := tourAll(run, dumpEdges("MC_Auth", "Dump_Auth.cfg"), 0)
		st.Covered += ast.Covered
		st.Edges += ast.Edges
		st.Convs += ast.Convs
		per, maxLen := 150, 25
		if tier == "thorough" {
			per, maxLen = 2500, 40
		}
		np, psamples := pipelinedAll(run, gs, per, maxLen)
		var cfgs []sessrep.CfgRec
		for _, g := range gs {
			cfgs = append(cfgs, g.Cfg)
		}
		perCfg, steps := 15, 40
		if tier == "thorough" {
			perCfg, steps = 150, 60
		}
		walks := walkAll(run, cfgs, perCfg, steps)
		vs, err := sessrep.ValidateWalks(run, walks, 1)
		if err != nil {
			evid.Inconclusive("trace validation: %v", err)
		}
		// LMTP: one final reply per accepted recipient whatever the backend program
		// (duplicates, statuses set or left to the return value): a reply that never
		// comes is a proven hang
		lcases := genLmtp(3)
		nlh := 0
		{
			var lwg sync.WaitGroup
			var lmu sync.Mutex
			lsem := make(chan struct{}, 16)
			for i, c := range lcases {
				lwg.Add(1)
				go func(i int, c *lmtpCase) {
					defer lwg.Done()
					lsem <- struct{}{}
					defer func() { <-lsem }()
					if drv.TooManyHangs() {
						return
					}
					msg, err := runLmtpCase(c, i)
					var stuck *drv.StuckError
					lmu.Lock()
					defer lmu.Unlock()
					if err != nil && asStuck(err, &stuck) {
						nlh++
						run.Report(evid.Div{Prop: "C04", Key: "lmtp-replies-missing:" + c.Mode + ":" + stuck.Where, Msg: fmt.Sprintf("LMTP recipients %v, backend program %+v -> %s (%s): the final replies never complete - %v", c.Rcpts, c.Calls, c.Outcome, c.Mode, stuck), Replay: c})
					} else if err == nil && msg != "" {
						run.Report(evid.Div{Prop: "C04", Key: "lmtp-replies-shape:" + c.Mode + ":" + c.Outcome, Msg: fmt.Sprintf("LMTP recipients %v, backend program %+v -> %s (%s): %s", c.Rcpts, c.Calls, c.Outcome, c.Mode, msg), Replay: c})
					}
				}(i, c)
			}
			lwg.Wait()
		}
		fmt.Printf("C04: %d LMTP backend programs run on the real server (one final reply per accepted recipient), %d hangs\n", len(lcases), nlh)
		np += len(lcases)
		vstates, vsched := verdictFamily(run)
		fmt.Printf("C04: Verdict.tla %d states (violated with the deviation switched on); %d gated stale-verdict schedules replayed and validated by TLC\n", vstates, vsched)
		mc.Distinct += vstates
		np += vsched
		rc, rev := repoTestTraces(run, map[string]bool{"C04": true})
		fmt.Printf("C04: %d connections (%d hook events) of the repository's own test suite validated by TLC (enhanced code of every reply)\n", rc, rev)
		fmt.Printf("C04: TLC %d states; %d/%d edges lock-step; %d pipelined/segmented paths; %d recorded walks validated (%d accepted)\n",
			mc.Distinct, st.Covered, st.Edges, np, vs.Walks, vs.Accepted)
		samples := append(st.Samples, psamples...)
		run.Finish("model_checking", evid.Coverage{
			"states": mc.Distinct, "transitions": mc.Generated,
			"traces_validated_against_impl": st.Convs + np + vs.Walks,
			"edges_replayed_lockstep":       st.Covered, "edges_in_graph": st.Edges,
			"paths_pipelined_and_segmented": np, "recorded_walks_validated": vs.Walks,
			"samples": samples, "exhaustive": st.Covered == st.Edges, "checker_cmd": mc.Cmd,
		}, []string{"every reply is parsed by a strict RFC 5321 4.2 parser (CRLF only, same code on all lines, text octets HT/0x20-0x7E/>=0x80, enhanced code class)",
			"stale-verdict schedules of aborted chunked transfers are the Bdat.tla family"})
	}
}
