package main

import (
	"encoding/json"
	"fmt"
	"reflect"
	"strings"
	"sync"
	"time"

	smtp "github.com/emersion/go-smtp"

	"verifharness/drv"
	"verifharness/evid"
	"verifharness/rec"
	"verifharness/tlcrun"
)

type gCase struct {
	What string   `json:"what"`
	Kind string   `json:"kind"`
	W    []string `json:"w"`
	En   []string `json:"en"`
	Lim  bool     `json:"lim"`
	V    string   `json:"v"`
}

func pathText(w []string, rot int) string {
	var sb strings.Builder
	for i, t := range w {
		switch t {
		case "a":
			// mixed case: the mailbox must arrive exactly as sent
			sb.WriteByte("aBcXyZmQ"[(rot+i)%8])
		case "1":
			sb.WriteByte("0739"[(rot+i)%4])
		case "h":
			sb.WriteString("é")
		case "q":
			sb.WriteByte('"')
		case "b":
			sb.WriteByte('\\')
		case "s":
			sb.WriteByte(' ')
		default:
			sb.WriteString(t)
		}
	}
	return sb.String()
}

type paramSpec struct {
	text string
	mail func(o *smtp.MailOptions)
	rcpt func(o *smtp.RcptOptions)
}

var rrvsTime = time.Date(2014, 4, 3, 23, 1, 0, 0, time.UTC)

var paramTable = map[string]paramSpec{
	"SIZE=num":        {text: "SIZE=500", mail: func(o *smtp.MailOptions) { o.Size = 500 }},
	"SIZE=over":       {text: "SIZE=2000", mail: func(o *smtp.MailOptions) { o.Size = 2000 }},
	"SIZE=junk":       {text: "SIZE=12x"},
	"SIZE=big":        {text: "SIZE=4294967295", mail: func(o *smtp.MailOptions) { o.Size = 4294967295 }},
	"SIZE=signed":     {text: "SIZE=-5"},
	"BODY=7BIT":       {text: "BODY=7BIT", mail: func(o *smtp.MailOptions) { o.Body = smtp.Body7Bit }},
	"BODY=8BITMIME":   {text: "body=8bitmime", mail: func(o *smtp.MailOptions) { o.Body = smtp.Body8BitMIME }},
	"BODY=BINARYMIME": {text: "BODY=BINARYMIME", mail: func(o *smtp.MailOptions) { o.Body = smtp.BodyBinaryMIME }},
	"BODY=junk":       {text: "BODY=FOO"},
	"SMTPUTF8":        {text: "SMTPUTF8", mail: func(o *smtp.MailOptions) { o.UTF8 = true }},
	"REQUIRETLS":      {text: "requiretls", mail: func(o *smtp.MailOptions) { o.RequireTLS = true }},
	"RET=FULL":        {text: "RET=FULL", mail: func(o *smtp.MailOptions) { o.Return = smtp.DSNReturnFull }},
	"RET=HDRS":        {text: "ret=hdrs", mail: func(o *smtp.MailOptions) { o.Return = smtp.DSNReturnHeaders }},
	"RET=junk":        {text: "RET=ALL"},
	"ENVID=xtext":     {text: "ENVID=QQ+2B314+3D", mail: func(o *smtp.MailOptions) { o.EnvelopeID = "QQ+314=" }},
	"ENVID=badxtext":  {text: "ENVID=a+2"},
	"ENVID=empty":     {text: "ENVID="},
	"AUTH=mailbox":    {text: "AUTH=e+3Dmc2@example.com", mail: func(o *smtp.MailOptions) { a := "e=mc2@example.com"; o.Auth = &a }},
	"AUTH=null":       {text: "AUTH=<>", mail: func(o *smtp.MailOptions) { a := ""; o.Auth = &a }},
	"AUTH=badxtext":   {text: "AUTH=a+ZZ@x"},
	"ENVID=rawequals": {text: "ENVID=QQ=314"},
	"AUTH=rawequals":  {text: "AUTH=e=mc2@example.com"},
	"ORCPT=rawequals": {text: "ORCPT=rfc822;e=mc2@x.test"},
	"ENVID=rawctl":    {text: "ENVID=QQ\x01+2B314"},
	"ENVID=raw8bit":   {text: "ENVID=caf\xc3\xa9"},
	"ORCPT=rawctl":    {text: "ORCPT=rfc822;b\x7f+2Bc@x.test"},
	"UNKNOWN=1":       {text: "FOO=1"},
	"UNKNOWN":         {text: "FOO"},
	"NOTIFY=NEVER":    {text: "NOTIFY=NEVER", rcpt: func(o *smtp.RcptOptions) { o.Notify = []smtp.DSNNotify{smtp.DSNNotifyNever} }},
	"NOTIFY=SUCCESS,FAILURE": {text: "notify=success,FAILURE", rcpt: func(o *smtp.RcptOptions) {
		o.Notify = []smtp.DSNNotify{smtp.DSNNotifySuccess, smtp.DSNNotifyFailure}
	}},
	"NOTIFY=NEVER,SUCCESS": {text: "NOTIFY=NEVER,SUCCESS"},
	"NOTIFY=junk":          {text: "NOTIFY=BAR"},
	// notify-list = notify-list-element *( "," notify-list-element ): no empty elements
	"NOTIFY=emptyelem":     {text: "NOTIFY=SUCCESS,,DELAY"},
	"NOTIFY=trailingcomma": {text: "NOTIFY=FAILURE,"},
	"ORCPT=rfc822": {text: "ORCPT=rfc822;a+2Bb@x.test", rcpt: func(o *smtp.RcptOptions) {
		o.OriginalRecipientType, o.OriginalRecipient = smtp.DSNAddressTypeRFC822, "a+b@x.test"
	}},
	"ORCPT=utf-8": {text: "ORCPT=utf-8;a\\x{3D}b@x.test", rcpt: func(o *smtp.RcptOptions) {
		o.OriginalRecipientType, o.OriginalRecipient = smtp.DSNAddressTypeUTF8, "a=b@x.test"
	}},
	"ORCPT=badtype": {text: "ORCPT=x400;a@b"},
	"ORCPT=notype":  {text: "ORCPT=a@b"},
	"RRVS=time":     {text: "RRVS=2014-04-03T23:01:00Z", rcpt: func(o *smtp.RcptOptions) { o.RequireRecipientValidSince = rrvsTime }},
	"RRVS=junk":     {text: "RRVS=yesterday"},
}

type gWorker struct {
	srv *drv.Server
	cn  *drv.Conn
	n   int
}

func (g *gWorker) reset(cfg drv.Cfg) error {
	if g.cn != nil {
		g.cn.Close()
	}
	if g.srv != nil {
		g.srv.Stop()
	}
	g.srv = drv.Start(cfg)
	cn, err := g.srv.Dial()
	if err != nil {
		return err
	}
	g.cn = cn
	cn.Output()
	_, _, err = cn.Replies([]byte("EHLO c11.test\r\n"))
	g.n = 0
	return err
}

// ask sends one MAIL or RCPT line in a fresh transaction and returns reply
// code and the callback it caused (nil if none).
//
// pre: the line is preceded, in the same transaction state, by a command of the
// same kind that carries every parameter and is refused by the backend: what
// was parsed for a refused command is no part of the next one.
func (g *gWorker) ask(kind, line string, pre, all bool) (int, *rec.Call, error) {
	be := g.srv.BE
	if kind == "rcpt" {
		if rs, _, err := g.cn.Replies([]byte("MAIL FROM:<s@x.test>\r\n")); err != nil || len(rs) != 1 || rs[0].Code != 250 {
			return 0, nil, fmt.Errorf("MAIL before RCPT: %v %v", rs, err)
		}
	}
	if pre {
		refusal := &smtp.SMTPError{Code: 550, EnhancedCode: smtp.EnhancedCode{5, 7, 1}, Message: "not this one"}
		preLine := "MAIL FROM:<pre@x.test> SIZE=77 BODY=8BITMIME"
		if all {
			preLine += " SMTPUTF8 REQUIRETLS RET=HDRS ENVID=pre AUTH=pre@x.test"
		}
		be.Lock()
		if kind == "rcpt" {
			be.RcptErrs = []error{refusal}
			preLine = "RCPT TO:<pre@x.test>"
			if all {
				preLine += " NOTIFY=SUCCESS,DELAY ORCPT=rfc822;pre@x.test RRVS=2014-04-03T23:01:00Z"
			}
		} else {
			be.MailErrs = []error{refusal}
		}
		be.Unlock()
		if rs, _, err := g.cn.Replies([]byte(preLine + "\r\n")); err != nil || len(rs) != 1 || rs[0].Code != 550 {
			return 0, nil, fmt.Errorf("the refused command before the case (%q): %v %v", preLine, codes(rs), err)
		}
	}
	mark := be.NumCalls()
	rs, _, err := g.cn.Replies([]byte(line + "\r\n"))
	if err != nil {
		return 0, nil, err
	}
	if len(rs) != 1 {
		return 0, nil, fmt.Errorf("%d replies to %q", len(rs), line)
	}
	var cb *rec.Call
	want := "Mail"
	if kind == "rcpt" {
		want = "Rcpt"
	}
	for _, c := range be.Since(mark) {
		if c.Name == want {
			cc := c
			cb = &cc
		}
	}
	if _, _, err := g.cn.Replies([]byte("RSET\r\n")); err != nil {
		return 0, nil, err
	}
	g.n++
	return rs[0].Code, cb, nil
}

func init() {
	checks["C11"] = func(tier string) {
		run := evid.NewRun("C11", tier)
		mcCfg, dumpCfg := "MC_Grammar.cfg", "Dump_Grammar.cfg"
		if tier == "thorough" {
			mcCfg, dumpCfg = "MC_Grammar_thorough.cfg", "Dump_Grammar_thorough.cfg"
		}
		mc := modelCheck("Grammar", mcCfg, 16)
		res, err := tlcrun.Run("Grammar", dumpCfg, tlcrun.Opts{Workers: 1, Tags: []string{"G"}})
		if err != nil || !res.OK {
			evid.Inconclusive("TLC dump of Grammar: %v", err)
		}
		var cases []*gCase
		for _, p := range res.Tagged["G"] {
			c := &gCase{}
			if err := json.Unmarshal([]byte(p), c); err != nil {
				evid.Inconclusive("G: %v", err)
			}
			cases = append(cases, c)
		}
		if int64(len(cases)) != mc.Distinct {
			evid.Inconclusive("TLC printed %d cases for %d states", len(cases), mc.Distinct)
		}
		var mu sync.Mutex
		var wg sync.WaitGroup
		nw := 16
		judged, unspec := 0, 0
		var firstErr error
		for wk := 0; wk < nw; wk++ {
			wg.Add(1)
			go func(wk int) {
				defer wg.Done()
				g := &gWorker{}
				curKey := ""
				defer func() {
					if g.cn != nil {
						g.cn.Close()
					}
					if g.srv != nil {
						g.srv.Stop()
					}
				}()
				for i := wk; i < len(cases); i += nw {
					c := cases[i]
					if c.V == "unspec" {
						mu.Lock()
						unspec++
						mu.Unlock()
						continue
					}
					all := len(c.En) > 0
					cfg := drv.Cfg{MaxLine: 2000, DSN: all, UTF8: all, RequireTLS: all, RRVS: all, Binarymime: all}
					if c.Lim {
						cfg.MaxBytes = 1000
					}
					key := fmt.Sprintf("%v/%v", all, c.Lim)
					if key != curKey || g.n > 2000 {
						if err := g.reset(cfg); err != nil {
							mu.Lock()
							if firstErr == nil {
								firstErr = err
							}
							mu.Unlock()
							return
						}
						curKey = key
					}
					prefix := "MAIL FROM:"
					if c.Kind == "rcpt" {
						prefix = "RCPT TO:"
					}
					var line, wantAddr string
					wantM, wantR := smtp.MailOptions{}, smtp.RcptOptions{}
					if c.What == "path" {
						txt := pathText(c.W, i)
						line = prefix + txt
						if c.V == "valid" {
							wantAddr = txt[1 : len(txt)-1]
							if strings.HasPrefix(wantAddr, "\"") {
								// quoted-string local part: the content with the quoted-pairs resolved
								var sb strings.Builder
								j := 1
								for j < len(wantAddr) && wantAddr[j] != '"' {
									if wantAddr[j] == '\\' {
										j++
									}
									sb.WriteByte(wantAddr[j])
									j++
								}
								wantAddr = sb.String() + wantAddr[j+1:]
							}
						}
					} else {
						wantAddr = "Pq.Rs@X.Test"
						line = prefix + "<" + wantAddr + ">"
						for _, p := range c.W {
							sp := paramTable[p]
							line += " " + sp.text
							if sp.mail != nil {
								sp.mail(&wantM)
							}
							if sp.rcpt != nil {
								sp.rcpt(&wantR)
							}
						}
					}
					code, cb, err := g.ask(c.Kind, line, i%3 == 1, all)
					if err != nil {
						mu.Lock()
						if firstErr == nil {
							firstErr = fmt.Errorf("%q: %v", line, err)
						}
						mu.Unlock()
						return
					}
					mu.Lock()
					judged++
					mu.Unlock()
					shape := strings.Join(c.W, "")
					if c.What == "params" {
						shape = strings.Join(c.W, "+")
					}
					rp := map[string]interface{}{"engine": "c11", "case": c, "line": line}
					switch c.V {
					case "invalid":
						if code/100 != 5 || cb != nil {
							run.Report(evid.Div{Prop: "C11", Key: fmt.Sprintf("c11:accepted-invalid:%s:%s:%s", c.What, c.Kind, shape),
								Msg: fmt.Sprintf("%q (extensions enabled: %v, size limit: %v) is malformed per Grammar.tla and must be refused with 5xx without calling the backend: reply %d, callback %v", line, all, c.Lim, code, cb != nil), Replay: rp})
						}
					case "valid":
						if code != 250 || cb == nil {
							run.Report(evid.Div{Prop: "C11", Key: fmt.Sprintf("c11:refused-valid:%s:%s:%s", c.What, c.Kind, shape),
								Msg: fmt.Sprintf("%q (extensions enabled: %v, size limit: %v) is well-formed per Grammar.tla: reply %d, callback %v", line, all, c.Lim, code, cb != nil), Replay: rp})
							break
						}
						got := cb.From
						if c.Kind == "rcpt" {
							got = cb.To
						}
						if got != wantAddr {
							run.Report(evid.Div{Prop: "C11", Key: fmt.Sprintf("c11:mailbox:%s:%s", c.Kind, shape), Msg: fmt.Sprintf("%q: backend received mailbox %q, sent %q", line, got, wantAddr), Replay: rp})
						}
						if c.Kind == "mail" {
							if !reflect.DeepEqual(*cb.MailOpts, wantM) {
								run.Report(evid.Div{Prop: "C11", Key: fmt.Sprintf("c11:options:mail:%s", shape), Msg: fmt.Sprintf("%q: backend received %+v (auth %s), expected %+v (auth %s)", line, *cb.MailOpts, derefS(cb.MailOpts.Auth), wantM, derefS(wantM.Auth)), Replay: rp})
							}
						} else {
							gr := *cb.RcptOpts
							if len(gr.Notify) == 0 {
								gr.Notify = nil
							}
							if !reflect.DeepEqual(gr.Notify, wantR.Notify) || gr.OriginalRecipient != wantR.OriginalRecipient || gr.OriginalRecipientType != wantR.OriginalRecipientType || !gr.RequireRecipientValidSince.Equal(wantR.RequireRecipientValidSince) {
								run.Report(evid.Div{Prop: "C11", Key: fmt.Sprintf("c11:options:rcpt:%s", shape), Msg: fmt.Sprintf("%q: backend received %+v, expected %+v", line, gr, wantR), Replay: rp})
							}
						}
					}
				}
			}(wk)
		}
		wg.Wait()
		if firstErr != nil {
			evid.Inconclusive("C11: %v", firstErr)
		}
		fmt.Printf("C11: Grammar.tla %d cases enumerated and classified by TLC; %d judged on the real server (%d unspecified, not judged)\n", mc.Distinct, judged, unspec)
		run.Finish("model_checking", evid.Coverage{
			"states": mc.Distinct, "transitions": mc.Generated, "traces_validated_against_impl": judged,
			"cases": len(cases), "judged": judged, "unspecified_not_judged": unspec, "exhaustive": true,
			"samples":     []interface{}{cases[len(cases)/3], cases[len(cases)-1]},
			"checker_cmd": mc.Cmd,
		}, []string{"the reference grammar in Grammar.tla is part of the trusted base: strict RFC 5321 dot-string paths are 'valid', structural faults 'invalid', lenient forms (no brackets, source routes, quoted local parts, dot oddities, odd domain octets, 8-bit) unspecified and not judged",
			"token strings up to length 4 (quick) / 5 (thorough) over 11 path tokens for MAIL and RCPT; all parameter lists up to 2 tokens over 20 MAIL / 11 RCPT parameter tokens x extensions all on / all off x size limit"})
	}
}
