package main

import (
	"fmt"

	"verifharness/evid"
	"verifharness/sessrep"
)

func sessionCheck(prop, tier, module, mcCfg, dumpCfg string, extraNote string) {
	sessionCheckWith(prop, tier, module, mcCfg, dumpCfg, extraNote, nil)
}

// sessionCheckWith additionally runs an extra family that reports into the
// same run and returns (TLC states, cases run).
func sessionCheckWith(prop, tier, module, mcCfg, dumpCfg string, extraNote string, extra func(run *evid.Run) (int64, int)) {
	run := evid.NewRun(prop, tier)
	var extraStates int64
	extraCases := 0
	if extra != nil {
		extraStates, extraCases = extra(run)
	}
	if prop == "C03" {
		// the repository's own tests under the observer invariants (envelope only cleared with Reset/Logout)
		rc, rev := repoTestTraces(run, map[string]bool{"C03": true})
		fmt.Printf("C03: %d connections (%d hook events) of the repository's own test suite validated by TLC against the observer invariants\n", rc, rev)
		extraCases += rc
		// the delivery goroutine held before it calls the backend: Data only inside its own transaction
		mcv := modelCheck("Verdict", "MC_Verdict.cfg", 4)
		nl := lateStartFamily(run)
		fmt.Printf("C03: Verdict.tla %d states; %d late-start schedules (delivery goroutine held at its start) judged by TLC\n", mcv.Distinct, nl)
		extraStates += mcv.Distinct
		extraCases += nl
	}
	mc := modelCheck(module, mcCfg, 16)
	gs := dumpEdges(module, dumpCfg)
	if module == "MC_Session" {
		// the error-counting family is a separate instance
		emc := modelCheck("MC_Err", "MC_Err.cfg", 16)
		mc.Distinct += emc.Distinct
		mc.Generated += emc.Generated
		gs = append(gs, dumpEdges("MC_Err", "Dump_Err.cfg")...)
		// and so is the TLS / AUTH family: a TLS upgrade in the middle of a
		// transaction ends the whole session (C03's last-but-one sentence)
		amc := modelCheck("MC_Auth", "MC_Auth.cfg", 16)
		mc.Distinct += amc.Distinct
		mc.Generated += amc.Generated
		gs = append(gs, dumpEdges("MC_Auth", "Dump_Auth.cfg")...)
	}
	maxEdges := 0
	st := tourAll(run, gs, maxEdges)
	// code -> spec: random walks recorded on the real server, validated by TLC
	var cfgs []sessrep.CfgRec
	for _, g := range gs {
		cfgs = append(cfgs, g.Cfg)
	}
	perCfg, steps := 25, 40
	if tier == "thorough" {
		perCfg, steps = 250, 60
	}
	walks := walkAll(run, cfgs, perCfg, steps)
	vs, err := sessrep.ValidateWalks(run, walks, 1)
	if err != nil {
		evid.Inconclusive("trace validation: %v", err)
	}
	fmt.Printf("%s: %d recorded walks (%d events) validated by TLC: %d accepted, %d rejected\n", prop, vs.Walks, vs.Events, vs.Accepted, vs.Rejected)
	fmt.Printf("%s: TLC %d states / %d transitions; replayed %d/%d edges in %d steps over %d connections, %d configurations\n",
		prop, mc.Distinct, mc.Generated, st.Covered, st.Edges, st.Steps, st.Convs, len(gs))
	cov := evid.Coverage{
		"states":                        mc.Distinct + extraStates,
		"extra_family_cases":            extraCases,
		"transitions":                   mc.Generated,
		"traces_validated_against_impl": st.Convs + vs.Walks,
		"replayed_conversations":        st.Convs,
		"recorded_walks_validated":      vs.Walks,
		"recorded_walk_events":          vs.Events,
		"recorded_walks_accepted":       vs.Accepted,
		"edges_in_graph":                st.Edges,
		"edges_replayed_on_real_server": st.Covered,
		"conversation_steps":            st.Steps,
		"configurations":                len(gs),
		"samples":                       st.Samples,
		"exhaustive":                    st.Covered == st.Edges,
		"checker_cmd":                   mc.Cmd,
		"explanation":                   "TLC checked the invariants and step properties of " + module + " on the whole bounded state graph; every transition of that graph was then executed on the real server (transition tours) and replies, callbacks and projected state compared. " + extraNote,
	}
	run.Finish("model_checking", cov, []string{
		"bounded instance: constants of " + mcCfg,
		"one concrete representative per abstract command (argument space is C11's)",
		"eager delivery: chunked deliveries complete inside their step",
	})
}

func init() {
	checks["C03"] = func(tier string) {
		sessionCheck("C03", tier, "MC_Session", "MC_Session.cfg", "Dump_Session.cfg", "")
	}
}
