package main

import (
	"fmt"

	"verifharness/drv"
	"verifharness/rec"
)

func main() {
	for _, mode := range []string{"bdat-last", "bdat-two", "data"} {
		srv := drv.Start(drv.Cfg{MaxLine: 2000})
		cn, err := srv.Dial()
		if err != nil {
			panic(err)
		}
		cn.Output()
		srv.BE.Lock()
		srv.BE.DataPlans = []rec.DataPlan{{ReadMode: rec.ReadNone}} // returns nil at once, reads nothing
		srv.BE.Unlock()
		var script string
		switch mode {
		case "bdat-last":
			script = "EHLO x\r\nMAIL FROM:<a@b>\r\nRCPT TO:<c@d>\r\nBDAT 6 LAST\r\nhello\nNOOP\r\n"
		case "bdat-two":
			script = "EHLO x\r\nMAIL FROM:<a@b>\r\nRCPT TO:<c@d>\r\nBDAT 6\r\nhello\nBDAT 0 LAST\r\nNOOP\r\n"
		default:
			script = "EHLO x\r\nMAIL FROM:<a@b>\r\nRCPT TO:<c@d>\r\nDATA\r\nhello\r\n.\r\nNOOP\r\n"
		}
		rs, _, _ := cn.Replies([]byte(script))
		for _, r := range rs[1:] {
			fmt.Printf("%s: %d %s\n", mode, r.Code, r.Text())
		}
		for _, c := range srv.BE.Calls() {
			fmt.Println("   ", c.Short())
		}
		cn.Close()
		srv.Stop()
	}
}
