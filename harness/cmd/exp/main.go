package main

import (
	"fmt"
	"time"

	"verifharness/drv"
	"verifharness/rec"
)

func main() {
	for _, mode := range []string{"data", "bdat"} {
		srv := drv.Start(drv.Cfg{MaxLine: 2000, ReadTimeout: 300 * time.Millisecond})
		cn, err := srv.Dial()
		if err != nil {
			panic(err)
		}
		cn.Output()
		srv.BE.Lock()
		srv.BE.DataPlans = []rec.DataPlan{{Propagate: true}}
		srv.BE.Unlock()
		if mode == "data" {
			rs, _, _ := cn.Replies([]byte("EHLO x\r\nMAIL FROM:<a@b>\r\nRCPT TO:<c@d>\r\nDATA\r\nhello\r\n"))
			fmt.Println(mode, "replies so far:", len(rs))
		} else {
			rs, _, _ := cn.Replies([]byte("EHLO x\r\nMAIL FROM:<a@b>\r\nRCPT TO:<c@d>\r\nBDAT 40\r\nhello\r\n"))
			fmt.Println(mode, "replies so far:", len(rs))
		}
		time.Sleep(500 * time.Millisecond)
		o, _ := cn.Output()
		fmt.Printf("%s after silence: %q\n", mode, o)
		cn.Send([]byte("MAIL FROM:<bait@x>\r\n.\r\nNOOP\r\n"))
		time.Sleep(100 * time.Millisecond)
		o, _ = cn.Output()
		fmt.Printf("%s after the rest: %q\n", mode, o)
		for _, c := range srv.BE.Calls() {
			fmt.Println("   ", c.Short())
		}
		cn.Close()
		srv.Stop()
	}
}
