// Command verifrace runs the C20 schedule families on a real server under the
// Go race detector. Scheduling is by wall-clock slots only: nothing here shares
// a channel, mutex or atomic with the goroutines under test (that would create
// happens-before edges that hide the races being looked for), and the tracer is
// off. The verdict comes from the race detector's reports on stderr.
package main

import (
	"context"
	"fmt"
	"io"
	"net"
	"os"
	"strconv"
	"time"

	smtp "github.com/emersion/go-smtp"
)

const slot = 12 * time.Millisecond

// slowBackend: Data/LMTPData read everything and return after a delay.
type slowBackend struct {
	delay time.Duration
	lmtp  bool
}

func (b *slowBackend) NewSession(c *smtp.Conn) (smtp.Session, error) {
	_ = c.Hostname()
	if b.lmtp {
		return &lsess{sess{b}}, nil
	}
	return &sess{b}, nil
}

type sess struct{ b *slowBackend }

func (s *sess) Reset()                                      {}
func (s *sess) Logout() error                               { return nil }
func (s *sess) Mail(from string, o *smtp.MailOptions) error { return nil }
func (s *sess) Rcpt(to string, o *smtp.RcptOptions) error   { return nil }
func (s *sess) Data(r io.Reader) error {
	io.Copy(io.Discard, r)
	time.Sleep(s.b.delay)
	return nil
}

type lsess struct{ sess }

func (s *lsess) LMTPData(r io.Reader, st smtp.StatusCollector) error {
	io.Copy(io.Discard, r)
	time.Sleep(s.b.delay)
	return nil
}

type step struct {
	at     int // slot number
	send   string
	act    string        // "close" "shutdown" "disconnect" "close2"
	jitter time.Duration // added to the slot time
}

func runSchedule(lmtp bool, steps []step, delaySlots int) {
	be := &slowBackend{delay: time.Duration(delaySlots) * slot, lmtp: lmtp}
	s := smtp.NewServer(be)
	s.Domain = "race.test"
	s.LMTP = lmtp
	s.ErrorLog = nullLog{}
	ln, err := net.Listen("tcp", "127.0.0.1:0")
	if err != nil {
		fmt.Println("listen:", err)
		os.Exit(3)
	}
	go s.Serve(ln)
	c, err := net.Dial("tcp", ln.Addr().String())
	if err != nil {
		fmt.Println("dial:", err)
		os.Exit(3)
	}
	go io.Copy(io.Discard, c) // replies are not looked at
	start := time.Now()
	last := 0
	for _, st := range steps {
		if st.at > last {
			last = st.at
		}
		st := st
		go func() {
			time.Sleep(time.Until(start.Add(time.Duration(st.at)*slot + st.jitter)))
			switch st.act {
			case "close", "close2":
				s.Close()
			case "shutdown":
				ctx, cancel := context.WithTimeout(context.Background(), 4*slot)
				s.Shutdown(ctx)
				cancel()
			case "disconnect":
				c.Close()
			default:
				c.Write([]byte(st.send))
			}
		}()
	}
	time.Sleep(time.Duration(last+delaySlots+3) * slot)
	c.Close()
	s.Close()
	time.Sleep(slot)
}

type nullLog struct{}

func (nullLog) Printf(string, ...interface{}) {}
func (nullLog) Println(...interface{})        {}

func main() {
	reps := 1
	if len(os.Args) > 1 {
		reps, _ = strconv.Atoi(os.Args[1])
	}
	n := 0
	for r := 0; r < reps; r++ {
		for _, lmtp := range []bool{false, true} {
			hello := "EHLO x\r\n"
			if lmtp {
				hello = "LHLO x\r\n"
			}
			env := hello + "MAIL FROM:<a@x>\r\nRCPT TO:<b@x>\r\n"
			// what happens at slot 2, while a chunked delivery is open and its
			// backend slow (the backend of the aborted transfer returns at slot ~4)
			for _, ev := range []step{
				{at: 2, send: "RSET\r\n"},
				{at: 2, send: "RSET\r\nMAIL FROM:<c@x>\r\nRCPT TO:<d@x>\r\nBDAT 3 LAST\r\nxyz"},
				{at: 2, send: "QUIT\r\n"},
				{at: 2, send: hello},
				{at: 2, act: "disconnect"},
				{at: 2, act: "close"},
				{at: 2, act: "shutdown"},
				{at: 2, send: "BDAT 3 LAST\r\nabc"},
			} {
				for _, first := range []string{"BDAT 4\r\nabcd", "BDAT 0\r\n"} {
					steps := []step{{at: 0, send: env + first}, ev}
					if ev.send != "" && ev.act == "" {
						// and the server being closed while that is processed
						steps = append(steps, step{at: 3, send: "NOOP\r\n"})
					}
					runSchedule(lmtp, steps, 2)
					n++
				}
			}
			// Server.Close / Shutdown while a greeting, an envelope command, DATA or a chunk is in flight
			for _, inflight := range []string{hello, env, env + "DATA\r\nhello\r\n.\r\n", env + "BDAT 5 LAST\r\nhello", env + "BDAT 5\r\nhello"} {
				for _, act := range []string{"close", "shutdown"} {
					runSchedule(lmtp, []step{{at: 1, send: inflight}, {at: 1, act: act}}, 1)
					n++
				}
			}
			// the same with Server.Close sliding over the handling of the command in
			// fine steps (the windows between two lock operations of the command
			// loop are only microseconds wide)
			for _, inflight := range []string{hello, env + "BDAT 5\r\nhello", env + "BDAT 5\r\nhello" + "MAIL FROM:<x@x>\r\n"} {
				for _, j := range []time.Duration{0, 30, 60, 100, 150, 220, 300, 450, 700, 1000} {
					runSchedule(lmtp, []step{{at: 1, send: inflight}, {at: 1, act: "close", jitter: j * time.Microsecond}}, 0)
					n++
				}
			}
			// two closers at once
			runSchedule(lmtp, []step{{at: 0, send: env}, {at: 1, act: "close"}, {at: 1, act: "close2"}}, 0)
			runSchedule(lmtp, []step{{at: 0, send: env}, {at: 1, act: "close"}, {at: 1, act: "shutdown"}}, 0)
			n += 2
		}
	}
	fmt.Printf("SCHEDULES %d\n", n)
}
