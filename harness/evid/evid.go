// Package evid writes evidence files, replay files and verdict lines, and
// matches divergences against the committed known-findings file.
package evid

import (
	"crypto/sha1"
	"encoding/json"
	"fmt"
	"os"
	"path/filepath"
	"regexp"
	"sort"
	"strconv"
	"sync"
	"time"

	"verifharness/tlcrun"
)

type Coverage map[string]interface{}

type Evidence struct {
	PropertyID  string   `json:"property_id"`
	Tier        string   `json:"tier"`
	Seed        int64    `json:"seed"`
	Level       string   `json:"level"`
	Coverage    Coverage `json:"coverage"`
	Assumptions []string `json:"assumptions,omitempty"`
	WallS       float64  `json:"wall_s"`
	Violations  int      `json:"violations"`
}

// Div is one divergence of the real code from the specification.
type Div struct {
	Prop   string      // property it is attributed to
	Key    string      // stable signature used to match known findings
	Msg    string      // human description
	Replay interface{} // everything needed to re-run it
}

type Finding struct {
	Property string `json:"property"`
	ID       string `json:"id"`
	Match    string `json:"match"` // regexp over Div.Key
	What     string `json:"what"`
	re       *regexp.Regexp
}

type knownFile struct {
	Findings []Finding `json:"findings"`
	Fixed    []string  `json:"fixed"`
}

var (
	kfOnce sync.Once
	kf     knownFile
)

func known() []Finding {
	kfOnce.Do(func() {
		b, err := os.ReadFile(filepath.Join(tlcrun.VerifDir(), "known_findings.json"))
		if err != nil {
			return
		}
		if err := json.Unmarshal(b, &kf); err != nil {
			fmt.Fprintf(os.Stderr, "known_findings.json: %v\n", err)
			os.Exit(2)
		}
		for i := range kf.Findings {
			kf.Findings[i].re = regexp.MustCompile(kf.Findings[i].Match)
		}
	})
	return kf.Findings
}

// Run is the state of one check run.
type Run struct {
	Prop   string
	Tier   string
	Seed   int64
	Start  time.Time
	mu     sync.Mutex
	divs   []Div
	others map[string]int
	seen   map[string]bool
	dups   int
	Notes  []string
}

func Seed() int64 {
	if s := os.Getenv("VERIF_SEED"); s != "" {
		if v, err := strconv.ParseInt(s, 10, 64); err == nil {
			return v
		}
	}
	return 1
}

func NewRun(prop, tier string) *Run {
	// replay files of earlier runs of this property are stale
	if old, _ := filepath.Glob(filepath.Join(tlcrun.VerifDir(), "replay", prop+"-*.json")); old != nil {
		for _, f := range old {
			os.Remove(f)
		}
	}
	return &Run{Prop: prop, Tier: tier, Seed: Seed(), Start: time.Now(), others: map[string]int{}}
}

// Report records a divergence. Divergences attributed to another property are
// only counted (the owning property's check reports them).
func (r *Run) Report(d Div) {
	r.mu.Lock()
	defer r.mu.Unlock()
	if d.Prop != r.Prop {
		if r.others[d.Prop] < 3 && os.Getenv("VERIF_SHOW_OTHERS") != "" {
			fmt.Printf("OTHER %s %s: %.900s\n", d.Prop, d.Key, d.Msg)
		}
		r.others[d.Prop]++
		return
	}
	if r.seen == nil {
		r.seen = map[string]bool{}
	}
	if r.seen[d.Key] {
		r.dups++
		return
	}
	r.seen[d.Key] = true
	r.divs = append(r.divs, d)
}

func (r *Run) NumDivs() int {
	r.mu.Lock()
	defer r.mu.Unlock()
	return len(r.divs)
}

// Inconclusive aborts the run with exit status 2: machinery trouble is never
// a violation.
func Inconclusive(format string, args ...interface{}) {
	fmt.Printf("INCONCLUSIVE: "+format+"\n", args...)
	os.Exit(2)
}

// Finish writes the evidence file, prints verdict lines and exits.
func (r *Run) Finish(level string, cov Coverage, assumptions []string) {
	r.mu.Lock()
	divs := r.divs
	r.mu.Unlock()
	// de-duplicate by key, keep the first (shortest replay first)
	sort.SliceStable(divs, func(i, j int) bool { return divs[i].Key < divs[j].Key })
	seen := map[string]bool{}
	violations := 0
	knownHit := map[string]bool{}
	var lines []string
	for _, d := range divs {
		if seen[d.Key] {
			continue
		}
		seen[d.Key] = true
		matched := false
		for _, f := range known() {
			if f.Property == d.Prop && f.re.MatchString(d.Key) {
				matched = true
				if !knownHit[f.ID] {
					knownHit[f.ID] = true
					lines = append(lines, fmt.Sprintf("KNOWN-FINDING: property=%s %s: %s", d.Prop, f.ID, f.What))
				}
				break
			}
		}
		if matched {
			continue
		}
		violations++
		if violations > 25 {
			continue
		}
		path := writeReplay(d)
		fmt.Printf("DIVERGENCE %s: %s\n", d.Key, d.Msg)
		lines = append(lines, fmt.Sprintf("VIOLATION property=%s replay=%s", d.Prop, path))
	}
	for p, n := range r.others {
		fmt.Printf("NOTE: %d divergence(s) attributed to %s were seen and left to that property's check\n", n, p)
	}
	cov["known_findings_hit"] = len(knownHit)
	ev := Evidence{PropertyID: r.Prop, Tier: r.Tier, Seed: r.Seed, Level: level, Coverage: cov,
		Assumptions: assumptions, WallS: time.Since(r.Start).Seconds(), Violations: violations}
	b, _ := json.MarshalIndent(ev, "", " ")
	dir := filepath.Join(tlcrun.VerifDir(), "evidence")
	if d := os.Getenv("VERIF_EVIDENCE_DIR"); d != "" {
		// testing aid (seedtest.sh): runs against a changed tree leave the committed evidence alone
		dir = d
	}
	os.MkdirAll(dir, 0o755)
	if err := os.WriteFile(filepath.Join(dir, r.Prop+".json"), append(b, '\n'), 0o644); err != nil {
		Inconclusive("cannot write evidence: %v", err)
	}
	for _, l := range lines {
		fmt.Println(l)
	}
	if violations > 0 {
		os.Exit(1)
	}
	fmt.Printf("OK property=%s tier=%s seed=%d wall=%.1fs\n", r.Prop, r.Tier, r.Seed, time.Since(r.Start).Seconds())
	os.Exit(0)
}

func writeReplay(d Div) string {
	dir := filepath.Join(tlcrun.VerifDir(), "replay")
	os.MkdirAll(dir, 0o755)
	h := sha1.Sum([]byte(d.Key))
	path := filepath.Join(dir, fmt.Sprintf("%s-%x.json", d.Prop, h[:6]))
	b, _ := json.MarshalIndent(map[string]interface{}{"property": d.Prop, "key": d.Key, "msg": d.Msg, "replay": d.Replay}, "", " ")
	os.WriteFile(path, append(b, '\n'), 0o644)
	return path
}

// Samples keeps up to n items.
type Samples struct {
	mu sync.Mutex
	N  int
	L  []interface{}
}

func (s *Samples) Add(v interface{}) {
	s.mu.Lock()
	defer s.mu.Unlock()
	if len(s.L) < s.N {
		s.L = append(s.L, v)
	}
}
