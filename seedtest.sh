#!/bin/bash
# usage: seedtest.sh <seed-dir> <check-id>...   e.g. seedtest.sh /verif/seeded/C03-a C03
# Confirms a seeded change (suite passes with it, demo fails with it and passes without) in a
# scratch worktree outside /repo and /verif, then runs the named checks' quick commands built
# against that worktree.
export GOFLAGS=-mod=mod GOPROXY=off GOSUMDB=off GOTOOLCHAIN=local
D=$1; shift
T=$(mktemp -d /tmp/seedwt.XXXX)
git -C /repo worktree add -q --detach $T/wt HEAD || exit 2
trap 'git -C /repo worktree remove --force $T/wt; rm -rf $T' EXIT
cd $T/wt
TEST=$(python3 -c "import json;print(json.load(open('$D/meta.json'))['test_name'])")
cp $D/demo_test.go ./zz_demo_test.go
echo "== demo on unchanged tree (must pass)"; go test -run "$TEST" -count=1 . 2>&1 | tail -1
rm zz_demo_test.go
git apply $D/patch.diff || { echo "PATCH DOES NOT APPLY"; exit 2; }
echo "== suite with the change (must pass)"; go test -count=1 ./... 2>&1 | tail -1
cp $D/demo_test.go ./zz_demo_test.go
echo "== demo with the change (must fail)"; go test -run "$TEST" -count=1 . 2>&1 | tail -1
rm zz_demo_test.go
cd /verif
# the checks are built against the scratch worktree (VERIF_REPO, see ./check): the same
# as applying the patch to /repo and reverting it, without disturbing checks that run meanwhile
for c in "$@"; do
  echo "== check $c on the changed tree"
  VERIF_EVIDENCE_DIR=$T/evidence VERIF_REPO=$T/wt ./check $c --tier quick > $T/out.$c 2>&1; rc=$?
  grep -a "VIOLATION\|^OK\|INCONCL" $T/out.$c | head -3
  echo "exit=$rc"
done
